"""Shared machinery of /verif/bin/check: building (translator, Coq, harness), running the
harness engines, evaluating case shards with coqc, parsing the mismatch lists, evidence."""
import concurrent.futures, hashlib, json, os, re, shutil, subprocess, sys, time

VERIF = os.path.dirname(os.path.dirname(os.path.abspath(__file__)))
REPO = os.environ.get("VERIF_REPO", "/repo")
CACHE = os.path.join(VERIF, ".cache")
COQ = os.path.join(VERIF, "coq")
GOENV = dict(os.environ, GOFLAGS="-mod=mod", GOPROXY="off", GOSUMDB="off", GOTOOLCHAIN="local",
             CGO_ENABLED=os.environ.get("CGO_ENABLED", "1"))

TAGS = {1: "RES", 2: "VALS", 3: "IDX", 4: "COUNT", 5: "KEYS", 6: "TRIG", 7: "EMIT", 8: "FRESH",
        9: "RESTORE", 10: "REPLICA", 11: "WF"}


def sh(cmd, cwd=None, env=None, timeout=None, check=True):
    p = subprocess.run(cmd, cwd=cwd, env=env, shell=isinstance(cmd, str), stdout=subprocess.PIPE,
                       stderr=subprocess.STDOUT, timeout=timeout, text=True)
    if check and p.returncode != 0:
        raise BuildError(f"command failed ({p.returncode}): {cmd}\n{p.stdout[-4000:]}")
    return p


class BuildError(Exception):
    pass


def repo_tree_hash():
    """hash of the Go sources of /repo's working tree (what the checks rebuild from)"""
    h = hashlib.sha256()
    for root, dirs, files in os.walk(REPO):
        dirs[:] = sorted(d for d in dirs if d not in (".git", "examples"))
        for f in sorted(files):
            if f.endswith(".go") or f in ("go.mod", "go.sum"):
                p = os.path.join(root, f)
                h.update(p.encode())
                h.update(open(p, "rb").read())
    return h.hexdigest()[:16]


# --------------------------------------------------------------------------------------
# builds

def build_translator():
    os.makedirs(CACHE, exist_ok=True)
    sh(["go", "build", "-o", os.path.join(CACHE, "translate"), "."], cwd=os.path.join(VERIF, "translate"), env=GOENV)


def translate():
    """regenerate coq/Gen*.v from /repo (files are rewritten only when their text changes)"""
    if not os.path.exists(os.path.join(CACHE, "translate")):
        build_translator()
    sh([os.path.join(CACHE, "translate"), REPO, COQ])


def coq_make(clean=False):
    """full .vo build of the development (incremental unless clean); returns (ok, log)"""
    if clean:
        sh("rm -f *.vo *.vok *.vos *.glob .*.aux props/*.vo props/*.vok props/*.vos props/*.glob props/.*.aux", cwd=COQ, check=False)
    if clean or not os.path.exists(os.path.join(COQ, "Makefile")):
        sh("coq_makefile -f _CoqProject -o Makefile", cwd=COQ)
    p = sh("timeout 3000 make -j16", cwd=COQ, check=False)
    return p.returncode == 0, p.stdout


def build_harness(race=False):
    os.makedirs(CACHE, exist_ok=True)
    h = os.path.join(VERIF, "harness")
    shutil.copyfile(os.path.join(REPO, "go.sum"), os.path.join(h, "go.sum"))
    out = os.path.join(CACHE, "harness_race" if race else "harness")
    cmd = ["go", "build", "-tags", "verif"] + (["-race"] if race else []) + ["-o", out, "."]
    if REPO != "/repo":
        # evaluation of a scratch tree (bin/mutant-eval): same module file with the replace redirected
        alt = os.path.join(CACHE, "alt.mod")
        open(alt, "w").write(open(os.path.join(h, "go.mod")).read().replace("=> /repo", "=> " + REPO))
        shutil.copyfile(os.path.join(REPO, "go.sum"), os.path.join(CACHE, "alt.sum"))
        cmd[2:2] = ["-modfile=" + alt]
    sh(cmd, cwd=h, env=GOENV, timeout=900)
    return out


# --------------------------------------------------------------------------------------
# evaluating shards

MRE = re.compile(r"\(\s*(\d+),\s*\(\s*(\d+),\s*(\d+),\s*(\d+)\)\)")


def big_stack():
    """coqc's parser recurses on the list literals of a case file: lift the stack limit for it"""
    import resource
    try:
        resource.setrlimit(resource.RLIMIT_STACK, (resource.RLIM_INFINITY, resource.RLIM_INFINITY))
    except (ValueError, OSError):
        pass


def eval_shard(path):
    """coqc one shard; returns (list of (case, step, tag, detail), error text or None)"""
    p = subprocess.run(["timeout", "1500", "coqc", "-Q", COQ, "ColumnV", path], cwd=os.path.dirname(path),
                       stdout=subprocess.PIPE, stderr=subprocess.STDOUT, text=True, preexec_fn=big_stack)
    if p.returncode != 0:
        return [], f"coqc failed on {path}:\n{p.stdout[-3000:]}"
    m = re.search(r"M\s*=\s*(.*?)\n\s*:\s*list", p.stdout, re.S)
    if not m:
        return [], f"no result in coqc output for {path}:\n{p.stdout[-2000:]}"
    return [tuple(int(x) for x in t) for t in MRE.findall(m.group(1))], None


def eval_shards(paths, jobs=16):
    out, errs = [], []
    with concurrent.futures.ThreadPoolExecutor(max_workers=jobs) as ex:
        for mm, err in ex.map(eval_shard, paths):
            out.extend(mm)
            if err:
                errs.append(err)
    for p in paths:
        for ext in (".vo", ".vok", ".vos", ".glob"):
            try:
                os.remove(p[:-2] + ext)
            except OSError:
                pass
        try:
            os.remove(os.path.join(os.path.dirname(p), "." + os.path.basename(p)[:-2] + ".aux"))
        except OSError:
            pass
    return out, errs


def first_per_case(mism):
    """the first step with a disagreement per case (later ones cascade from it)"""
    first = {}
    for case, step, tag, det in mism:
        if case not in first or step < first[case][0]:
            first[case] = (step, [])
        if step == first[case][0]:
            first[case][1].append((tag, det))
    return first


def steps_per_case(mism):
    """every disagreeing step per case, in step order: {case: [(step, [(tag, det)...])...]}"""
    per = {}
    for case, step, tag, det in mism:
        per.setdefault(case, {}).setdefault(step, []).append((tag, det))
    return {c: sorted(d.items()) for c, d in per.items()}


def case_text(shard_paths, case):
    """the Gallina definition of one case, cut out of its shard"""
    for p in shard_paths:
        s = open(p).read()
        m = re.search(rf"Definition case_{case} : list step :=\n(.*?)\.\nDefinition ", s, re.S)
        if m:
            return m.group(1)
    return None


def split_steps(text):
    """top-level steps of a case text (steps are separated by ';\\n  St')"""
    body = text.strip()
    if body.startswith("["):
        body = body[1:]
    if body.endswith("]"):
        body = body[:-1]
    parts = re.split(r";\n  (?=St)", body)
    return parts


def run_hist(profile, seed, n, out, first=0, allow="", per_shard=12, only=None, race=False):
    h = os.path.join(CACHE, "harness_race" if race else "harness")
    if os.path.exists(out):
        shutil.rmtree(out)
    cmd = [h, "hist", "--seed", str(seed), "--n", str(n), "--first", str(first), "--profile", profile,
           "--out", out, "--per-shard", str(per_shard)]
    if allow:
        cmd += ["--allow", allow]
    if only is not None:
        cmd += ["--only", str(only)]
    sh(cmd, timeout=3000)
    return json.load(open(os.path.join(out, "summary.json")))
