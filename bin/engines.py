"""Per-property configuration and the engines behind bin/check."""
import os, re, json, time, glob, shutil, hashlib, subprocess
import vlib
from vlib import VERIF, CACHE, COQ, REPO, TAGS

EVID = os.path.join(VERIF, "evidence")
REPLAYS = os.path.join(VERIF, "replays")

TRUSTED_BASE = [
    "Coq 8.16.1 kernel and its vm_compute evaluator (no native_compute); coqchk re-check in the thorough tier",
    "no axioms declared by the development; axioms reported by Print Assumptions are listed under coverage.assumptions_reported",
    "translator /verif/translate (Go go/parser): literal constant extraction, syntactic lock-graph and shape facts",
    "correspondence check: Go harness (generators, canonicalisation, comparator are test code) + model evaluated by coqc/vm_compute; no extraction is used",
    "modelled, not verified: Go slices/maps/generics, kelindar/bitmap and simd kernels, intmap, tidwall/btree as an ordered set, iostream, klauspost/s2, xxh3, sync.RWMutex, sync.Pool, unsafe aliasing, the Go memory model, timers, the file system",
]


class Ctx:
    def __init__(self, pid, tier, seed, replay):
        self.pid, self.tier, self.seed, self.replay = pid, tier, seed, replay
        self.violations = []     # dicts: kind, what, replay, found_input
        self.known = []          # KNOWN-FINDING texts
        self.coverage = {"evaluations": 0, "distinct_nontrivial": 0, "samples": []}
        self.notes = []
        self.checker_cmds = []
        self.proof = {"obligations": 0, "discharged": 0, "theorems": [], "assumptions_reported": []}
        self.proof_broken = []   # names of Coq files that no longer compile
        self.other = []          # disagreements that concern other properties

    def violation(self, kind, what, replay=None, found_input=True, data=None):
        os.makedirs(os.path.join(REPLAYS, self.pid), exist_ok=True)
        if replay is None:
            n = len(self.violations)
            replay = os.path.join(REPLAYS, self.pid, f"{kind}_{n}.json")
            with open(replay, "w") as f:
                json.dump({"property": self.pid, "kind": kind, "what": what, "found_input": found_input,
                           "seed": self.seed, "tier": self.tier, "data": data}, f, indent=1)
        self.violations.append({"kind": kind, "what": what, "replay": replay, "found_input": found_input})


# ---------------------------------------------------------------------------------------
# preparation: translate, prove, build

def _src_hash(dirs):
    h = hashlib.sha256()
    for d in dirs:
        for root, ds, fs in os.walk(d):
            ds.sort()
            for f in sorted(fs):
                if f.endswith((".go", ".mod", ".v", "_CoqProject")):
                    p = os.path.join(root, f)
                    h.update(p.encode())
                    h.update(open(p, "rb").read())
    return h.hexdigest()[:16]


def _stamp(name, value=None):
    p = os.path.join(CACHE, name + ".stamp")
    if value is None:
        return open(p).read() if os.path.exists(p) else ""
    open(p, "w").write(value)


def prepare(ctx):
    # translator
    th = _src_hash([os.path.join(VERIF, "translate")])
    if _stamp("translate") != th or not os.path.exists(os.path.join(CACHE, "translate")):
        vlib.build_translator()
        _stamp("translate", th)
    vlib.translate()
    ctx.checker_cmds.append(".cache/translate /repo coq   # regenerates coq/Gen*.v")
    # proofs
    ok, log = vlib.coq_make()
    ctx.checker_cmds.append("cd coq && coq_makefile -f _CoqProject -o Makefile && make -j16   # full .vo build")
    if not ok:
        bad = sorted(set(re.findall(r'File "\./([\w/]+)\.v"', log)))
        ctx.proof_broken = bad or ["unknown"]
        ctx.proof_log = log[-3000:]
    # harness (rebuilt whenever /repo's tree or the harness sources change)
    for race in ([False, True] if PROPS[ctx.pid].get("race") else [False]):
        key = "harness_race" if race else "harness"
        hh = vlib.repo_tree_hash() + _src_hash([os.path.join(VERIF, "harness")])
        if _stamp(key) != hh or not os.path.exists(os.path.join(CACHE, key)):
            vlib.build_harness(race=race)
            _stamp(key, hh)
    ctx.checker_cmds.append("cd harness && go build -tags verif -o ../.cache/harness .   # from /repo's working tree")
    # thorough tier: independent re-check of the compiled development, once per state of the sources
    if ctx.tier == "thorough" and not ctx.proof_broken:
        ch = _src_hash([COQ])
        rep = os.path.join(CACHE, "coqchk.txt")
        if _stamp("coqchk") != ch or not os.path.exists(rep):
            mods = ["ColumnV.props." + os.path.basename(f)[:-2] for f in sorted(glob.glob(os.path.join(COQ, "props", "C*.v")))]
            p = vlib.sh(["timeout", "5400", "coqchk", "-silent", "-o", "-Q", COQ, "ColumnV"] + mods, cwd=COQ, check=False)
            open(rep, "w").write(p.stdout[-6000:] + f"\nexit={p.returncode}\n")
            _stamp("coqchk", ch)
        txt = open(rep).read()
        ctx.coqchk = txt[-1500:]
        ctx.checker_cmds.append("coqchk -silent -o -Q coq ColumnV ColumnV.props.C01 ... C19   # independent checker, once per source state")
        if "exit=0" not in txt:
            ctx.proof_broken = ["coqchk"]
            ctx.proof_log = txt[-2000:]


# ---------------------------------------------------------------------------------------
# proofs of one property

MODEL_FILES = {"GenConsts", "Bytes", "Ops", "Buffer", "Store", "Check"}


def check_proofs(ctx):
    cfg = PROPS[ctx.pid]
    pf = os.path.join(COQ, "props", ctx.pid + ".v")
    if not os.path.exists(pf):
        ctx.notes.append("no props file")
        return
    src = open(pf).read()
    thms = re.findall(r"^(?:Theorem|Corollary)\s+(\w+)", src, re.M)
    ctx.proof["theorems"] = thms
    ctx.proof["obligations"] = len(thms)
    deps = set(re.findall(r"From ColumnV Require Import ([^.]*)\.", src))
    depmods = set()
    for d in deps:
        depmods.update(d.split())
    if ctx.proof_broken:
        ctx.proof["discharged"] = 0
        ctx.proof["broken_files"] = ctx.proof_broken
        return
    p = vlib.sh(["timeout", "600", "coqc", "-Q", COQ, "ColumnV", pf], cwd=COQ, check=False)
    ctx.checker_cmds.append(f"coqc -Q coq ColumnV coq/props/{ctx.pid}.v   # property theorems + Print Assumptions")
    if p.returncode != 0:
        ctx.proof["discharged"] = 0
        ctx.proof_broken = ["props/" + ctx.pid]
        ctx.proof_log = p.stdout[-3000:]
        return
    ctx.proof["discharged"] = len(thms)
    out = p.stdout
    closed = out.count("Closed under the global context")
    axioms = sorted(set(re.findall(r"^\s*([\w.]+)\s*:", out.split("Axioms:", 1)[1], re.M))) if "Axioms:" in out else []
    ctx.proof["assumptions_reported"] = [f"{closed} theorem(s): Closed under the global context"] + \
        ([f"axioms used: {', '.join(axioms)}"] if axioms else [])


# ---------------------------------------------------------------------------------------
# the hist engine: classification of disagreements

def parse_body(step_text):
    m = re.match(r"StTxn \[(.*?)\] (true|false)\n", step_text, re.S)
    if m:
        body = m.group(1)
        stmts = [s.strip() for s in re.split(r";\n      ", body)] if body.strip() else []
        return stmts, m.group(2) == "true"
    m = re.match(r"StNested \[(.*?)\]\n    \[(.*?)\] (true|false)\n    \[(.*?)\] (true|false)\n", step_text, re.S)
    if m:
        stmts = []
        for part in (m.group(1), m.group(2), m.group(4)):
            if part.strip():
                stmts += [s.strip() for s in re.split(r";\n      ", part)]
        return stmts, m.group(5) == "true"
    return [], None


def inserted_offsets(stmts):
    offs = set()
    for s in stmts:
        m = re.match(r"SInsert (\d+)", s) or re.match(r"S(?:Insert|Upsert)Key \[[\d;]*\] (\d+)", s)
        if m:
            offs.add(int(m.group(1)))
    return offs


def classify(step_text, tags):
    """which properties a disagreement at this step concerns"""
    props = {}

    def add(p, why):
        props.setdefault(p, []).append(why)
    restore = step_text.startswith("StRestore")
    replica = step_text.startswith("StReplica")
    stmts, committed = parse_body(step_text)
    aborted = committed is False
    ins = inserted_offsets(stmts)
    for tag, det in tags:
        t = TAGS.get(tag, str(tag))
        if aborted:
            add("C02", f"{t} after a rolled back transaction")
        if t == "RES":
            st = stmts[det] if det < len(stmts) else "?"
            if st.startswith("SRead"):
                add("C02", f"own read returned a different value: {st}")
            elif st.startswith("STerm (TAscend"):
                add("C16", f"Ascend visited different rows/order: {st}")
            elif st.startswith("STerm") or st.startswith("SDelete"):
                add("C04", f"result of {st} differs from set semantics")
            elif re.match(r"S(InsertKey|UpsertKey|QueryKey|DeleteKey)", st):
                add("C12", f"result of {st[:60]} differs from map semantics")
            elif st.startswith("SInsert"):
                add("C11", f"insert result differs: {st[:60]}")
        elif t == "FRESH":
            add("C11", "an insert received an occupied offset")
        elif t in ("VALS", "IDX"):
            if restore:
                add("C07", f"restored collection differs ({t}) at offset {det}")
                if t == "IDX":
                    add("C03", f"index differs after restore at offset {det}")
            elif replica:
                add("C06", f"replica differs ({t}) at offset {det}")
                if t == "IDX":
                    add("C03", f"replica index differs at offset {det}")
            else:
                add("C01" if t == "VALS" else "C03", f"{'values' if t == 'VALS' else 'index membership'} differ at offset {det}")
                if t == "VALS":
                    add("C10", f"a reader was handed a value at offset {det} that no transaction committed")
                    if "WMerge" in step_text or "KMerge" in step_text:
                        add("C09", f"the value at offset {det} is not the fold of the merged deltas")
                if det in ins:
                    add("C11", f"freshly inserted row {det} exposes foreign data ({t})")
        elif t == "COUNT":
            add("C11", "Count differs from the number of live rows")
            if re.search(r"S(InsertKey|UpsertKey|DeleteKey)", step_text):
                add("C12", "the live rows differ after key operations: a key resolves to a row that is not live, or a keyed row was lost (COUNT)")
            if restore:
                add("C07", "Count differs after restore")
        elif t == "KEYS":
            add("C12", "key lookup table differs")
            if restore:
                add("C07", "key lookups differ after restore")
            if replica:
                add("C06", "replica key lookups differ")
        elif t == "TRIG":
            add("C19", f"trigger {det} saw a different event sequence")
        elif t == "EMIT":
            add("C15", "emitted commits differ")
            add("C05", "emitted (rewritten) operations differ")
            add("C06", "emitted commits differ")
        elif t == "RESTORE":
            add("C07", "model-internal: restore(snapshot s) differs from s")
        elif t == "REPLICA":
            add("C06", "replica differs from primary" if det else "model-internal: replay of the stream differs")
    return props


PANIC_PROPS = [
    (r"Snapshot|writeState|readChunk|Restore|readState", ["C07", "C08"]),
    (r"findFreeIndex|\.next\b", ["C11"]),
    (r"OffsetOf|columnKey", ["C12"]),
    (r"Ascend|columnSortIndex", ["C16"]),
    (r"columnIndex", ["C03"]),
    (r"\.With|\.Union|rangeRead|Filter|\.Sum|\.Min|\.Max", ["C04"]),
    (r"chunkAt|\.Apply|commitUpdates|PutBytes|PutString", ["C01"]),
]


def panic_props(text):
    for rx, ps in PANIC_PROPS:
        if re.search(rx, text):
            return ps
    return None


def nontrivial(pid, feat):
    """the per-property rule deciding whether a generated history counts as non-trivial"""
    f = lambda k: feat.get(k, 0)
    stm = lambda *ks: sum(f("stmt." + k) for k in ks)
    merges = sum(v for k, v in feat.items() if k.startswith("write.") and k.endswith(".merge"))
    rules = {
        "C01": f("commits") >= 3 and (f("reuse") > 0 or f("multiblock") > 0 or merges > 0),
        "C02": f("aborts") >= 1 and f("commits") >= 1 and stm("insert", "insertkey", "upsert.insert") > 0,
        "C03": f("commits") >= 3 and (stm("delete", "range", "deleteall") > 0 or merges > 0),
        "C04": stm("with", "without", "union", "withunion", "illtyped", "pred.signed", "pred.unsigned", "pred.streq", "pred.lengt", "pred.true") >= 1
               and stm("count", "range", "sum", "min", "max", "delete") >= 1,
        "C05": f("emitted") >= 2 and merges > 0,
        "C06": f("replicas") >= 1 and f("emitted") >= 2,
        "C07": f("restores") >= 1 and f("commits") >= 2,
        "C11": stm("insert", "insertkey", "upsert.insert") >= 3 and (f("reuse") > 0 or stm("delete", "deletekey") > 0),
        "C12": f("keyed") >= 1 and stm("insertkey", "insertkey.dup", "upsert.insert", "upsert.update", "querykey", "deletekey") >= 3,
        "C15": f("emitted") >= 2 and (f("aborts") >= 1 or f("multiblock") >= 1),
        "C16": stm("ascend") >= 1,
        "C19": f("trigger_events") >= 2,
    }
    return bool(rules.get(pid, f("commits") >= 2))


def run_hist_engine(ctx, spec):
    n = spec["quick"] if ctx.tier == "quick" else spec["thorough"]
    out = os.path.join(CACHE, "run", f"{ctx.pid}_{spec['profile']}")
    only = None
    seed = ctx.seed
    if ctx.replay:
        r = json.load(open(ctx.replay))
        d = r.get("data") or {}
        if d.get("engine") != "hist" or d.get("profile") != spec["profile"]:
            return
        only, seed = d["case"], d["seed"]
    t0 = time.time()
    s = vlib.run_hist(spec["profile"], seed, n, out, only=only, per_shard=spec.get("per_shard", 10))
    mm, errs = vlib.eval_shards(s["shards"])
    ctx.checker_cmds.append(f".cache/harness hist --profile {spec['profile']} --seed {seed} --n {n}; coqc <shards>   # {len(s['shards'])} shards, vm_compute")
    for e in errs:
        ctx.violation("correspondence", "the model could not be evaluated on the recorded cases (Check.v no longer checks): " + e[:1500], found_input=False)
    # tag WF is not a disagreement: it marks transactions outside the side conditions of the
    # invariant theorems (StoreProofs6.txn_wf); they are counted, so that the evidence says how
    # much of what was exercised lies inside the theorems' domain
    outside = [m for m in mm if m[2] == 11]
    mm = [m for m in mm if m[2] != 11]
    first = vlib.first_per_case(mm)
    feats = {f["case"]: f for f in (s.get("features") or [])}
    hashes = set()
    nt = 0
    for i, f in enumerate(s.get("features") or []):
        h = s["hashes"][i]
        if h in hashes:
            continue
        hashes.add(h)
        if nontrivial(ctx.pid, f):
            nt += 1
    cov = ctx.coverage
    cov["evaluations"] += s["cases"]
    cov["distinct_nontrivial"] += nt
    cov.setdefault("engines", []).append({
        "engine": "hist", "profile": spec["profile"], "seed": seed, "cases": s["cases"], "distinct": len(hashes),
        "nontrivial": nt, "disagreeing_cases": len(first), "wall_s": round(time.time() - t0, 1),
        "transactions": s["stats"].get("Txns", 0), "transactions_outside_invariant_hypotheses": len([m for m in outside if m[3] == 0]),
        "transactions_with_inadmissible_key_operations": len([m for m in outside if m[3] == 1]),
        "distribution": s["stats"]})
    for smp in (s.get("samples") or [])[:1]:
        cov["samples"].append({"engine": "hist", "profile": spec["profile"], "history": smp[:4000]})
    # disagreements
    # The first disagreeing step of a case is always judged.  A disagreement that is a pure observation
    # (the emitted commits, a trigger's event log, the result of a read-only statement) leaves the
    # model's and the implementation's collections in step, so the later steps of the case are still
    # comparable and are judged too; after a disagreement about the state itself (values, indexes,
    # Count, keys, offsets) the rest of the case only cascades from it and is dropped.
    allsteps = vlib.steps_per_case(mm)
    for case in sorted(first):
        text = vlib.case_text(s["shards"], case)
        steps = vlib.split_steps(text)
        reported = False
        for step, tags in allsteps.get(case, []):
            props = classify(steps[step], tags)
            data = {"engine": "hist", "profile": spec["profile"], "seed": seed, "case": case, "step": step,
                    "tags": [(TAGS.get(t, t), d) for t, d in tags],
                    "history": "[" + ";\n  ".join(steps[:step + 1]) + "]"}
            if ctx.pid in props:
                if not reported:
                    ctx.violation("history", "; ".join(props[ctx.pid]) + f"  (profile={spec['profile']} seed={seed} case={case} step={step})", data=data)
                reported = True
            else:
                ctx.other.append({"case": case, "step": step, "concerns": sorted(props), "profile": spec["profile"]})
            stmts_, _c = parse_body(steps[step])
            neutral = True
            for t_, det in tags:
                tn = TAGS.get(t_, str(t_))
                if tn in ("EMIT", "TRIG"):
                    continue
                if tn == "RES" and det < len(stmts_) and re.match(r"S(Term|Read|QueryKey)", stmts_[det]):
                    continue
                neutral = False
            if not neutral or reported:
                break
    for case, ptxt in (s.get("panics") or {}).items():
        ps = panic_props(ptxt) or [ctx.pid]
        text = vlib.case_text(s["shards"], int(case)) or ""
        data = {"engine": "hist", "profile": spec["profile"], "seed": seed, "case": int(case), "panic": ptxt, "history": text}
        if ctx.pid in ps:
            ctx.violation("panic", f"the implementation panicked: {ptxt}  (profile={spec['profile']} seed={seed} case={case})", data=data)
        else:
            ctx.other.append({"case": int(case), "panic": ptxt, "concerns": ps})
    # an operation that never returned (the watchdog abandoned the case): no property that needs the
    # operation's result holds on that history, and it is a termination failure (C18)
    for case, what in list((s.get("stuck") or {}).items())[:5]:
        text = vlib.case_text(s["shards"], int(case)) or ""
        ctx.violation("stuck", f"a call into the library never returned in a sequential history: {what}  (profile={spec['profile']} seed={seed} case={case})",
                      data={"engine": "hist", "profile": spec["profile"], "seed": seed, "case": int(case), "stuck": what, "history": text})
    if ctx.pid == "C15":
        for v in (s["stats"].get("IdViolations") or [])[:5]:
            ctx.violation("ids", "change stream: " + v, data={"engine": "hist", "profile": spec["profile"], "seed": seed, "case": 0})
    if ctx.pid in ("C03", "C04", "C19"):
        for case, notes in (s.get("notes") or {}).items():
            for nte in notes:
                if (nte.startswith("AltRead: Index:") and ctx.pid in ("C03", "C04")) or (nte.startswith("Trigger:") and ctx.pid == "C19"):
                    ctx.violation("altread", nte + f"  (profile={spec['profile']} seed={seed} case={case})",
                                  data={"engine": "hist", "profile": spec["profile"], "seed": seed, "case": int(case), "history": vlib.case_text(s["shards"], int(case)) or ""})
    if ctx.pid in ("C01", "C04"):
        for case, notes in (s.get("notes") or {}).items():
            for nte in notes:
                if nte.startswith("AltRead:") and "Index:" not in nte and (("Range visited" in nte) == (ctx.pid == "C04")):
                    ctx.violation("altread", "two ways of reading the same state disagree: " + nte[9:] + f"  (profile={spec['profile']} seed={seed} case={case})",
                                  data={"engine": "hist", "profile": spec["profile"], "seed": seed, "case": int(case), "history": vlib.case_text(s["shards"], int(case)) or ""})
    if ctx.pid == "C16":
        for case, notes in (s.get("notes") or {}).items():
            for nte in notes:
                if nte.startswith("SortProbe:") and sum(1 for v in ctx.violations if v.get("kind") == "sortprobe") < 5:
                    ctx.violation("sortprobe", nte + f"  (profile={spec['profile']} seed={seed} case={case})",
                                  data={"engine": "hist", "profile": spec["profile"], "seed": seed, "case": int(case), "history": vlib.case_text(s["shards"], int(case)) or ""})
    if ctx.pid == "C12":
        for case, notes in (s.get("notes") or {}).items():
            for nte in notes:
                if nte.startswith("KeyProbe:") and sum(1 for v in ctx.violations if v.get("kind") == "keyprobe") < 5:
                    ctx.violation("keyprobe", nte + f"  (profile={spec['profile']} seed={seed} case={case})",
                                  data={"engine": "hist", "profile": spec["profile"], "seed": seed, "case": int(case), "history": vlib.case_text(s["shards"], int(case)) or ""})
    if ctx.pid == "C07":
        for case, notes in (s.get("notes") or {}).items():
            for nte in notes:
                if nte.startswith("restore failed"):
                    ctx.violation("restore", f"Restore of a snapshot the collection just wrote failed: {nte}  (profile={spec['profile']} seed={seed} case={case})",
                                  data={"engine": "hist", "profile": spec["profile"], "seed": seed, "case": int(case), "history": vlib.case_text(s["shards"], int(case)) or ""})
    if ctx.pid == "C04":
        for case, notes in (s.get("notes") or {}).items():
            for nte in notes:
                if nte.startswith("Avg:"):
                    ctx.violation("avg", nte + f"  (profile={spec['profile']} seed={seed} case={case})",
                                  data={"engine": "hist", "profile": spec["profile"], "seed": seed, "case": int(case), "history": vlib.case_text(s["shards"], int(case)) or ""})
                if nte.startswith("Range: cursor"):
                    ctx.violation("cursor", nte, data={"engine": "hist", "profile": spec["profile"], "seed": seed, "case": int(case)})


# ---------------------------------------------------------------------------------------

def run_findings(ctx):
    """KNOWN-FINDING lines for the listed findings that the deterministic scenarios still reproduce"""
    kf = {c: t for c, t in known_findings(ctx.pid).items() if c in ("K1", "K3", "K4", "K5", "K6", "K7")}
    if not kf or ctx.replay:
        return
    out = os.path.join(CACHE, "run", f"{ctx.pid}_finding")
    vlib.sh([os.path.join(CACHE, "harness"), "finding", "--out", out], timeout=300)
    res = json.load(open(os.path.join(out, "findings.json")))
    for cls, txt in sorted(kf.items()):
        if cls in res and not any(k.startswith(cls + " ") for k in ctx.known):
            ctx.known.append(f"{cls} {txt[:300]} [observed: {res[cls][:200]}]")
        elif cls not in res:
            ctx.notes.append(f"listed finding {cls} did not reproduce on this tree")


def run_property(ctx):
    cfg = PROPS[ctx.pid]
    check_proofs(ctx)
    model_broken = [f for f in ctx.proof_broken if f in MODEL_FILES]
    if model_broken:
        ctx.violation("model", f"the model no longer compiles against the regenerated facts: {model_broken}\n{getattr(ctx, 'proof_log', '')}",
                      found_input=False)
        return
    for spec in cfg["engines"]:
        ENGINES[spec["engine"]](ctx, spec)
    run_findings(ctx)
    if ctx.proof_broken and not any(v["found_input"] for v in ctx.violations):
        ctx.violation("proof", f"proof obligations of {ctx.pid} no longer check: {ctx.proof_broken}; theorems {ctx.proof['theorems']}\n{getattr(ctx, 'proof_log', '')}",
                      found_input=False)


def finish(ctx, wall):
    cfg = PROPS[ctx.pid]
    cov = ctx.coverage
    cov["obligations"] = ctx.proof["obligations"]
    cov["discharged"] = ctx.proof["discharged"]
    cov["theorems"] = ctx.proof["theorems"]
    cov["assumptions_reported"] = ctx.proof["assumptions_reported"]
    cov["checker_cmd"] = " ; ".join(ctx.checker_cmds) or "none"
    cov["trusted_base"] = TRUSTED_BASE + cfg.get("trusted_extra", [])
    cov["rule"] = cfg.get("rule", "")
    if getattr(ctx, "coqchk", None):
        cov["coqchk"] = ctx.coqchk
    cov["other_disagreements"] = ctx.other[:20]
    cov["known_findings"] = ctx.known
    if not cov["samples"]:
        cov["samples"] = [{"obligations": ctx.proof["theorems"]}]
    ev = {"property_id": ctx.pid, "tier": ctx.tier, "seed": ctx.seed, "level": "proof", "coverage": cov,
          "assumptions": cfg.get("assumptions", []), "wall_s": round(wall, 1), "violations": len(ctx.violations),
          "notes": ctx.notes}
    with open(os.path.join(EVID, ctx.pid + ".json"), "w") as f:
        json.dump(ev, f, indent=1)
    for k in ctx.known:
        print(f"KNOWN-FINDING: property={ctx.pid} {k}")
    for v in ctx.violations:
        tail = "" if v["found_input"] else " no-failing-input-found"
        print(f"# {v['what'][:600]}")
        print(f"VIOLATION property={ctx.pid} replay={v['replay']}{tail}")
    if not ctx.violations:
        print(f"OK property={ctx.pid} tier={ctx.tier} theorems={ctx.proof['discharged']}/{ctx.proof['obligations']} "
              f"cases={cov['evaluations']} nontrivial={cov['distinct_nontrivial']} wall={wall:.0f}s")
    return 1 if ctx.violations else 0


def run_alloc_engine(ctx, spec):
    """C11 (a): the real findFreeIndex against coq/Alloc.v find_free on generated fill lists"""
    n = spec["quick"] if ctx.tier == "quick" else spec["thorough"]
    out = os.path.join(CACHE, "run", f"{ctx.pid}_alloc")
    if os.path.exists(out):
        shutil.rmtree(out)
    t0 = time.time()
    vlib.sh([os.path.join(CACHE, "harness"), "alloc", "--seed", str(ctx.seed), "--n", str(n), "--out", out], timeout=1200)
    s = json.load(open(os.path.join(out, "summary.json")))
    bad = []
    for sh_ in s["shards"]:
        p = subprocess.run(["timeout", "1200", "coqc", "-Q", COQ, "ColumnV", sh_], cwd=out, stdout=subprocess.PIPE, stderr=subprocess.STDOUT, text=True, preexec_fn=vlib.big_stack)
        m = re.search(r"M\s*=\s*\[(.*?)\]\s*:\s*list", p.stdout, re.S)
        if p.returncode != 0 or not m:
            ctx.violation("correspondence", "Alloc.v could not be evaluated on the recorded allocator cases: " + p.stdout[-1500:], found_input=False)
            continue
        bad += [(sh_, int(x)) for x in re.findall(r"\d+", m.group(1))]
    ctx.checker_cmds.append(f".cache/harness alloc --seed {ctx.seed} --n {n}; coqc <shards>   # find_free vs findFreeIndex")
    cov = ctx.coverage
    cov["evaluations"] += s["cases"]
    cov["distinct_nontrivial"] += s["cases"] - s["shapes"].get("empty", 0)
    cov.setdefault("engines", []).append({"engine": "alloc", "cases": s["cases"], "shapes": s["shapes"], "model_disagreements": len(bad),
                                          "occupied_results": len(s.get("occupied_results") or []), "wall_s": round(time.time() - t0, 1)})
    cov["samples"] += [{"engine": "alloc", "case(words,count,result)": x} for x in (s.get("samples") or [])[:2]]
    for o in (s.get("occupied_results") or [])[:3]:
        ctx.violation("alloc", "findFreeIndex returned an occupied offset: " + o, data={"engine": "alloc", "seed": ctx.seed})
    if bad and not s.get("occupied_results"):
        # a different but still free choice is a harmless rewrite of the allocator: the model of
        # find_free no longer corresponds, the property itself was checked directly above
        ctx.notes.append(f"allocator model disagrees on {len(bad)} cases although every returned offset was free: findFreeIndex changed its choice; Alloc.v must be brought up to date")
        ctx.violation("correspondence", f"find_free (Alloc.v) and findFreeIndex disagree on {len(bad)} generated fill lists (first: {bad[0]}); every offset returned by the code was free on these inputs",
                      found_input=False)


def known_findings(pid):
    """finding: lines of KNOWN_FINDINGS.txt for a property -> {class: text}"""
    out = {}
    for l in open(os.path.join(VERIF, "KNOWN_FINDINGS.txt")):
        m = re.match(r"finding: property=(\w+) class=(\w+) (.*)", l.strip())
        if m and m.group(1) == pid:
            out[m.group(2)] = m.group(3)
    return out


def run_race_engine(ctx, spec):
    """C18: free-running workloads under the Go race detector; reports deduplicated by function pair"""
    import racepairs
    secs = spec["quick"] if ctx.tier == "quick" else spec["thorough"]
    out = os.path.join(CACHE, "run", f"{ctx.pid}_race")
    if os.path.exists(out):
        shutil.rmtree(out)
    os.makedirs(out)
    env = dict(os.environ, GORACE=f"halt_on_error=0 log_path={out}/race")
    t0 = time.time()
    if spec.get("norace"):
        # one workload with a model-free monitor, free-running on all cores, without the detector
        try:
            p = subprocess.run([os.path.join(CACHE, "harness"), "race", "--seconds", str(secs), "--only", spec["only"], "--out", out],
                               env=env, stdout=subprocess.PIPE, stderr=subprocess.STDOUT, text=True, timeout=secs * 4 + 120)
        except subprocess.TimeoutExpired as ex:
            ctx.violation("stuck", f"the free-running workload '{spec['only']}' did not come back within {secs * 4 + 120} s: " + str(ex.stdout or "")[-600:],
                          data={"engine": "race", "workload": spec["only"]})
            return
        ctx.checker_cmds.append(f".cache/harness race --seconds {secs} --only {spec['only']}   # free-running on {os.cpu_count()} cores")
    else:
        p = subprocess.run([os.path.join(CACHE, "harness_race"), "race", "--seconds", str(secs), "--known", "--out", out],
                           env=env, stdout=subprocess.PIPE, stderr=subprocess.STDOUT, text=True, timeout=3000)
        ctx.checker_cmds.append(f"GORACE=log_path=... .cache/harness_race race --seconds {secs} --known   # go build -race")
    if not os.path.exists(os.path.join(out, "summary.json")):
        ctx.violation("race", "the race workloads crashed: " + p.stdout[-1500:], data={"engine": "race"})
        return
    s = json.load(open(os.path.join(out, "summary.json")))
    pairs = racepairs.pairs(glob.glob(os.path.join(out, "race.*")))
    kf = known_findings(ctx.pid)
    classes = {}
    for cls, txt in kf.items():
        m = re.search(r"pairs=/(.*?)/ ", txt)
        if m:
            classes[cls] = (re.compile(m.group(1)), txt.split("/ ", 1)[1] if "/ " in txt else txt)
    seen_cls = {}
    for key, rep in sorted(pairs.items()):
        hit = [c for c, (rx, _) in classes.items() if rx.search(key)]
        if "kelindar" not in rep and "(*" not in key:
            ctx.notes.append("race report without a kelindar/column frame (harness-internal), ignored: " + key)
            continue
        if hit:
            seen_cls.setdefault(hit[0], []).append(key)
        else:
            ctx.violation("race", f"data race between {key}", data={"engine": "race", "pair": key, "report": rep})
    for cls, keys in seen_cls.items():
        ctx.known.append(f"{cls} {classes[cls][1][:220]} [pairs seen this run: {'; '.join(keys[:6])}]")
    for f in (s.get("invariant_violations") or []):
        m = re.match(r"\[(C\d\d)\] ", f)
        if m and m.group(1) == ctx.pid:
            ctx.violation("invariant", f, data={"engine": "race", "failure": f})
        else:
            ctx.other.append({"concerns": [m.group(1) if m else "C10"], "what": f[:200]})
    for w in (s.get("stuck") or []):
        ctx.violation("deadlock", f"workload '{w}' did not terminate within 20 s after it was told to stop", data={"engine": "race", "workload": w})
    for pn in (s.get("panics") or [])[:3]:
        if "K11" in pn and "K11" in classes:
            continue
        ctx.violation("panic", "panic under concurrent use: " + pn, data={"engine": "race", "panic": pn})
    cov = ctx.coverage
    ops = sum(s["operations_by_workload"].values())
    cov["evaluations"] += ops
    cov["distinct_nontrivial"] += len(s["operations_by_workload"])
    cov.setdefault("engines", []).append({"engine": "race", "operations_by_workload": s["operations_by_workload"], "cores": s["cores"],
                                          "race_pairs": sorted(pairs), "seconds": s["seconds"], "wall_s": round(time.time() - t0, 1)})
    cov["samples"] += [{"engine": "race", "workloads": list(s["operations_by_workload"])}]


def run_codec_engine(ctx, spec):
    """C05: real commit.Buffer vs coq/Buffer.v byte for byte; wire round trips and merge rewrite checked in the harness"""
    n = spec["quick"] if ctx.tier == "quick" else spec["thorough"]
    out = os.path.join(CACHE, "run", f"{ctx.pid}_codec")
    if os.path.exists(out):
        shutil.rmtree(out)
    t0 = time.time()
    cmd = [os.path.join(CACHE, "harness"), "codec", "--seed", str(ctx.seed), "--n", str(n), "--out", out]
    if ctx.tier == "thorough":
        cmd.append("--long")
    vlib.sh(cmd, timeout=2400)
    s = json.load(open(os.path.join(out, "summary.json")))

    def ev(path):
        p = subprocess.run(["timeout", "2400", "coqc", "-Q", COQ, "ColumnV", path], cwd=out, stdout=subprocess.PIPE, stderr=subprocess.STDOUT, text=True,
                           preexec_fn=vlib.big_stack)
        m = re.search(r"M\s*=\s*(.*?)\n\s*:\s*list", p.stdout, re.S)
        r = re.search(r"\nR\s*=\s*(.*?)\n\s*:\s*list", p.stdout, re.S)
        if p.returncode != 0 or not m or not r:
            return None, p.stdout[-1500:]
        # tag 6: Reader.Int / Reader.Uint of some numeric entry of the case differ from ReadInt.v
        return ([(int(a), int(b)) for a, b in re.findall(r"\((\d+),\s*(\d+)\)", m.group(1))]
                + [(int(k), 6) for k in re.findall(r"\d+", r.group(1))]), None
    import concurrent.futures
    bad = []
    with concurrent.futures.ThreadPoolExecutor(max_workers=16) as ex:
        for res, err in ex.map(ev, s["shards"]):
            if err:
                ctx.violation("correspondence", "CodecCheck.v could not be evaluated on the recorded buffers: " + err, found_input=False)
            else:
                bad += res
    ctx.checker_cmds.append(f".cache/harness codec --seed {ctx.seed} --n {n}; coqc <shards>   # Buffer.v put/range vs commit.Buffer bytes")
    cov = ctx.coverage
    cov["evaluations"] += s["cases"]
    cov["distinct_nontrivial"] += s["cases"]
    cov.setdefault("engines", []).append({"engine": "codec", "cases": s["cases"], "ops": s["ops"], "op_kinds": s["op_kinds"],
                                          "value_widths": s["value_widths"], "delta_classes": s["delta_classes"], "longest_sequence": s["longest_sequence"],
                                          "wire_round_trips": s["wire_round_trips"], "typed_reads": s.get("typed_reads", 0), "rewrite_checks": s["rewrite_checks"], "k2_instances": s["k2_instances"],
                                          "model_disagreements": len(bad), "wall_s": round(time.time() - t0, 1)})
    cov["samples"] += [{"engine": "codec", "case": x[:1500]} for x in (s.get("samples") or [])[:1]]
    what = {1: "buffer bytes", 2: "chunk headers", 3: "last offset", 4: "decoded block", 5: "model-internal range/filter",
            6: "Reader.Int()/Reader.Uint() of a numeric entry (ReadInt.v)"}
    for case, tag in bad[:5]:
        ctx.violation("codec", f"commit.Buffer and the model differ in {what.get(tag, tag)} on generated case {case} (seed {ctx.seed})",
                      data={"engine": "codec", "seed": ctx.seed, "case": case, "tag": tag})
    for f in (s.get("failures") or [])[:5]:
        ctx.violation("wire", "round trip / rewrite: " + f, data={"engine": "codec", "seed": ctx.seed, "failure": f})
    kf = known_findings(ctx.pid)
    if s["k2_instances"] and "K2" in kf:
        ctx.known.append("K2 " + kf["K2"] + f" ({s['k2_instances']} instances in this run)")
    elif s["k2_instances"]:
        ctx.violation("rewrite", f"{s['k2_instances']} offsets read a reordered sequence after a length-changing merge rewrite", data={"engine": "codec", "seed": ctx.seed})


def run_sched_engine(ctx, spec):
    """controlled scheduler: scenarios with property monitors; recorded latch traces validated against Conc.v"""
    n = spec["quick"] if ctx.tier == "quick" else spec["thorough"]
    dfs = spec.get("dfs_quick", 0) if ctx.tier == "quick" else spec.get("dfs_thorough", 0)
    out = os.path.join(CACHE, "run", f"{ctx.pid}_sched")
    if os.path.exists(out):
        shutil.rmtree(out)
    cmd = [os.path.join(CACHE, "harness"), "sched", "--seed", str(ctx.seed), "--n", str(n), "--dfs", str(dfs),
           "--scenarios", spec["scenarios"], "--out", out]
    if "snap" in spec["scenarios"].split(","):
        # every coarse-grained schedule (pre-emption between whole block commits / block reads) of the
        # directed snapshot configurations: the three two-writer ones exhaustively (168 each) in the
        # quick tier, all five (2772 schedules) and the finer variant in the thorough tier
        cmd += (["--cdfs", "400", "--cdfs-fine-samples", "150"] if ctx.tier == "quick" else ["--cdfs", "6000", "--cdfs-fine", "4000"])
    if ctx.replay:
        r = json.load(open(ctx.replay))
        d = r.get("data") or {}
        if d.get("engine") != "sched":
            return
        cmd = [os.path.join(CACHE, "harness"), "sched", "--out", out, "--replay",
               f"{d['scenario']}:{d['cfg_seed']}:{','.join(map(str, d['choices']))}"]
    vlib.sh(cmd, timeout=3000)
    s = json.load(open(os.path.join(out, "summary.json")))
    ctx.checker_cmds.append(f".cache/harness sched --seed {ctx.seed} --n {n} --dfs {dfs} --scenarios {spec['scenarios']}; coqc <lock traces>")
    cov = ctx.coverage
    cov["evaluations"] += s["runs"]
    cov["distinct_nontrivial"] += s["distinct_traces"]
    cov["traces_validated_against_impl"] = cov.get("traces_validated_against_impl", 0) + s.get("lock_traces", 0)
    cov.setdefault("engines", []).append({k: s[k] for k in ("engine", "runs", "distinct_traces", "steps", "blocked_steps", "exhaustive_configs",
                                                             "runs_by_scenario", "lock_traces", "wall_s")})
    cov["samples"] += [{"engine": "sched", "schedule": x[:1500]} for x in (s.get("samples") or [])[:1]]
    for v in (s.get("violations") or []):
        data = {"engine": "sched", "scenario": v["scenario"], "cfg_seed": v["cfg_seed"], "choices": v["choices"], "desc": v["desc"], "trace": v["trace"]}
        if v["property"] == ctx.pid:
            ctx.violation("schedule", f"{v['what']}  ({v['desc'][:200]})", data=data)
        else:
            ctx.other.append({"concerns": [v["property"]], "what": v["what"][:200], "scenario": v["scenario"], "cfg_seed": v["cfg_seed"]})
    # known finding classes observed under schedules
    kf = known_findings(ctx.pid)
    for cls, inst in (s.get("known") or {}).items():
        if cls in kf:
            ctx.known.append(f"{cls} {kf[cls]} [{inst[:160]}]")
    # the finished runs of the rows scenario against the executable LTS of ConcStore.v (ConcCheck.v): the
    # writers' transactions, the recorded latch order, the values / liveness / Count at the end
    if s.get("conc_files"):
        corigin = json.load(open(os.path.join(out, "conc_origin.json")))
        what = {1: "the LTS of ConcStore.v does not accept the recorded latch order (a thread latched a block out of its ascending order, or twice)",
                2: "the block commits were applied in another order than the recorded latch order",
                3: "a committed transaction did not apply every block it wrote",
                4: "a row is live / dead although the committed row markers say otherwise",
                5: "a cell is not the fold of the committed operations in the order the commits were applied to its block",
                6: "Count differs from the number of rows the committed markers leave"}
        concerns = {1: ["C15", "C09", "C18"], 2: ["C15", "C09"], 3: ["C15", "C09", "C02"], 4: ["C02", "C11"], 5: ["C09", "C01", "C02", "C10"], 6: ["C11", "C02"]}
        cbad = []
        for cf in s["conc_files"]:
            p = subprocess.run(["timeout", "1200", "coqc", "-Q", COQ, "ColumnV", cf], cwd=out, stdout=subprocess.PIPE, stderr=subprocess.STDOUT, text=True, preexec_fn=vlib.big_stack)
            m = re.search(r"M\s*=\s*(.*?)\n\s*:\s*list", p.stdout, re.S)
            if p.returncode != 0 or not m:
                ctx.violation("correspondence", "ConcCheck.v could not be evaluated on the recorded runs: " + p.stdout[-1500:], found_input=False)
                continue
            cbad += [(int(a), int(b)) for a, b in re.findall(r"\((\d+),\s*(\d+)\)", m.group(1))]
        cov["concstore_runs_replayed"] = cov.get("concstore_runs_replayed", 0) + s.get("conc_runs", 0)
        ctx.checker_cmds.append("coqc conc_*.v   # ConcCheck.conc_mismatches: ConcStore.run on the recorded rows-scenario runs")
        shown = set()
        for k, code in cbad:
            if (k, code) in shown or len(shown) >= 6:
                continue
            shown.add((k, code))
            org = corigin[k] if k < len(corigin) else "?"
            if ctx.pid in concerns.get(code, []):
                sc, cs, choices = org.split(":", 2)
                ctx.violation("concstore", f"{what.get(code, code)} (run {k}: scenario {sc} cfg {cs})",
                              data={"engine": "sched", "scenario": sc, "cfg_seed": int(cs), "choices": json.loads(choices.replace(" ", ",")), "concstore_code": code})
            else:
                ctx.other.append({"concerns": concerns.get(code, []), "what": what.get(code, str(code)), "origin": org[:120]})
    # the recorded latch traces against the protocol model
    if spec.get("locks", True) and s.get("trace_files"):
        origin = json.load(open(os.path.join(out, "lock_origin.json")))
        for tf in s["trace_files"]:
            p = subprocess.run(["timeout", "1200", "coqc", "-Q", COQ, "ColumnV", tf], cwd=out, stdout=subprocess.PIPE, stderr=subprocess.STDOUT, text=True, preexec_fn=vlib.big_stack)
            m = re.search(r"M\s*=\s*(.*?)\n\s*:\s*list", p.stdout, re.S)
            if p.returncode != 0 or not m:
                ctx.violation("correspondence", "Conc.v lock_check_all could not be evaluated on the recorded schedules: " + p.stdout[-1500:], found_input=False)
                continue
            bad = [(int(a), int(b)) for a, b in re.findall(r"\((\d+)%N,\s*(\d+)%N\)", m.group(1))]
            seen = set()
            for k, i in bad:
                if k in seen:
                    continue
                seen.add(k)
                org = origin[k] if k < len(origin) else "?"
                if ctx.pid in ("C10", "C18", "C09", "C02"):
                    sc, cs, ch, choices = org.split(":", 3)
                    # the scheduler learns "blocked" from a grace period: on a loaded machine a slow thread can
                    # be taken for a blocked one and the recorded trace is then not what happened.  A schedule
                    # is a list of choices at yield points, so a real protocol violation replays; one that does
                    # not reproduce in two replays of its own schedule is timing and is noted, not reported.
                    if len(seen) > 8:
                        break
                    if not ctx.replay and not _latch_reproduces(sc, int(cs), json.loads(choices.replace(" ", ",")), out):
                        ctx.notes.append(f"a latch-protocol mismatch ({sc} cfg {cs}) did not reproduce in two replays of its schedule: blocked-thread detection by timing, not reported")
                        continue
                    ctx.violation("latch", f"a thread got past a latch acquisition the protocol forbids (event {i} of the {ch} trace of {sc} cfg {cs})",
                                  data={"engine": "sched", "scenario": sc, "cfg_seed": int(cs), "choices": json.loads(choices.replace(" ", ","))})
                else:
                    ctx.other.append({"concerns": ["C10", "C18"], "what": "latch protocol mismatch", "origin": org[:120]})


def _latch_reproduces(scenario, cfg_seed, choices, out):
    for attempt in range(2):
        o2 = os.path.join(out, f"confirm_{cfg_seed}_{attempt}")
        if os.path.exists(o2):
            shutil.rmtree(o2)
        try:
            vlib.sh([os.path.join(CACHE, "harness"), "sched", "--out", o2, "--replay", f"{scenario}:{cfg_seed}:{','.join(map(str, choices))}"], timeout=600)
            s2 = json.load(open(os.path.join(o2, "summary.json")))
        except Exception:
            return True      # cannot tell: keep the report
        if s2.get("violations"):
            return True
        for tf in s2.get("trace_files") or []:
            p = subprocess.run(["timeout", "600", "coqc", "-Q", COQ, "ColumnV", tf], cwd=o2, stdout=subprocess.PIPE, stderr=subprocess.STDOUT, text=True, preexec_fn=vlib.big_stack)
            m = re.search(r"M\s*=\s*(.*?)\n\s*:\s*list", p.stdout, re.S)
            if p.returncode != 0 or not m or re.search(r"\(\d+%N,\s*\d+%N\)", m.group(1)):
                return True
    return False


def run_persist_engine(ctx, spec):
    """trunc (C13) and fault (C14): fault enumeration on the real snapshot / log code"""
    kind = spec["kind"]
    n = spec["quick"] if ctx.tier == "quick" else spec["thorough"]
    out = os.path.join(CACHE, "run", f"{ctx.pid}_{kind}")
    if os.path.exists(out):
        shutil.rmtree(out)
    cmd = [os.path.join(CACHE, "harness"), kind, "--seed", str(ctx.seed), "--n", str(n), "--out", out]
    if ctx.tier == "thorough":
        cmd.append("--every-byte" if kind == "trunc" else "--every")
    t0 = time.time()
    vlib.sh(cmd, timeout=6000)
    s = json.load(open(os.path.join(out, "summary.json")))
    ctx.checker_cmds.append(" ".join(cmd[:1] + cmd[1:]).replace(CACHE, ".cache"))
    cov = ctx.coverage
    total = s["cuts"] + s.get("log_cuts", 0)
    cov["evaluations"] += total
    cov["distinct_nontrivial"] += total
    cov["exhaustive"] = bool(s.get("exhaustive"))
    cov.setdefault("engines", []).append({k: s[k] for k in s if k not in ("failures", "samples")} | {"wall_s": round(time.time() - t0, 1)})
    cov["samples"] += [{"engine": kind, "case": x} for x in (s.get("samples") or [])[:2]]
    # a failure tagged "[Cxx] ..." concerns that property only (e.g. what the change stream carries
    # after a failed restore); untagged ones concern the engine's own property (C13 trunc, C14 fault)
    own = {"trunc": "C13", "fault": "C14"}[kind]
    shown = 0
    for f in (s.get("failures") or []):
        m = re.match(r"\[(C\d\d(?:,C\d\d)*)\] ", f)
        concerns = m.group(1).split(",") if m else [own]
        if ctx.pid not in concerns:
            ctx.other.append({"concerns": concerns, "what": f[:200]})
            continue
        if shown < 6:
            ctx.violation(kind, f, data={"engine": kind, "seed": ctx.seed, "failure": f})
            shown += 1
    if ctx.pid != own:
        return
    sc = os.path.join(out, "snap_cases.v")
    if os.path.exists(sc):
        p = subprocess.run(["timeout", "600", "coqc", "-Q", COQ, "ColumnV", sc], cwd=out, stdout=subprocess.PIPE, stderr=subprocess.STDOUT, text=True, preexec_fn=vlib.big_stack)
        m = re.search(r"M\s*=\s*\[(.*?)\]\s*:\s*list", p.stdout, re.S)
        if p.returncode != 0 or not m:
            ctx.violation("correspondence", "Snap.v could not be evaluated on the recorded fault plans: " + p.stdout[-1200:], found_input=False)
        elif m.group(1).strip():
            ctx.violation("correspondence", "Snapshot's outcome differs from the state machine of Snap.v on fault plans " + m.group(1)[:200],
                          data={"engine": kind, "seed": ctx.seed, "plans": m.group(1)[:200]})
        ctx.checker_cmds.append("coqc snap_cases.v   # Snap.v snapshot state machine vs observed (failed, error, recorder)")


def run_ttl_engine(ctx, spec):
    n = spec["quick"] if ctx.tier == "quick" else spec["thorough"]
    out = os.path.join(CACHE, "run", f"{ctx.pid}_ttl")
    vlib.sh([os.path.join(CACHE, "harness"), "ttl", "--seed", str(ctx.seed % 1000), "--n", str(n), "--out", out], timeout=1200)
    s = json.load(open(os.path.join(out, "summary.json")))
    ctx.checker_cmds.append(f".cache/harness ttl --n {n}   # real clock, bracketed")
    cov = ctx.coverage
    cov["evaluations"] += s["observations"]
    cov["distinct_nontrivial"] += s["judged_observations"]
    cov.setdefault("engines", []).append({k: s[k] for k in s if k not in ("failures", "samples")})
    cov["samples"] += [{"engine": "ttl", "run": x} for x in (s.get("samples") or [])[:2]]
    for f in (s.get("failures") or [])[:5]:
        ctx.violation("ttl", f, data={"engine": "ttl", "seed": ctx.seed % 1000, "failure": f})


def run_bitmap_engine(ctx, spec):
    """C04 word level: real kelindar/bitmap And/AndNot/Or on selection windows vs coq/Bitmap.v"""
    n = spec["quick"] if ctx.tier == "quick" else spec["thorough"]
    out = os.path.join(CACHE, "run", f"{ctx.pid}_bitmap")
    if os.path.exists(out):
        shutil.rmtree(out)
    vlib.sh([os.path.join(CACHE, "harness"), "bitmap", "--seed", str(ctx.seed), "--n", str(n), "--out", out], timeout=1200)
    s = json.load(open(os.path.join(out, "summary.json")))
    bad = []
    for sh_ in s["shards"]:
        p = subprocess.run(["timeout", "1200", "coqc", "-Q", COQ, "ColumnV", sh_], cwd=out, stdout=subprocess.PIPE, stderr=subprocess.STDOUT, text=True, preexec_fn=vlib.big_stack)
        m = re.search(r"M\s*=\s*\[(.*?)\]\s*:\s*list", p.stdout, re.S)
        if p.returncode != 0 or not m:
            ctx.violation("correspondence", "Bitmap.v could not be evaluated on the recorded windows: " + p.stdout[-1200:], found_input=False)
            continue
        bad += [(sh_, int(x)) for x in re.findall(r"(\d+)%nat", m.group(1))]
    ctx.checker_cmds.append(f".cache/harness bitmap --seed {ctx.seed} --n {n}; coqc <shards>   # Bitmap.v vs kelindar/bitmap on selection windows")
    cov = ctx.coverage
    cov["evaluations"] += s["cases"]
    cov["distinct_nontrivial"] += s["cases"]
    cov.setdefault("engines", []).append({"engine": "bitmap", "cases": s["cases"], "ops": s["ops"], "shapes": s["shapes"], "model_disagreements": len(bad)})
    cov["samples"] += [{"engine": "bitmap", "case(op,window,source,result)": x[:400]} for x in (s.get("samples") or [])[:1]]
    for sh_, k in bad[:3]:
        ctx.violation("bitmap", f"And/AndNot/Or on a selection window differs from the word-level model (case {k} of {os.path.basename(sh_)}, seed {ctx.seed})",
                      data={"engine": "bitmap", "seed": ctx.seed, "shard": sh_, "case": k})
    for o in (s.get("writes_outside_window") or [])[:3]:
        ctx.violation("bitmap", o, data={"engine": "bitmap", "seed": ctx.seed})


def run_wire_engine(ctx, spec):
    """Commit.WriteTo bytes vs WireCommit.v commit_enc; Commit.ReadFrom on prefixes vs commit_dec"""
    n = spec["quick"] if ctx.tier == "quick" else spec["thorough"]
    out = os.path.join(CACHE, "run", f"{ctx.pid}_wire")
    if os.path.exists(out):
        shutil.rmtree(out)
    nstates = spec.get("states_quick", 0) if ctx.tier == "quick" else spec.get("states_thorough", 0)
    vlib.sh([os.path.join(CACHE, "harness"), "wire", "--seed", str(ctx.seed), "--n", str(n), "--states", str(nstates), "--out", out], timeout=1200)
    s = json.load(open(os.path.join(out, "summary.json")))
    bad = []

    def one(sh_):
        return sh_, subprocess.run(["timeout", "1200", "coqc", "-Q", COQ, "ColumnV", sh_], cwd=out, stdout=subprocess.PIPE, stderr=subprocess.STDOUT, text=True, preexec_fn=vlib.big_stack)
    import concurrent.futures
    with concurrent.futures.ThreadPoolExecutor(max_workers=12) as ex:
        results = list(ex.map(one, s["shards"]))
    for sh_, p in results:
        m = re.search(r"M\s*=\s*(.*?)\n\s*:\s*list", p.stdout, re.S)
        if p.returncode != 0 or not m:
            ctx.violation("correspondence", f"WireCommit.v / WireState.v could not be evaluated on the recorded cases ({os.path.basename(sh_)}): " + p.stdout[-1200:], found_input=False)
            continue
        bad += [(int(a), int(b)) for a, b in re.findall(r"\((\d+),\s*(\d+)\)", m.group(1))]
    ctx.checker_cmds.append(f".cache/harness wire --seed {ctx.seed} --n {n}; coqc <shards>   # commit_enc vs Commit.WriteTo, commit_dec vs ReadFrom on prefixes")
    cov = ctx.coverage
    cov["evaluations"] += s["cases"] + s["cuts"] + s.get("states", 0)
    cov["distinct_nontrivial"] += s["cases"] + s.get("states", 0)
    cov.setdefault("engines", []).append({"engine": "wire", "commits": s["cases"], "buffers": s.get("buffers", 0), "prefix_verdicts": s["cuts"], "bytes": s["bytes"],
                                          "snapshots_vs_WireState": s.get("states", 0), "snapshot_stream_bytes": s.get("state_bytes", 0), "model_disagreements": len(bad)})
    for f in (s.get("failures") or [])[:3]:
        ctx.violation("wire", f, data={"engine": "wire", "seed": ctx.seed, "failure": f})
    swhat = {1: "the state stream writeState produced differs from WireState.state_enc of what the real readers parse from it", 2: "WireState.state_dec reads the real state stream differently from the real readers",
             3: "a strict prefix of a real state stream is not reported Short by state_dec", 4: "a block of the state stream does not carry the announced number of buffers",
             5: "the recorded commits' bytes differ from log_bytes commit_enc", 6: "restore_bytes does not restore the complete (s2-decoded) snapshot to the parsed state and commits",
             7: "restore_bytes on a prefix of a real (s2-decoded) snapshot yields something other than the state plus a prefix of the commits"}
    cov["samples"] += [{"engine": "wire", "case(commit,bytes,cuts)": x[:500]} for x in (s.get("samples") or [])[:1]]
    what = {1: "Commit.WriteTo's bytes differ from commit_enc", 2: "commit_dec does not decode the bytes back to the commit", 3: "Commit.ReadFrom accepts/rejects a prefix differently from commit_dec"}
    for case, tag in bad[:4]:
        w = what.get(tag, str(tag))
        if case >= 300000:
            w = {1: "a real snapshot file is not the framing (type, 3-byte length, body) S2Frame.stream_enc gives for its chunks",
                 2: "S2Frame.unframe delivers something else than the real s2 reader for a complete snapshot file",
                 3: "for a prefix of a real snapshot file the real s2 reader delivers other bytes / another verdict than S2Frame.unframe"}.get(tag, str(tag))
        elif case >= 200000:
            w = swhat.get(tag, str(tag))
        elif case >= 100000:
            w = w.replace("Commit.WriteTo", "Buffer.WriteTo").replace("commit_enc", "wbuffer_enc").replace("commit_dec", "wbuffer_dec")
        ctx.violation("wire", f"{w} (generated case {case}, seed {ctx.seed})", data={"engine": "wire", "seed": ctx.seed, "case": case, "tag": tag})


ENGINES = {"wire": run_wire_engine, "bitmap": run_bitmap_engine, "ttl": run_ttl_engine, "hist": run_hist_engine, "race": run_race_engine, "persist": run_persist_engine, "alloc": run_alloc_engine, "codec": run_codec_engine, "sched": run_sched_engine}
S = lambda scen, q, t, **kw: dict(engine="sched", scenarios=scen, quick=q, thorough=t, **kw)

H = lambda profile, q, t, **kw: dict(engine="hist", profile=profile, quick=q, thorough=t, **kw)

PROPS = {
    "C01": dict(engines=[H("values", 60, 900), H("mix", 30, 400)],
                rule="random histories over all column kinds executed on the implementation and replayed through Store.v; non-trivial = >=3 committed transactions with offset reuse, a multi-block transaction or a merge; distinct by SHA-1 of the history"),
    "C02": dict(engines=[H("atomic", 70, 900), S("rows", 200, 3000, dfs_thorough=4000)],
                rule="histories with 50% rolled back transactions mixing successful and failing inserts; non-trivial = at least one abort, one commit and an insert; plus controlled schedules of committing and aborting writers whose commits carry row markers (a delete of a seeded row, a kept insert) beside a writer that grows the collection by a block"),
    "C03": dict(engines=[H("index", 70, 900)],
                rule="histories with indexes created/dropped mid-history, replicas and restores; non-trivial = >=3 commits with deletes or merges"),
    "C04": dict(engines=[H("filter", 120, 1200), dict(engine="bitmap", quick=400, thorough=6000)],
                rule="histories with filter chains and terminals; non-trivial = a chain operator and a terminal in the history"),
    "C05": dict(engines=[dict(engine="codec", quick=300, thorough=6000), dict(engine="wire", quick=80, thorough=800), H("mix", 30, 300)],
                rule="random op sequences over {delete, insert, put, merge} x {0,2,4,8-byte, bytes} x offset moves, written to the real buffer; every case is distinct by construction (independent PRNG streams) and non-trivial (>=1 op); the model must produce the same bytes"),
    "C06": dict(engines=[H("replica", 60, 800), S("rows,keys", 150, 3000, dfs_thorough=6000)],
                rule="sequential: histories replayed on a second collection (channel clones or a serialized log file), replica dump compared; schedules: 2-3 writers over 1-2 blocks (random + exhaustive DFS in the thorough tier), replica fed in logger order; distinct = distinct schedule traces"),
    "C08": dict(engines=[S("snap", 450, 6000, dfs_quick=150, dfs_thorough=8000), H("restore", 30, 300),
                         dict(engine="persist", kind="trunc", quick=6, thorough=24)],
                rule="a snapshot thread beside 2-3 committing writers (merges and overwrites, one or two blocks) at every yield point of the commit and snapshot protocols; the restored rows must be a prefix per block of the latch order containing every commit acknowledged before the snapshot began"),
    "C09": dict(engines=[S("rows", 250, 4000, dfs_quick=300, dfs_thorough=8000), H("values", 30, 300)],
                rule="2-3 writers merging (additive and order-sensitive v*3+d) into overlapping rows of 1-2 blocks with readers; final value = fold of the committed deltas in latch order"),
    "C10": dict(engines=[S("rows", 250, 4000, dfs_quick=300, dfs_thorough=8000), H("values", 30, 300),
                         dict(engine="race", quick=3, thorough=20, only="pairs", norace=True)],
                rule="writers preserving a+b=100 on every row beside point and range readers reading a, yielding, reading b; every recorded schedule is also replayed through the latch protocol model; plus sequential histories of every column kind (every value a reader is handed is one some transaction committed)"),
    "C07": dict(engines=[H("restore", 60, 800), H("dense", 3, 24, per_shard=1), dict(engine="wire", quick=8, thorough=80, states_quick=12, states_thorough=120)],
                rule="histories with snapshot->restore->continue cycles; non-trivial = a restore after >=2 commits"),
    "C11": dict(engines=[H("alloc", 60, 800), dict(engine="alloc", quick=300, thorough=6000), S("ins,rows", 220, 4000, dfs_thorough=4000, locks=False)],
                rule="insert/delete heavy histories; non-trivial = >=3 inserts with a delete or offset reuse"),
    "C12": dict(engines=[H("keys", 70, 900), H("keysatomic", 40, 500)],
                rule="keyed histories over a 6-key alphabet; non-trivial = >=3 key operations"),
    "C13": dict(engines=[dict(engine="persist", kind="trunc", quick=8, thorough=40), dict(engine="wire", quick=120, thorough=1500, states_quick=16, states_thorough=160)],
                level_text="theorems about the prefix-safe parsers and the restore prefix property for every prefix of a snapshot file (no bound): commit frame and serialized buffer (WireCommit.v), state stream as writeState lays it out (WireState.v), s2 framing around both (S2Frame.v; the block compressor is an arbitrary function of each chunk) - all three diffed byte for byte against the real writers / readers - + fault enumeration on the implementation: every sampled prefix (every byte in the thorough tier) of real snapshot and log files is restored",
                rule="snapshot files (random history, 0-3 transactions committed during the snapshot) and commit-log files cut at: the first 24 bytes, the state/log boundary +-6, the last 200 bytes, 120 random offsets (every offset in the thorough tier); every cut is a distinct case"),
    "C14": dict(engines=[dict(engine="persist", kind="fault", quick=3, thorough=9), S("snap", 300, 3000, locks=False)],
                rule="destination writers failing at a chosen call index or byte budget, once or forever, on empty / single-block / multi-block collections, with a transaction committing during the snapshot; every plan is a distinct case"),
    "C15": dict(engines=[H("mix", 60, 800), H("atomic", 30, 300), S("rows,snap", 150, 3000, dfs_thorough=4000),
                         dict(engine="persist", kind="trunc", quick=3, thorough=6)],
                rule="histories with a recording logger: emitted commits (decoded per block) compared with the model's stream, ids checked to be distinct, non-zero and increasing per block; non-trivial = >=2 emitted commits with an abort or a multi-block transaction"),
    "C16": dict(engines=[H("sorted", 120, 1500)],
                rule="histories with a sorted index; non-trivial = an Ascend in the history"),
    "C17": dict(engines=[dict(engine="ttl", quick=3, thorough=10)],
                rule="real vacuum goroutine at intervals 1-120 ms; rows without TTL, long, short, extended and reset TTLs, a long deadline inserted before the short ones; every judged observation (outside the margins) is a distinct case"),
    "C18": dict(engines=[dict(engine="race", quick=2, thorough=15), S("rows,snap,ins,ddl", 80, 1500, dfs_thorough=3000),
                         H("sorted", 40, 400), H("mix", 40, 400)], race=True,
                rule="free-running workloads (updates+reads over two blocks, inserts/deletes with offset reuse, snapshots beside multi-block writers with restores, growth beside readers, index builds beside writers) on 16 cores under the race detector, reports deduplicated by function pair; plus controlled schedules with a watchdog (a thread that never finishes = deadlock)"),
    "C19": dict(engines=[H("mix", 60, 800), S("ddl", 200, 3000, dfs_thorough=4000, locks=False)],
                rule="histories with triggers created/dropped mid-history; non-trivial = >=2 trigger events; plus controlled schedules of writers beside a thread dropping/creating triggers and dropping an index"),
}
