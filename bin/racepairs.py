"""Parses Go race detector reports into unordered pairs of kelindar/column functions."""
import re, sys, glob

FRAME = re.compile(r"^\s+github\.com/kelindar/column(\S*)\(\)\s*$")

def pairs(paths):
    out = {}
    for p in paths:
        txt = open(p, errors="replace").read()
        for rep in txt.split("WARNING: DATA RACE")[1:]:
            rep = rep.split("==================")[0]
            # the two access stacks: first block and the "Previous ..." block
            blocks = re.split(r"\n\n", rep.strip())
            tops = []
            for b in blocks[:2]:
                top = None
                for line in b.splitlines():
                    m = FRAME.match(line)
                    if m:
                        top = re.sub(r"\[[^\]]*\]", "", m.group(1)).lstrip("./")
                        top = re.sub(r"\.func\d+(\.\d+)*$", "", top)
                        break
                tops.append(top or "?")
            if len(tops) == 2:
                key = " <-> ".join(sorted(tops))
                out.setdefault(key, rep.strip()[:2500])
    return out

if __name__ == "__main__":
    for k in sorted(pairs(sys.argv[1:])):
        print(k)
