package main

// splitmix64: every random choice of the harness derives from one seed, so that a case is
// reproducible from (seed, case index) alone.
type Rng struct{ s uint64 }

func NewRng(seed uint64) *Rng { return &Rng{s: seed*0x9E3779B97F4A7C15 + 0x1234567} }

func (r *Rng) U64() uint64 {
	r.s += 0x9E3779B97F4A7C15
	z := r.s
	z = (z ^ (z >> 30)) * 0xBF58476D1CE4E5B9
	z = (z ^ (z >> 27)) * 0x94D049BB133111EB
	return z ^ (z >> 31)
}
func (r *Rng) Intn(n int) int {
	if n <= 0 {
		return 0
	}
	return int(r.U64() % uint64(n))
}
func (r *Rng) Bool() bool       { return r.U64()&1 == 1 }
func (r *Rng) Chance(p int) bool { return r.Intn(100) < p } // p percent
func (r *Rng) Fork(k uint64) *Rng {
	return NewRng(r.s ^ (k+1)*0xD6E8FEB86659FD93)
}
