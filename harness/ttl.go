package main

// ttl engine (C17): the real vacuum goroutine and the real clock.  The model's decision (Expire.v)
// is bracketed: a row with deadline d must be present at every observation made before
// d - margin and absent at every observation made after d + 3*interval + margin; rows without TTL,
// with a long TTL or with an extended TTL must be present throughout.  Observations inside the
// margins are recorded, never judged.

import (
	"bytes"
	"encoding/json"
	"flag"
	"fmt"
	"os"
	"path/filepath"
	"time"

	"github.com/kelindar/column"
	"github.com/kelindar/column/commit"
)

type ttlSummary struct {
	Engine       string   `json:"engine"`
	Runs         int      `json:"runs"`
	Observations int      `json:"observations"`
	Judged       int      `json:"judged_observations"`
	InMargin     int      `json:"observations_inside_margins"`
	Failures     []string `json:"failures"`
	Intervals    []string `json:"intervals"`
	Samples      []string `json:"samples"`
}

type ttlRow struct {
	exact    bool // deadline is the exact value ExpiresAt must report (Set / Extend arithmetic)
	want     time.Time // ExpiresAt as read from the primary right after the row was set up
	wantOK   bool
	name     string
	off      uint32
	deadline time.Time // zero = must never expire during the run
	expires  bool
}

func cmdTTL(args []string) {
	fs := flag.NewFlagSet("ttl", flag.ExitOnError)
	seed := fs.Uint64("seed", 1, "seed")
	n := fs.Int("n", 3, "runs (one vacuum interval each)")
	out := fs.String("out", "", "output directory")
	fs.Parse(args)
	os.MkdirAll(*out, 0o755)
	rng := NewRng(*seed)
	s := ttlSummary{Engine: "ttl"}
	intervals := []time.Duration{time.Millisecond, 5 * time.Millisecond, 20 * time.Millisecond, 50 * time.Millisecond, 120 * time.Millisecond}
	margin := 250 * time.Millisecond // scheduling noise on a loaded machine must never turn into a verdict
	for run := 0; run < *n; run++ {
		iv := intervals[(run+int(*seed))%len(intervals)]
		s.Intervals = append(s.Intervals, iv.String())
		lg := make(commit.Channel, 4096)
		c := column.NewCollection(column.Options{Vacuum: iv, Writer: lg, Capacity: 64})
		c.CreateColumn("v", column.ForInt64())
		var rows []*ttlRow
		ins := func(name string, ttl time.Duration, expires bool) *ttlRow {
			r := &ttlRow{name: name, expires: expires}
			r.off, _ = c.Insert(func(row column.Row) error {
				row.SetInt64("v", 1)
				if ttl > 0 {
					r.deadline = row.SetTTL(ttl)
				}
				return nil
			})
			rows = append(rows, r)
			return r
		}
		// a long deadline first: the cleanup must not postpone later, shorter deadlines behind it
		ins("long-1h", time.Hour, false)
		ins("none", 0, false)
		time.Sleep(3*iv + 5*time.Millisecond)
		short1 := ins("short-a", time.Duration(80+rng.Intn(60))*time.Millisecond, true)
		ext := ins("short-then-extended", 90*time.Millisecond, false)
		c.QueryAt(ext.off, func(r column.Row) error { // Extend is a merge on the deadline
			return nil
		})
		c.Query(func(txn *column.Txn) error {
			return txn.QueryAt(ext.off, func(r column.Row) error { txn.TTL().Extend(time.Hour); return nil })
		})
		ext.deadline, ext.exact = ext.deadline.Add(time.Hour), true
		// Extend adds to whatever deadline the row has at that point of the transaction: twice in one
		// transaction adds twice; after a Set in the same transaction it adds to the new deadline
		twice := ins("extended-twice-in-one-txn", time.Hour, false)
		c.Query(func(txn *column.Txn) error {
			return txn.QueryAt(twice.off, func(r column.Row) error {
				txn.TTL().Extend(time.Hour)
				txn.TTL().Extend(time.Hour)
				return nil
			})
		})
		twice.deadline, twice.exact = twice.deadline.Add(2*time.Hour), true
		setext := ins("set-then-extended-in-one-txn", time.Hour, false)
		c.Query(func(txn *column.Txn) error {
			return txn.QueryAt(setext.off, func(r column.Row) error {
				setext.deadline = r.SetTTL(3 * time.Hour)
				txn.TTL().Extend(time.Hour)
				return nil
			})
		})
		setext.deadline, setext.exact = setext.deadline.Add(time.Hour), true
		// the same on a row that has NO committed deadline yet: the Extend still adds to the deadline
		// the transaction itself has just set
		fresh := ins("no-ttl-then-set-and-extended-in-one-txn", 0, false)
		c.Query(func(txn *column.Txn) error {
			return txn.QueryAt(fresh.off, func(r column.Row) error {
				fresh.deadline = r.SetTTL(3 * time.Hour)
				txn.TTL().Extend(time.Hour)
				return nil
			})
		})
		fresh.deadline, fresh.exact = fresh.deadline.Add(time.Hour), true
		// a transaction that deletes a row with a deadline and inserts another row, then a row without
		// a TTL that takes the freed offset over: it must not inherit the old deadline - on the
		// primary, on the restored collection and on the replica (where the commit is replayed)
		victim := ins("deleted-with-ttl", time.Hour, false)
		rows = rows[:len(rows)-1]
		c.Query(func(txn *column.Txn) error {
			txn.DeleteAt(victim.off)
			_, err := txn.Insert(func(row column.Row) error {
				row.SetInt64("v", 2)
				row.SetTTL(2 * time.Hour)
				return nil
			})
			return err
		})
		heir := ins("no-ttl-on-a-reused-offset", 0, false)
		if heir.off != victim.off {
			heir.name = fmt.Sprintf("no-ttl (offset %d, the deleted row was %d)", heir.off, victim.off)
		}
		reset := ins("ttl-reset-to-none", 70*time.Millisecond, false)
		c.QueryAt(reset.off, func(r column.Row) error { r.SetTTL(0); return nil })
		short2 := ins("short-b", time.Duration(150+rng.Intn(100))*time.Millisecond, true)
		_ = short1
		_ = short2
		// the deadlines as the primary holds them now (the shortest TTL is tens of milliseconds away)
		for _, r := range rows {
			r.want, r.wantOK = expiresAt(c, r.off)
			if (r.expires || r.exact) && (!r.wantOK || !r.want.Equal(r.deadline)) {
				s.Failures = append(s.Failures, fmt.Sprintf("run %d (%v): row %s: SetTTL / Extend promise the deadline %v but ExpiresAt reads %v(%v)", run, iv, r.name, r.deadline, r.want, r.wantOK))
			}
		}
		// the deadline survives snapshot/restore and replication
		var snap bytes.Buffer
		c.Snapshot(&snap)
		restored := column.NewCollection(column.Options{Vacuum: time.Hour, Capacity: 64})
		restored.CreateColumn("v", column.ForInt64())
		restored.Restore(&snap)
		replica := column.NewCollection(column.Options{Vacuum: time.Hour, Capacity: 64})
		replica.CreateColumn("v", column.ForInt64())
	drain:
		for {
			select {
			case cm := <-lg:
				replica.Replay(cm)
			default:
				break drain
			}
		}
		for _, r := range rows {
			want, wok := r.want, r.wantOK
			for nm, other := range map[string]*column.Collection{"restored": restored, "replica": replica} {
				got, gok := expiresAt(other, r.off)
				if wok != gok || !want.Equal(got) {
					s.Failures = append(s.Failures, fmt.Sprintf("run %d (%v): row %s deadline %v(%v) on the primary, %v(%v) on the %s collection", run, iv, r.name, want, wok, got, gok, nm))
				}
			}
		}
		restored.Close()
		replica.Close()
		// observe, with unrelated updates of the same rows going on
		end := time.Now().Add(900*time.Millisecond + 6*iv)
		obs := 0
		for time.Now().Before(end) {
			now := time.Now()
			present := map[uint32]bool{}
			c.Query(func(txn *column.Txn) error {
				return txn.Range(func(i uint32) { present[i] = true })
			})
			after := time.Now()
			for _, r := range rows {
				s.Observations++
				switch {
				case !r.expires:
					s.Judged++
					if !present[r.off] {
						s.Failures = append(s.Failures, fmt.Sprintf("run %d (%v): row %s, which must not expire, was removed by the cleanup", run, iv, r.name))
					}
				case after.Before(r.deadline.Add(-margin)):
					s.Judged++
					if !present[r.off] {
						s.Failures = append(s.Failures, fmt.Sprintf("run %d (%v): row %s removed %v before its deadline", run, iv, r.name, r.deadline.Sub(after)))
					}
				case now.After(r.deadline.Add(3*iv + margin)):
					s.Judged++
					if present[r.off] {
						s.Failures = append(s.Failures, fmt.Sprintf("run %d (%v): row %s still present %v after its deadline (interval %v)", run, iv, r.name, now.Sub(r.deadline), iv))
					}
				default:
					s.InMargin++
				}
			}
			c.QueryAt(rows[0].off, func(r column.Row) error { r.MergeInt64("v", 1); return nil })
			obs++
			time.Sleep(3 * time.Millisecond)
		}
		if len(s.Samples) < 2 {
			s.Samples = append(s.Samples, fmt.Sprintf("interval %v: %d rows, %d observation rounds", iv, len(rows), obs))
		}
		c.Close()
		s.Runs++
		if len(s.Failures) > 10 {
			break
		}
	}
	b, _ := json.MarshalIndent(s, "", " ")
	os.WriteFile(filepath.Join(*out, "summary.json"), b, 0o644)
}

func expiresAt(c *column.Collection, off uint32) (t time.Time, ok bool) {
	c.Query(func(txn *column.Txn) error {
		return txn.QueryAt(off, func(r column.Row) error {
			t, ok = txn.TTL().ExpiresAt()
			return nil
		})
	})
	return
}
