module verif/harness

go 1.19

require (
	github.com/kelindar/bitmap v1.4.1
	github.com/kelindar/column v0.0.0
	github.com/kelindar/iostream v1.3.0
	github.com/klauspost/compress v1.16.6
	github.com/zeebo/xxh3 v1.0.2
)

require (
	github.com/kelindar/intmap v1.1.0 // indirect
	github.com/kelindar/simd v1.1.2 // indirect
	github.com/kelindar/smutex v1.0.0 // indirect
	github.com/klauspost/cpuid/v2 v2.2.5 // indirect
	github.com/tidwall/btree v1.6.0 // indirect
)

replace github.com/kelindar/column => /repo
