package main

// alloc engine (C11 a): runs the real findFreeIndex on generated fill lists and records
// (words, count, result) for coq/Alloc.v's find_free; also checks the result is free.

import (
	"encoding/json"
	"flag"
	"fmt"
	"math/bits"
	"os"
	"path/filepath"
	"strings"

	"github.com/kelindar/column"
)

func cmdAlloc(args []string) {
	fs := flag.NewFlagSet("alloc", flag.ExitOnError)
	seed := fs.Uint64("seed", 1, "seed")
	n := fs.Int("n", 300, "cases")
	out := fs.String("out", "", "output directory")
	per := fs.Int("per-shard", 100, "cases per shard")
	fs.Parse(args)
	os.MkdirAll(*out, 0o755)
	rng := NewRng(*seed)
	type sum struct {
		Engine   string         `json:"engine"`
		Cases    int            `json:"cases"`
		Shards   []string       `json:"shards"`
		Occupied []string       `json:"occupied_results"` // the real code returned an occupied offset
		Shapes   map[string]int `json:"shapes"`
		Samples  []string       `json:"samples"`
	}
	s := sum{Engine: "alloc", Shapes: map[string]int{}}
	var cases []string
	flush := func(i int) {
		if len(cases) == 0 {
			return
		}
		name := filepath.Join(*out, fmt.Sprintf("alloc_%05d.v", i))
		txt := "From Coq Require Import NArith List.\nFrom ColumnV Require Import Alloc.\nImport ListNotations.\nLocal Open Scope N_scope.\n" +
			"Definition M := Eval vm_compute in alloc_mismatches [\n " + strings.Join(cases, ";\n ") + "].\nPrint M.\n"
		os.WriteFile(name, []byte(txt), 0o644)
		s.Shards = append(s.Shards, name)
		cases = nil
	}
	for i := 0; i < *n; i++ {
		var nw int
		switch rng.Intn(6) {
		case 0:
			nw = rng.Intn(4)
		case 1:
			nw = []int{255, 256, 257, 511, 512, 513}[rng.Intn(6)]
		default:
			nw = rng.Intn(40)
		}
		ws := make([]uint64, nw)
		shape := []string{"empty", "full", "full-but-one", "random", "sparse", "full-prefix"}[rng.Intn(6)]
		s.Shapes[shape]++
		for j := range ws {
			switch shape {
			case "full", "full-but-one":
				ws[j] = ^uint64(0)
			case "random":
				ws[j] = rng.U64()
			case "sparse":
				ws[j] = rng.U64() & rng.U64() & rng.U64()
			case "full-prefix":
				if j < nw*2/3 {
					ws[j] = ^uint64(0)
				} else {
					ws[j] = rng.U64() | rng.U64()
				}
			}
		}
		if shape == "full-but-one" && nw > 0 {
			ws[rng.Intn(nw)] &^= 1 << uint(rng.Intn(64))
		}
		occ := 0
		for _, w := range ws {
			occ += bits.OnesCount64(w)
		}
		count := uint64(occ + 1)
		if rng.Chance(25) {
			count += uint64(rng.Intn(130))
		}
		cp := append([]uint64(nil), ws...)
		res := column.VerifFindFreeIndex(cp, count)
		if int(res>>6) < len(ws) && ws[res>>6]&(1<<(res&63)) != 0 {
			s.Occupied = append(s.Occupied, fmt.Sprintf("words=%d count=%d occupied=%d -> offset %d is occupied", nw, count, occ, res))
		}
		var sb strings.Builder
		sb.WriteString("([")
		for j, w := range ws {
			if j > 0 {
				sb.WriteString(";")
			}
			fmt.Fprintf(&sb, "%d", w)
		}
		fmt.Fprintf(&sb, "], %d, %d)", count, res)
		cases = append(cases, sb.String())
		if len(s.Samples) < 2 && nw < 6 {
			s.Samples = append(s.Samples, sb.String())
		}
		if len(cases) >= *per {
			flush(i)
		}
	}
	flush(*n)
	s.Cases = *n
	b, _ := json.MarshalIndent(s, "", " ")
	os.WriteFile(filepath.Join(*out, "summary.json"), b, 0o644)
}
