package main

import (
	"fmt"
	"math"
	"strings"

	"github.com/kelindar/column"
)

// Val is a column value as the model sees it: a bit pattern of a given byte width, or bytes.
type Val struct {
	W int // 0 (no payload), 2, 4, 8 bytes; -1 = byte string
	N uint64
	B []byte
}

func (v Val) Coq() string {
	switch v.W {
	case 0:
		return "V0"
	case 2:
		return fmt.Sprintf("(V2 %d)", v.N)
	case 4:
		return fmt.Sprintf("(V4 %d)", v.N)
	case 8:
		return fmt.Sprintf("(V8 %d)", v.N)
	default:
		return "(VB " + coqBytes(v.B) + ")"
	}
}

func coqBytes(b []byte) string {
	var sb strings.Builder
	sb.WriteString("[")
	for i, x := range b {
		if i > 0 {
			sb.WriteString(";")
		}
		fmt.Fprintf(&sb, "%d", x)
	}
	sb.WriteString("]")
	return sb.String()
}

func (v Val) Equal(o Val) bool {
	if v.W != o.W || v.N != o.N {
		return false
	}
	return string(v.B) == string(o.B)
}

type Kind int

const (
	KInt Kind = iota
	KInt16
	KInt32
	KInt64
	KUint
	KUint16
	KUint32
	KUint64
	KF32
	KF64
	KStr    // default merge: replace by delta
	KStrCat // merge = concatenation
	KEnum
	KBool
	KKey
	KRec    // record, default merge (replace)
	KRecCat // record, merge = concatenation of payloads
	KInt64Aff // int64 with the order-sensitive merge v*3+d
	KStrMin   // string whose merge keeps the smaller of value and delta (result may be shorter than the delta)
	KF64I     // float64 holding small integers only: merges (float addition), WithFloat, float aggregates are exact
	KF32I     // float32, likewise
	nKinds
)

var kindNames = []string{"int", "int16", "int32", "int64", "uint", "uint16", "uint32", "uint64",
	"float32", "float64", "string", "stringcat", "enum", "bool", "key", "record", "recordcat", "int64aff", "stringmin", "float64int", "float32int"}

func (k Kind) String() string { return kindNames[k] }
func (k Kind) Numeric() bool  { return k <= KF64 || k == KInt64Aff || k.IntFloat() }
func (k Kind) Float() bool    { return k == KF32 || k == KF64 || k.IntFloat() }
func (k Kind) IntFloat() bool { return k == KF64I || k == KF32I }
func (k Kind) Signed() bool {
	return k == KInt || k == KInt16 || k == KInt32 || k == KInt64 || k == KInt64Aff
}
func (k Kind) Width() int {
	switch k {
	case KInt16, KUint16:
		return 2
	case KInt32, KUint32, KF32, KF32I:
		return 4
	case KInt, KInt64, KUint, KUint64, KF64, KInt64Aff, KF64I:
		return 8
	case KBool:
		return 0
	}
	return -1
}
func (k Kind) Stringy() bool { return k.Width() == -1 }
func (k Kind) CanMerge() bool {
	return (k.Numeric() && !k.Float()) || k.IntFloat() || k == KStr || k == KStrCat || k == KRec || k == KRecCat || k == KStrMin
}

// LenChangingMerge: merging may change the stored length (finding K2 domain)
func (k Kind) LenChangingMerge() bool {
	return k == KStr || k == KStrCat || k == KRec || k == KRecCat || k == KStrMin
}

// Col is one value column of a generated schema.
type Col struct {
	ID   int
	Name string
	K    Kind
}

// raw-bytes record type
type rec struct{ b []byte }

func (r *rec) MarshalBinary() ([]byte, error) { return append([]byte(nil), r.b...), nil }
func (r *rec) UnmarshalBinary(b []byte) error { r.b = append([]byte(nil), b...); return nil }

func (c Col) Create(coll *column.Collection) error {
	aff := func(v, d int64) int64 { return v*3 + d }
	switch c.K {
	case KInt:
		return coll.CreateColumn(c.Name, column.ForInt())
	case KInt16:
		return coll.CreateColumn(c.Name, column.ForInt16())
	case KInt32:
		return coll.CreateColumn(c.Name, column.ForInt32())
	case KInt64:
		return coll.CreateColumn(c.Name, column.ForInt64())
	case KUint:
		return coll.CreateColumn(c.Name, column.ForUint())
	case KUint16:
		return coll.CreateColumn(c.Name, column.ForUint16())
	case KUint32:
		return coll.CreateColumn(c.Name, column.ForUint32())
	case KUint64:
		return coll.CreateColumn(c.Name, column.ForUint64())
	case KF32, KF32I:
		return coll.CreateColumn(c.Name, column.ForFloat32())
	case KF64, KF64I:
		return coll.CreateColumn(c.Name, column.ForFloat64())
	case KStr:
		return coll.CreateColumn(c.Name, column.ForString())
	case KStrCat:
		return coll.CreateColumn(c.Name, column.ForString(column.WithMerge(func(a, b string) string { return a + b })))
	case KEnum:
		return coll.CreateColumn(c.Name, column.ForEnum())
	case KBool:
		return coll.CreateColumn(c.Name, column.ForBool())
	case KKey:
		return coll.CreateColumn(c.Name, column.ForKey())
	case KRec:
		return coll.CreateColumn(c.Name, column.ForRecord(func() *rec { return new(rec) }))
	case KRecCat:
		return coll.CreateColumn(c.Name, column.ForRecord(func() *rec { return new(rec) },
			column.WithMerge(func(a, b *rec) *rec { return &rec{b: append(append([]byte(nil), a.b...), b.b...)} })))
	case KInt64Aff:
		return coll.CreateColumn(c.Name, column.ForInt64(column.WithMerge(aff)))
	case KStrMin:
		return coll.CreateColumn(c.Name, column.ForString(column.WithMerge(func(a, b string) string {
			if a < b {
				return a
			}
			return b
		})))
	}
	return fmt.Errorf("bad kind")
}

// CoqCol renders the model's column for this kind.
func (c Col) CoqCol() string {
	switch {
	case c.K == KInt64Aff:
		return "(col_num 64 merge_affine)"
	case c.K.IntFloat():
		return fmt.Sprintf("(col_num %d merge_fadd)", c.K.Width()*8)
	case c.K == KInt:
		return "(col_int merge_add)"
	case c.K == KUint:
		return "(col_uint merge_add)"
	case c.K.Numeric():
		return fmt.Sprintf("(col_num %d merge_add)", c.K.Width()*8)
	case c.K == KStr || c.K == KRec:
		return "(col_str merge_replace)"
	case c.K == KStrCat || c.K == KRecCat:
		return "(col_str merge_concat)"
	case c.K == KStrMin:
		return "(col_str merge_min)"
	default:
		return "col_plain"
	}
}

func (c Col) Set(r column.Row, v Val) {
	switch c.K {
	case KInt:
		r.SetInt(c.Name, int(v.N))
	case KInt16:
		r.SetInt16(c.Name, int16(v.N))
	case KInt32:
		r.SetInt32(c.Name, int32(v.N))
	case KInt64, KInt64Aff:
		r.SetInt64(c.Name, int64(v.N))
	case KUint:
		r.SetUint(c.Name, uint(v.N))
	case KUint16:
		r.SetUint16(c.Name, uint16(v.N))
	case KUint32:
		r.SetUint32(c.Name, uint32(v.N))
	case KUint64:
		r.SetUint64(c.Name, v.N)
	case KF32, KF32I:
		r.SetFloat32(c.Name, math.Float32frombits(uint32(v.N)))
	case KF64, KF64I:
		r.SetFloat64(c.Name, math.Float64frombits(v.N))
	case KStr, KStrCat, KStrMin:
		r.SetString(c.Name, string(v.B))
	case KEnum:
		r.SetEnum(c.Name, string(v.B))
	case KBool:
		r.SetBool(c.Name, v.N != 0)
	case KKey:
		r.SetKey(string(v.B))
	case KRec, KRecCat:
		r.SetRecord(c.Name, &rec{b: v.B})
	}
}

// AnyValue is the Go value a user would hand to SetAny / SetMany for this column.  For int and
// uint columns the value may be narrower than the column (v.W of 2 or 4 bytes): PutAny writes a
// 2- or 4-byte entry that Reader.Int / Reader.Uint widen when the column applies it.
func (c Col) AnyValue(v Val, tiny bool) any {
	switch c.K {
	case KInt:
		switch v.W {
		case 2:
			if x := int16(v.N); tiny && x >= -128 && x <= 127 {
				return int8(x) // travels as 2 bytes
			}
			return int16(v.N)
		case 4:
			return int32(v.N)
		}
		return int(v.N)
	case KUint:
		switch v.W {
		case 2:
			if tiny && v.N <= 255 {
				return uint8(v.N)
			}
			return uint16(v.N)
		case 4:
			return uint32(v.N)
		}
		return uint(v.N)
	case KInt16:
		return int16(v.N)
	case KInt32:
		return int32(v.N)
	case KInt64, KInt64Aff:
		return int64(v.N)
	case KUint16:
		return uint16(v.N)
	case KUint32:
		return uint32(v.N)
	case KUint64:
		return v.N
	case KF32, KF32I:
		return math.Float32frombits(uint32(v.N))
	case KF64, KF64I:
		return math.Float64frombits(v.N)
	case KStr, KStrCat, KStrMin, KEnum:
		return string(v.B)
	case KBool:
		return v.N != 0
	case KRec, KRecCat:
		return &rec{b: v.B}
	}
	return nil
}

func (c Col) Merge(r column.Row, v Val) {
	switch c.K {
	case KInt:
		r.MergeInt(c.Name, int(v.N))
	case KInt16:
		r.MergeInt16(c.Name, int16(v.N))
	case KInt32:
		r.MergeInt32(c.Name, int32(v.N))
	case KInt64, KInt64Aff:
		r.MergeInt64(c.Name, int64(v.N))
	case KUint:
		r.MergeUint(c.Name, uint(v.N))
	case KUint16:
		r.MergeUint16(c.Name, uint16(v.N))
	case KUint32:
		r.MergeUint32(c.Name, uint32(v.N))
	case KUint64:
		r.MergeUint64(c.Name, v.N)
	case KF32I:
		r.MergeFloat32(c.Name, math.Float32frombits(uint32(v.N)))
	case KF64I:
		r.MergeFloat64(c.Name, math.Float64frombits(v.N))
	case KStr, KStrCat, KStrMin:
		r.MergeString(c.Name, string(v.B))
	case KRec, KRecCat:
		r.MergeRecord(c.Name, &rec{b: v.B})
	}
}

// Get reads the value through the typed accessor of the row.
func (c Col) Get(r column.Row) (Val, bool) {
	switch c.K {
	case KInt:
		v, ok := r.Int(c.Name)
		return Val{W: 8, N: uint64(v)}, ok
	case KInt16:
		v, ok := r.Int16(c.Name)
		return Val{W: 2, N: uint64(uint16(v))}, ok
	case KInt32:
		v, ok := r.Int32(c.Name)
		return Val{W: 4, N: uint64(uint32(v))}, ok
	case KInt64, KInt64Aff:
		v, ok := r.Int64(c.Name)
		return Val{W: 8, N: uint64(v)}, ok
	case KUint:
		v, ok := r.Uint(c.Name)
		return Val{W: 8, N: uint64(v)}, ok
	case KUint16:
		v, ok := r.Uint16(c.Name)
		return Val{W: 2, N: uint64(v)}, ok
	case KUint32:
		v, ok := r.Uint32(c.Name)
		return Val{W: 4, N: uint64(v)}, ok
	case KUint64:
		v, ok := r.Uint64(c.Name)
		return Val{W: 8, N: v}, ok
	case KF32, KF32I:
		v, ok := r.Float32(c.Name)
		return Val{W: 4, N: uint64(math.Float32bits(v))}, ok
	case KF64, KF64I:
		v, ok := r.Float64(c.Name)
		return Val{W: 8, N: math.Float64bits(v)}, ok
	case KStr, KStrCat, KStrMin:
		v, ok := r.String(c.Name)
		return Val{W: -1, B: []byte(v)}, ok
	case KEnum:
		v, ok := r.Enum(c.Name)
		return Val{W: -1, B: []byte(v)}, ok
	case KBool:
		v := r.Bool(c.Name)
		return Val{W: 0}, v
	case KKey:
		v, ok := r.Key()
		return Val{W: -1, B: []byte(v)}, ok
	case KRec, KRecCat:
		v, ok := r.Record(c.Name)
		if !ok {
			return Val{}, false
		}
		return Val{W: -1, B: append([]byte(nil), v.(*rec).b...)}, true
	}
	return Val{}, false
}

var enumAlphabet = []string{"", "a", "b", "red", "green", "blue", "k9870", "zzzzzzzzzzzzzzzzzzzzzzzz"}
var strAlphabet = []string{"", "a", "b", "x", "ab", "abc", "hello", "zz", "\x00", "\xff\xfe"}

// RandVal draws a value for the kind from an edge-biased distribution.
func (c Col) RandVal(r *Rng, long bool) Val {
	w := c.K.Width()
	switch {
	case c.K == KBool:
		return Val{W: 0, N: uint64(r.Intn(2))}
	case c.K == KEnum:
		return Val{W: -1, B: []byte(enumAlphabet[r.Intn(len(enumAlphabet))])}
	case c.K.Stringy():
		if long && r.Chance(3) {
			n := []int{127, 128, 255, 256, 300, 1000}[r.Intn(6)]
			b := make([]byte, n)
			for i := range b {
				b[i] = byte('a' + (i+n)%26)
			}
			return Val{W: -1, B: b}
		}
		return Val{W: -1, B: []byte(strAlphabet[r.Intn(len(strAlphabet))])}
	case c.K == KF64I:
		return Val{W: 8, N: math.Float64bits(float64(r.Intn(250) - 50))}
	case c.K == KF32I:
		return Val{W: 4, N: uint64(math.Float32bits(float32(r.Intn(250) - 50)))}
	case c.K == KF32:
		edges := []uint32{0, 0x80000000, 0x3f800000, 0xbf800000, 0x7fc00000, 0x7fc00001, 0xffc12345, 0x7f800000, 0xff800000, 1, 0x00800000, 0x41200000}
		return Val{W: 4, N: uint64(edges[r.Intn(len(edges))])}
	case c.K == KF64:
		edges := []uint64{0, 0x8000000000000000, 0x3ff0000000000000, 0xbff0000000000000, 0x7ff8000000000000, 0x7ff8000000000001, 0xfff8123456789abc, 0x7ff0000000000000, 1, 0x4024000000000000}
		return Val{W: 8, N: edges[r.Intn(len(edges))]}
	default:
		mask := uint64(math.MaxUint64)
		if w < 8 {
			mask = (uint64(1) << (8 * uint(w))) - 1
		}
		var n uint64
		switch r.Intn(11) {
		case 8, 9, 10:
			// around the powers of two at which a narrower encoding stops being exact (sign bit of
			// the 1-, 2- and 4-byte forms, their unsigned ranges) and inside the upper half of each
			ks := []uint{7}
			switch w {
			case 2:
				ks = []uint{7, 8, 15, 7}
			case 4:
				ks = []uint{7, 8, 15, 15, 16, 31}
			case 8:
				ks = []uint{7, 8, 15, 16, 31, 31, 31, 32, 63}
			}
			k := ks[r.Intn(len(ks))]
			base := uint64(1) << k
			switch r.Intn(5) {
			case 0:
				n = base - 1
			case 1:
				n = base
			case 2:
				n = base + 1
			case 3:
				n = base + r.U64()%base // upper half of the next width: [2^k, 2^(k+1))
			default:
				n = ^base + 1 // -2^k
			}
		case 0:
			n = 0
		case 1:
			n = mask // -1 / max unsigned
		case 2:
			n = mask >> 1 // max signed
		case 3:
			n = (mask >> 1) + 1 // min signed
		case 4:
			n = r.U64() & mask
		default:
			n = uint64(r.Intn(120)) // small values make predicates and sums meaningful
			if c.K.Signed() && r.Chance(30) {
				n = (^n + 1) & mask // small negative
			}
		}
		return Val{W: w, N: n & mask}
	}
}
