package main

// race engine (C18): free-running workloads on all cores under the Go race detector.  The binary
// must be built with -race; reports go to GORACE's log_path and are parsed by bin/engines.py.
// A watchdog turns a workload that does not finish into a "deadlock" finding.

import (
	"bytes"
	"encoding/json"
	"flag"
	"fmt"
	"os"
	"path/filepath"
	"runtime"
	"strings"
	"sync"
	"sync/atomic"
	"time"

	"github.com/kelindar/column"
	"github.com/kelindar/column/commit"
	"github.com/zeebo/xxh3"
)

type raceSummary struct {
	Engine    string         `json:"engine"`
	Workloads map[string]int `json:"operations_by_workload"`
	Stuck     []string       `json:"stuck"`
	Panics    []string       `json:"panics"`
	Seconds   float64        `json:"seconds"`
	Cores     int            `json:"cores"`
	Invariant []string       `json:"invariant_violations"`
}

func raceColl() *column.Collection {
	c := column.NewCollection(column.Options{Vacuum: 50 * time.Millisecond, Capacity: 64})
	c.CreateColumn("a", column.ForInt64())
	c.CreateColumn("b", column.ForInt64())
	c.CreateColumn("s", column.ForString())
	c.CreateColumn("e", column.ForEnum())
	c.CreateColumn("f", column.ForBool())
	c.CreateColumn("rec", column.ForRecord(func() *ctr { return new(ctr) }, column.WithMerge(func(v, d *ctr) *ctr {
		v.N += d.N
		return v
	})))
	c.CreateIndex("big", "a", func(r column.Reader) bool { return r.Int() > 10 })
	c.CreateSortIndex("sorted", "s")
	return c
}

func insertRows(c *column.Collection, n int) {
	c.Query(func(txn *column.Txn) error {
		for i := 0; i < n; i++ {
			txn.Insert(func(r column.Row) error {
				r.SetInt64("a", int64(i))
				r.SetInt64("b", 100-int64(i))
				r.SetString("s", fmt.Sprint("v", i%7))
				r.SetEnum("e", []string{"x", "y", "z"}[i%3])
				r.SetBool("f", i%2 == 0)
				r.SetRecord("rec", &ctr{N: int64(i)})
				return nil
			})
		}
		return nil
	})
}

// runWorkload runs the worker functions until the deadline; returns the number of operations,
// whether it got stuck, and panics
func runWorkload(name string, d time.Duration, workers []func(stop *int32, ops *int64)) (int64, bool, []string) {
	var stop int32
	var ops int64
	var wg sync.WaitGroup
	var mu sync.Mutex
	var panics []string
	for _, w := range workers {
		w := w
		wg.Add(1)
		go func() {
			defer wg.Done()
			defer func() {
				if r := recover(); r != nil {
					mu.Lock()
					panics = append(panics, fmt.Sprintf("%s: %v @ %s", name, r, shortStack()))
					mu.Unlock()
				}
			}()
			w(&stop, &ops)
		}()
	}
	time.Sleep(d)
	atomic.StoreInt32(&stop, 1)
	done := make(chan struct{})
	go func() { wg.Wait(); close(done) }()
	select {
	case <-done:
		return atomic.LoadInt64(&ops), false, panics
	case <-time.After(20 * time.Second):
		return atomic.LoadInt64(&ops), true, panics
	}
}

func cmdRace(args []string) {
	fs := flag.NewFlagSet("race", flag.ExitOnError)
	seconds := fs.Float64("seconds", 2, "seconds per workload")
	out := fs.String("out", "", "output directory")
	known := fs.Bool("known", false, "also run the workloads that trigger the known findings K9 / K11")
	only := fs.String("only", "", "run only the workloads whose name contains this")
	fs.Parse(args)
	os.MkdirAll(*out, 0o755)
	d := time.Duration(*seconds * float64(time.Second))
	s := raceSummary{Engine: "race", Workloads: map[string]int{}, Cores: runtime.NumCPU()}
	t0 := time.Now()
	loop := func(f func(i int)) func(stop *int32, ops *int64) {
		return func(stop *int32, ops *int64) {
			for i := 0; atomic.LoadInt32(stop) == 0; i++ {
				f(i)
				atomic.AddInt64(ops, 1)
			}
		}
	}
	run := func(name string, workers []func(stop *int32, ops *int64)) {
		if *only != "" && !strings.Contains(name, *only) {
			return
		}
		n, stuck, panics := runWorkload(name, d, workers)
		s.Workloads[name] = int(n)
		if stuck {
			s.Stuck = append(s.Stuck, name)
		}
		s.Panics = append(s.Panics, panics...)
	}

	// 0. writers in three different blocks store a fresh number and the enum string derived from it
	// into one row per transaction; readers check the pair inside one callback: every row state a
	// reader sees is one that some transaction committed (C10) - the enum dictionary is shared by
	// all blocks while the writers hold different block latches
	if *only == "" || strings.Contains("pairs over blocks", *only) {
		c := raceColl()
		insertRows(c, 40000)
		var next int64 = 1000000
		var bad, k3 int64
		var hashOwner sync.Map
		var mu sync.Mutex
		report := func(f string, a ...interface{}) {
			if atomic.AddInt64(&bad, 1) <= 4 {
				mu.Lock()
				s.Invariant = append(s.Invariant, "[C10] "+fmt.Sprintf(f, a...))
				mu.Unlock()
			}
		}
		var ws []func(*int32, *int64)
		for w := 0; w < 6; w++ {
			w := w
			ws = append(ws, loop(func(i int) {
				off := uint32((w%3)*16384 + (i*7919+w*131)%7000)
				n := atomic.AddInt64(&next, 1)
				// enum strings are interned by 32 bits of their hash (finding K3): a string whose hash
				// another string of this run owns would read back as that other string - skipped
				if owner, loaded := hashOwner.LoadOrStore(uint32(xxh3.HashString(fmt.Sprint("v", n))), n); loaded && owner.(int64) != n {
					atomic.AddInt64(&k3, 1)
					return
				}
				c.QueryAt(off, func(r column.Row) error {
					r.SetInt64("a", n)
					r.SetEnum("e", fmt.Sprint("v", n))
					return nil
				})
			}))
		}
		check := func(off uint32, a int64, okA bool, e string, okE bool) {
			if okA && a >= 1000000 && (!okE || e != fmt.Sprint("v", a)) {
				report("row %d read inside one callback: a=%d goes with e=%q (present=%v), every transaction stores e = \"v\"+a", off, a, e, okE)
			}
		}
		for w := 0; w < 4; w++ {
			w := w
			ws = append(ws, loop(func(i int) {
				off := uint32(((i+w)%3)*16384 + (i*104729)%7000)
				c.QueryAt(off, func(r column.Row) error {
					a, okA := r.Int64("a")
					e, okE := r.Enum("e")
					check(off, a, okA, e, okE)
					return nil
				})
			}))
		}
		ws = append(ws, loop(func(i int) {
			c.Query(func(txn *column.Txn) error {
				ra, re := txn.Int64("a"), txn.Enum("e")
				return txn.WithInt("a", func(v int64) bool { return v >= 1000000 }).Range(func(x uint32) {
					a, okA := ra.Get()
					e, okE := re.Get()
					check(x, a, okA, e, okE)
				})
			})
		}))
		run("pairs over blocks", ws)
		s.Workloads["pairs over blocks: colliding enum strings skipped (K3)"] = int(k3)
		// ... and at rest (a worker that died inside a transaction may have left a latch behind: the
		// watchdog of the workload has reported that; do not wait for it here)
		if !within(15*time.Second, func() {
			defer func() { recover() }()
			c.Query(func(txn *column.Txn) error {
				ra, re := txn.Int64("a"), txn.Enum("e")
				return txn.Range(func(x uint32) {
					a, okA := ra.Get()
					e, okE := re.Get()
					check(x, a, okA, e, okE)
				})
			})
			c.Close()
		}) {
			report("the collection cannot be read any more after the workload (a latch is still held)")
		}
	}

	// 1. writers, point readers, range readers, filters on existing rows of two blocks
	{
		c := raceColl()
		insertRows(c, 17000)
		var ws []func(*int32, *int64)
		for w := 0; w < 6; w++ {
			w := w
			ws = append(ws, loop(func(i int) {
				off := uint32((i*7919 + w*131) % 17000)
				c.QueryAt(off, func(r column.Row) error {
					r.MergeInt64("a", 1)
					r.MergeInt64("b", -1)
					if i%5 == 0 {
						r.SetString("s", fmt.Sprint("w", i%5))
					}
					return nil
				})
			}))
		}
		for w := 0; w < 4; w++ {
			ws = append(ws, loop(func(i int) {
				c.QueryAt(uint32((i*104729)%17000), func(r column.Row) error {
					a, _ := r.Int64("a")
					b, _ := r.Int64("b")
					_ = a + b
					r.String("s")
					r.Enum("e")
					r.Bool("f")
					return nil
				})
			}))
		}
		ws = append(ws, loop(func(i int) {
			c.Query(func(txn *column.Txn) error {
				txn.With("big").Count()
				ra := txn.Int64("a")
				n := 0
				txn.WithInt("b", func(v int64) bool { return v < 50 }).Range(func(x uint32) { ra.Get(); n++ })
				return nil
			})
		}))
		ws = append(ws, loop(func(i int) {
			c.Query(func(txn *column.Txn) error {
				k := 0
				return txn.WithString("s", func(v string) bool { return v != "" }).Ascend("sorted", func(x uint32) { k++ })
			})
		}))
		run("update+read", ws)
		c.Close()
	}

	// 2. inserts and deletes reusing offsets, beside counters
	{
		c := raceColl()
		insertRows(c, 500)
		var ws []func(*int32, *int64)
		for w := 0; w < 6; w++ {
			ws = append(ws, loop(func(i int) {
				off, _ := c.Insert(func(r column.Row) error {
					r.SetInt64("a", int64(i))
					if i%3 != 0 { // every third row has no value in the column the sorted index follows
						r.SetString("s", "n")
					}
					return nil
				})
				if i%2 == 0 {
					c.DeleteAt(off)
				}
			}))
		}
		ws = append(ws, loop(func(i int) { c.Count() }))
		ws = append(ws, loop(func(i int) {
			c.Query(func(txn *column.Txn) error {
				txn.WithInt("a", func(v int64) bool { return v%3 == 0 }).DeleteAll()
				if i%3 == 0 {
					return errAbort
				}
				return nil
			})
		}))
		run("insert+delete", ws)
		c.Close()
	}

	// 3. snapshots beside multi-block writers; restores into other collections
	{
		c := raceColl()
		insertRows(c, 17000)
		var ws []func(*int32, *int64)
		for w := 0; w < 4; w++ {
			w := w
			ws = append(ws, loop(func(i int) {
				c.Query(func(txn *column.Txn) error {
					for _, off := range []uint32{uint32(i % 100), 16384 + uint32((i+w)%100)} {
						txn.QueryAt(off, func(r column.Row) error { r.MergeInt64("a", 1); return nil })
					}
					return nil
				})
			}))
		}
		for w := 0; w < 2; w++ {
			ws = append(ws, loop(func(i int) {
				var buf bytes.Buffer
				if err := c.Snapshot(&buf); err == nil {
					d := raceColl()
					d.Restore(&buf)
					d.Close()
				}
			}))
		}
		run("snapshot+write", ws)
		c.Close()
	}

	// 4. replication: a consumer goroutine replays the channel's commits into a replica while the
	//    primary's writers (two blocks) go on recycling their commit pages
	{
		ch := make(commit.Channel, 4096)
		c := column.NewCollection(column.Options{Vacuum: time.Hour, Capacity: 64, Writer: ch})
		rep := column.NewCollection(column.Options{Vacuum: time.Hour, Capacity: 64})
		for _, x := range []*column.Collection{c, rep} {
			x.CreateColumn("a", column.ForInt64())
			x.CreateColumn("s", column.ForString())
		}
		c.Query(func(txn *column.Txn) error {
			for i := 0; i < 17000; i++ {
				txn.Insert(func(r column.Row) error { r.SetInt64("a", int64(i)); r.SetString("s", "x"); return nil })
			}
			return nil
		})
		var ws []func(*int32, *int64)
		for w := 0; w < 4; w++ {
			w := w
			ws = append(ws, loop(func(i int) {
				off := uint32((i*7919 + w*131) % 17000)
				c.QueryAt(off, func(r column.Row) error {
					r.MergeInt64("a", 1)
					if i%3 == 0 {
						r.SetString("s", fmt.Sprint("v", i%11))
					}
					return nil
				})
			}))
		}
		ws = append(ws, func(stop *int32, ops *int64) {
			for atomic.LoadInt32(stop) == 0 {
				select {
				case cm := <-ch:
					rep.Replay(cm)
					atomic.AddInt64(ops, 1)
				case <-time.After(5 * time.Millisecond):
				}
			}
		})
		run("write+replicate", ws)
		c.Close()
		rep.Close()
	}

	if *known {
		// K9: the collection grows across blocks while readers use typed accessors
		{
			c := raceColl()
			insertRows(c, 100)
			var ws []func(*int32, *int64)
			ws = append(ws, loop(func(i int) { insertRows(c, 3000) }))
			for w := 0; w < 4; w++ {
				ws = append(ws, loop(func(i int) {
					c.QueryAt(uint32(i%100), func(r column.Row) error {
						r.Int64("a")
						r.String("s")
						r.Enum("e")
						r.Bool("f")
						return nil
					})
					c.Query(func(txn *column.Txn) error { txn.With("big").Count(); return nil })
				}))
			}
			run("grow+read (K9)", ws)
			c.Close()
		}
		// K11: index creation beside writers
		{
			c := raceColl()
			insertRows(c, 2000)
			var ws []func(*int32, *int64)
			for w := 0; w < 4; w++ {
				ws = append(ws, loop(func(i int) {
					c.QueryAt(uint32(i%2000), func(r column.Row) error { r.SetInt64("a", int64(i)); return nil })
				}))
			}
			ws = append(ws, loop(func(i int) {
				name := fmt.Sprint("ix", i%3)
				c.CreateIndex(name, "a", func(r column.Reader) bool { return r.Int()%2 == 0 })
				c.DropIndex(name)
			}))
			run("index build+write (K11)", ws)
			c.Close()
		}
	}
	s.Seconds = time.Since(t0).Seconds()
	b, _ := json.MarshalIndent(s, "", " ")
	os.WriteFile(filepath.Join(*out, "summary.json"), b, 0o644)
}
