package main

// bitmap engine (C04, word level): the real kelindar/bitmap And / AndNot / Or applied to the
// per-block window of a selection exactly as txn.go does, recorded for coq/Bitmap.v.

import (
	"encoding/json"
	"flag"
	"fmt"
	"os"
	"path/filepath"
	"strings"

	"github.com/kelindar/bitmap"
	"github.com/kelindar/column/commit"
)

func coqWords(ws []uint64) string {
	var sb strings.Builder
	sb.WriteString("[")
	for i, w := range ws {
		if i > 0 {
			sb.WriteString(";")
		}
		fmt.Fprintf(&sb, "%d", w)
	}
	sb.WriteString("]")
	return sb.String()
}

func cmdBitmap(args []string) {
	fs := flag.NewFlagSet("bitmap", flag.ExitOnError)
	seed := fs.Uint64("seed", 1, "seed")
	n := fs.Int("n", 300, "cases")
	out := fs.String("out", "", "output directory")
	fs.Parse(args)
	os.MkdirAll(*out, 0o755)
	rng := NewRng(*seed)
	type sum struct {
		Engine   string         `json:"engine"`
		Cases    int            `json:"cases"`
		Shards   []string       `json:"shards"`
		Ops      map[string]int `json:"ops"`
		Shapes   map[string]int `json:"shapes"`
		Outside  []string       `json:"writes_outside_window"`
		Samples  []string       `json:"samples"`
	}
	s := sum{Engine: "bitmap", Ops: map[string]int{}, Shapes: map[string]int{}}
	var cases []string
	for i := 0; i < *n; i++ {
		// the selection: a bitmap of some length; the window of one block of it
		selLen := []int{0, 1, 2, 3, 16, 255, 256, 257, 300, 511, 512, 513, 600}[rng.Intn(13)]
		sel := make(bitmap.Bitmap, selLen, selLen+rng.Intn(300))
		for j := range sel {
			sel[j] = rng.U64() & rng.U64()
		}
		before := append(bitmap.Bitmap(nil), sel...)
		chunk := commit.Chunk(rng.Intn(3))
		win := chunk.OfBitmap(sel)
		// the source: a value column's block bitmap (256 words), or the window of an index / bool bitmap
		var src bitmap.Bitmap
		shape := ""
		switch rng.Intn(4) {
		case 0:
			src = make(bitmap.Bitmap, 256)
			shape = "column-block"
		case 1:
			idx := make(bitmap.Bitmap, []int{0, 1, 5, 256, 300, 512, 700}[rng.Intn(7)])
			for j := range idx {
				idx[j] = rng.U64()
			}
			src = chunk.OfBitmap(idx)
			shape = "index-window"
		case 2:
			src = nil
			shape = "nil"
		default:
			src = make(bitmap.Bitmap, rng.Intn(40))
			shape = "short"
		}
		for j := range src {
			src[j] = rng.U64() | (rng.U64() & rng.U64())
		}
		s.Shapes[shape]++
		a := append([]uint64(nil), win...)
		b := append([]uint64(nil), src...)
		op := rng.Intn(3)
		if op == 2 && len(src) > len(win) {
			// Or with a source longer than the window: the library writes into spare capacity or into a
			// fresh copy, depending on the capacity of the destination - outside the model, and by the
			// collection's length invariants (Bitmap.v) the source then carries no bit beyond the window
			s.Shapes["or-source-longer-than-window (not compared)"]++
			continue
		}
		x0 := 0
		if len(win) > 0 {
			// offset of the window inside the selection
			x0 = int(chunk) << 8
			if x0 > len(sel) {
				x0 = len(sel)
			}
		}
		dst := win
		switch op {
		case 0:
			dst.And(src)
			s.Ops["and"]++
		case 1:
			dst.AndNot(src)
			s.Ops["andnot"]++
		default:
			dst.Or(src)
			s.Ops["or"]++
		}
		after := []uint64(sel[x0 : x0+len(a)])
		// nothing outside the window may change inside the selection
		for j := range sel {
			if (j < x0 || j >= x0+len(a)) && sel[j] != before[j] {
				s.Outside = append(s.Outside, fmt.Sprintf("case %d op %d: word %d of the selection changed outside the window [%d,%d)", i, op, j, x0, x0+len(a)))
				break
			}
		}
		c := fmt.Sprintf("(%d, %s, %s, %s)", op, coqWords(a), coqWords(b), coqWords(after))
		cases = append(cases, c)
		if len(s.Samples) < 2 && len(c) < 600 {
			s.Samples = append(s.Samples, c)
		}
	}
	per := 100
	for i := 0; i < len(cases); i += per {
		j := i + per
		if j > len(cases) {
			j = len(cases)
		}
		name := filepath.Join(*out, fmt.Sprintf("bitmap_%05d.v", i))
		txt := "From Coq Require Import NArith List.\nFrom ColumnV Require Import Bitmap.\nImport ListNotations.\nLocal Open Scope N_scope.\n" +
			"Definition M := Eval vm_compute in bm_mismatches [\n " + strings.Join(cases[i:j], ";\n ") + "].\nPrint M.\n"
		os.WriteFile(name, []byte(txt), 0o644)
		s.Shards = append(s.Shards, name)
	}
	s.Cases = len(cases)
	b, _ := json.MarshalIndent(s, "", " ")
	os.WriteFile(filepath.Join(*out, "summary.json"), b, 0o644)
}
