package main

// Persistence engines.
//   trunc (C13): every prefix of a snapshot (state + commit-log tail) and of a commit log must
//                restore to a commit boundary or fail - never panic, hang or apply part of a commit.
//   fault (C14): a destination writer failing at any call / byte makes Snapshot fail; the
//                collection stays usable and nothing leaks.

import (
	"bytes"
	"encoding/json"
	"errors"
	"flag"
	"fmt"
	"io"
	"os"
	"path/filepath"
	"sort"
	"strings"
	"sync"
	"sync/atomic"
	"time"

	"github.com/kelindar/column"
	"github.com/kelindar/column/commit"
)

type dumpT struct {
	rows  map[uint32]rowObs
	count int
}

func (w *World) dumpOf(c *column.Collection) dumpT {
	rows, _, count := w.dump(c)
	return dumpT{rows, count}
}

func sameDump(a, b dumpT) bool {
	if a.count != b.count || len(a.rows) != len(b.rows) {
		return false
	}
	for k, v := range a.rows {
		if o, ok := b.rows[k]; !ok || !v.equal(o) {
			return false
		}
	}
	return true
}

// mergeDump: rows of blocks <= upto from b, the others from a (a transaction applied up to a block)
func mergeDump(a, b dumpT, upto uint32) dumpT {
	out := dumpT{rows: map[uint32]rowObs{}}
	for k, v := range a.rows {
		if k>>14 > upto {
			out.rows[k] = v
		}
	}
	for k, v := range b.rows {
		if k>>14 <= upto {
			out.rows[k] = v
		}
	}
	out.count = len(out.rows)
	return out
}

type countingWriter struct {
	w     io.Writer
	n     int
	calls int
}

func (c *countingWriter) Write(p []byte) (int, error) {
	c.calls++
	c.n += len(p)
	return c.w.Write(p)
}

var persistProfile = Profile{Name: "persist", Txns: 8, KeyedPct: 0, SeedPct: 50, SchemaPct: 0, AbortPct: 10, FilterPct: 6,
	FailInsPct: 3, MaxStmts: 6, Long: true}

// snapshotWithTail takes a snapshot and runs `tail` transactions from inside the snapshot (at the
// point where every block has been written and the recorder is still installed), so that the
// file ends with a commit log.  Returns the file, the length of its state part, and the dumps
// the file may legitimately restore to.
func (w *World) snapshotWithTail(tail int) (file []byte, stateLen int, allowed []dumpT, err error) {
	return w.snapshotWithHeadTail(0, tail)
}

// snapshotWithHeadTail: [head] transactions commit after the recorder was installed and before the
// first block is read (they are in the state AND in the recorded log: Restore must skip them),
// [tail] transactions after the last block was read (only in the log: Restore must replay them)
func (w *World) snapshotWithHeadTail(head, tail int) (file []byte, stateLen int, allowed []dumpT, err error) {
	var buf bytes.Buffer
	cw := &countingWriter{w: &buf}
	d0 := w.dumpOf(w.coll)
	allowed = append(allowed, d0)
	prev := d0
	var headRow uint32
	var headErr error
	column.VerifHook.Store(func(point string, chunk uint32) {
		switch point {
		case "s.open":
			if head > 0 {
				for i := 0; i < head; i++ {
					w.runTxn()
				}
				// a commit with row markers that Restore must SKIP (it is in the state already) ...
				headRow, headErr = w.coll.Insert(func(r column.Row) error { return nil })
				d0 = w.dumpOf(w.coll)
				allowed = []dumpT{d0}
				prev = d0
			}
		case "s.close":
			var directed []func()
			if head > 0 && headErr == nil {
				// ... followed by one with markers of its own that Restore must REPLAY: the row the
				// skipped commit inserted is deleted again (the world's generator does not know it)
				directed = append(directed, func() { w.coll.DeleteAt(headRow) })
				// ... and by a length-changing merge on a row beyond the first block (the rewritten
				// operation the recorder receives must belong to that row's block)
				var high uint32
				for off := range w.prev {
					if off >= 16384 && off > high {
						high = off
					}
				}
				for ci := range w.cols {
					if col := w.cols[ci]; high > 0 && (col.K == KStrCat || col.K == KRecCat) {
						directed = append(directed, func() {
							w.coll.QueryAt(high, func(r column.Row) error {
								col.Merge(r, Val{W: -1, B: []byte("+tail")})
								return nil
							})
						})
						break
					}
				}
			}
			for i := 0; i < len(directed)+tail; i++ {
				before := len(w.logger.commits)
				if i < len(directed) {
					directed[i]()
				} else {
					w.runTxn() // observe() drains the logger; collect the blocks from the stats instead
				}
				_ = before
				cur := w.dumpOf(w.coll)
				// the transaction may have produced several commits (one per block, ascending):
				// every block-wise partial application is a commit boundary
				blocks := map[uint32]bool{}
				for k := range cur.rows {
					blocks[k>>14] = true
				}
				for k := range prev.rows {
					blocks[k>>14] = true
				}
				var bs []uint32
				for b := range blocks {
					bs = append(bs, b)
				}
				sort.Slice(bs, func(i, j int) bool { return bs[i] < bs[j] })
				for _, b := range bs {
					allowed = append(allowed, mergeDump(prev, cur, b))
				}
				allowed = append(allowed, cur)
				prev = cur
			}
		case "s.copy":
			stateLen = cw.n
		}
	})
	err = w.coll.Snapshot(cw)
	removeHook()
	return buf.Bytes(), stateLen, allowed, err
}

type restoreOutcome struct {
	err      error
	panicked string
	hung     bool
	dump     dumpT
}

func (w *World) tryRestore(data []byte) restoreOutcome {
	done := make(chan restoreOutcome, 1)
	go func() {
		var out restoreOutcome
		defer func() {
			if r := recover(); r != nil {
				out.panicked = fmt.Sprint(r) + " @ " + shortStack()
			}
			done <- out
		}()
		fresh := column.NewCollection(column.Options{Capacity: w.opts.Capacity, Vacuum: time.Hour})
		defer fresh.Close()
		for _, col := range w.cols {
			col.Create(fresh)
		}
		for _, cp := range w.comps {
			w.createCompSilent(fresh, cp)
		}
		out.err = fresh.Restore(bytes.NewReader(data))
		if out.err == nil {
			out.dump = w.dumpOf(fresh)
		}
	}()
	select {
	case o := <-done:
		return o
	case <-time.After(20 * time.Second):
		return restoreOutcome{hung: true}
	}
}

type persistSummary struct {
	Engine     string         `json:"engine"`
	Files      int            `json:"files"`
	Cuts       int            `json:"cuts"`
	Errors     int            `json:"restores_failed_cleanly"`
	Clean      int            `json:"restores_succeeded"`
	LogCuts    int            `json:"log_cuts"`
	Exhaustive bool           `json:"exhaustive"`
	Failures   []string       `json:"failures"`
	Sizes      []int          `json:"file_sizes"`
	Samples    []string       `json:"samples"`
	Extra      map[string]int `json:"extra"`
}

func cutPoints(rng *Rng, n, stateLen int, every bool) []int {
	set := map[int]bool{}
	add := func(k int) {
		if k >= 0 && k <= n {
			set[k] = true
		}
	}
	if every {
		for k := 0; k <= n; k++ {
			add(k)
		}
	} else {
		for k := 0; k <= 24; k++ {
			add(k)
		}
		for d := -6; d <= 6; d++ {
			add(stateLen + d)
			add(n + d)
		}
		for k := n - 200; k <= n; k++ {
			add(k)
		}
		for i := 0; i < 120; i++ {
			add(rng.Intn(n + 1))
		}
	}
	var out []int
	for k := range set {
		out = append(out, k)
	}
	sort.Ints(out)
	return out
}

func cmdTrunc(args []string) {
	fs := flag.NewFlagSet("trunc", flag.ExitOnError)
	seed := fs.Uint64("seed", 1, "seed")
	n := fs.Int("n", 6, "number of snapshot files")
	every := fs.Bool("every-byte", false, "cut at every byte")
	out := fs.String("out", "", "output directory")
	fs.Parse(args)
	os.MkdirAll(*out, 0o755)
	s := persistSummary{Engine: "trunc", Exhaustive: *every, Extra: map[string]int{}}
	stats := newStats()
	for i := 0; i < *n; i++ {
		prof := persistProfile
		if i%2 == 1 {
			prof.SeedPct = 100 // the directed files span several blocks
		}
		w := newWorld(*seed, i, prof, stats, false)
		if i%2 == 1 {
			w.addColumnNamed(KStrCat, "zcat")
		}
		for t := 0; t < 4+w.rng.Intn(5); t++ {
			w.runTxn()
		}
		tail := w.rng.Intn(4)
		head := 0
		if i%2 == 1 {
			head, tail = 1+w.rng.Intn(2), 1+w.rng.Intn(3)
		}
		s.Extra["head_txns"] += head
		file, stateLen, allowed, err := w.snapshotWithHeadTail(head, tail)
		if err != nil {
			s.Failures = append(s.Failures, fmt.Sprintf("file %d: snapshot failed: %v", i, err))
			w.close()
			continue
		}
		s.Files++
		s.Sizes = append(s.Sizes, len(file))
		s.Extra["tail_txns"] += tail
		// commits beside the snapshot: what it restores to is C08's concern as much as C13's
		during := ""
		if head+tail > 0 {
			during = "[C08,C13] "
		}
		last := -1
		for _, k := range cutPoints(w.rng, len(file), stateLen, *every) {
			o := w.tryRestore(file[:k])
			s.Cuts++
			switch {
			case o.hung:
				s.Failures = append(s.Failures, fmt.Sprintf("seed %d file %d cut %d/%d: Restore did not return", *seed, i, k, len(file)))
			case o.panicked != "":
				s.Failures = append(s.Failures, fmt.Sprintf("seed %d file %d cut %d/%d: Restore panicked: %s", *seed, i, k, len(file), o.panicked))
			case o.err != nil:
				s.Errors++
			default:
				s.Clean++
				at := -1
				for j, a := range allowed {
					if sameDump(a, o.dump) {
						at = j
					}
				}
				if at < 0 {
					s.Failures = append(s.Failures, during+fmt.Sprintf("seed %d file %d cut %d/%d (state part %d bytes): Restore succeeded with a state that is no commit boundary of the original (%d rows, count %d)",
						*seed, i, k, len(file), stateLen, len(o.dump.rows), o.dump.count))
				} else if at < last {
					s.Failures = append(s.Failures, fmt.Sprintf("seed %d file %d cut %d: a longer prefix restored an older state", *seed, i, k))
				} else {
					last = at
				}
				if k < stateLen {
					s.Failures = append(s.Failures, fmt.Sprintf("seed %d file %d cut %d inside the %d-byte state part restored without error", *seed, i, k, stateLen))
				}
			}
		}
		// the change stream after a FAILED restore: the next transaction emits exactly one commit, for
		// the block it changed (nothing left over from the restore that was abandoned half-way)
		probed := 0
		for _, k := range cutPoints(w.rng, len(file), stateLen, false) {
			if probed >= 6 {
				break
			}
			if k < len(file)/3 {
				continue
			}
			lg := &countLogger{}
			fresh := column.NewCollection(column.Options{Capacity: w.opts.Capacity, Vacuum: time.Hour, Writer: lg})
			for _, col := range w.cols {
				col.Create(fresh)
			}
			// restore and the following write run on one goroutine (transactions are pooled per processor)
			var rerr, ierr error
			var off uint32
			var chunks []uint32
			if !within(20*time.Second, func() {
				defer func() { recover() }()
				rerr = fresh.Restore(bytes.NewReader(file[:k]))
				if rerr == nil {
					return
				}
				lg.reset()
				off, ierr = fresh.Insert(func(r column.Row) error { return nil })
				chunks = lg.chunks()
			}) {
				continue
			}
			if rerr == nil {
				fresh.Close()
				continue
			}
			probed++
			if ierr == nil && (len(chunks) != 1 || chunks[0] != off>>14) {
				s.Failures = append(s.Failures, fmt.Sprintf("[C15] seed %d file %d: after a Restore that failed (cut %d/%d) an insert at offset %d emitted commits for blocks %v, want exactly one for block %d",
					*seed, i, k, len(file), off, chunks, off>>14))
			}
			fresh.Close()
		}
		s.Extra["writes_after_failed_restore"] += probed
		// the complete file must restore to the final state
		if o := w.tryRestore(file); o.err != nil || !sameDump(o.dump, allowed[len(allowed)-1]) {
			s.Failures = append(s.Failures, during+fmt.Sprintf("seed %d file %d: the complete file (%d transactions committed while the snapshot was taken, %d of them before the blocks were read) does not restore to the final state (err=%v)", *seed, i, head+tail, head, o.err))
		}
		if len(s.Samples) < 2 {
			s.Samples = append(s.Samples, fmt.Sprintf("file %d: %d bytes, state part %d, %d tail transactions, %d allowed states", i, len(file), stateLen, tail, len(allowed)))
		}
		// commit log files: a prefix delivers a prefix of the commits, each whole
		s.checkLogPrefixes(w, *seed, i, *every)
		w.close()
	}
	s.bigTrunc(*seed)
	b, _ := json.MarshalIndent(s, "", " ")
	os.WriteFile(filepath.Join(*out, "summary.json"), b, 0o644)
}

// bigTrunc: a snapshot whose blocks are larger than the compressor's buffer, so that compressed
// frames end exactly where a block's state ends (s2 emits a write larger than its block size as
// frames of its own).  Cuts at every frame boundary (+-2) and at random offsets: a prefix restores
// with an error or to the complete state, never to some of the blocks.
func (s *persistSummary) bigTrunc(seed uint64) {
	// the columns are written in creation order: once with a large column last in the block (the
	// frame then closes exactly at the block's end), once with a small one last
	s.bigTruncLayout(seed, []string{"v", "s1", "s2"}, 16384+1200)
	s.bigTruncLayout(seed, []string{"s1", "s2", "v"}, 16384+1200)
	// one full block whose last column alone spans several compressed frames: the stream's last
	// payload is cut in the middle of a frame
	s.bigTruncLayout(seed, []string{"v", "s1"}, 16384)
}

func (s *persistSummary) bigTruncLayout(seed uint64, order []string, rows int) {
	rng := NewRng(seed ^ 0xb17)
	lg := &countLogger{}
	mk := func() *column.Collection {
		c := column.NewCollection(column.Options{Vacuum: time.Hour, Capacity: 64, Writer: lg})
		for _, n := range order {
			if n == "v" {
				c.CreateColumn(n, column.ForInt64())
			} else {
				c.CreateColumn(n, column.ForString())
			}
		}
		return c
	}
	c := mk()
	defer c.Close()
	has := map[string]bool{}
	for _, n := range order {
		has[n] = true
	}
	c.Query(func(txn *column.Txn) error {
		for i := 0; i < rows; i++ {
			txn.Insert(func(r column.Row) error {
				b := make([]byte, 150)
				for j := range b {
					b[j] = byte('a' + rng.Intn(26))
				}
				r.SetString("s1", string(b))
				if has["s2"] {
					r.SetString("s2", string(b[:140]))
				}
				r.SetInt64("v", int64(i))
				return nil
			})
		}
		return nil
	})
	// what the collection holds: row count and a digest of every value
	digest := func(col *column.Collection) (n int, sum uint64) {
		col.Query(func(txn *column.Txn) error {
			readers := []interface{ Get() (string, bool) }{txn.String("s1")}
			if has["s2"] {
				readers = append(readers, txn.String("s2"))
			}
			v := txn.Int64("v")
			txn.Range(func(i uint32) {
				n++
				h := uint64(i) * 1099511628211
				for _, rd := range readers {
					if x, ok := rd.Get(); ok {
						for j := 0; j < len(x); j++ {
							h = (h ^ uint64(x[j])) * 1099511628211
						}
					} else {
						h ^= 0x9e3779b97f4a7c15
					}
				}
				if x, ok := v.Get(); ok {
					h = (h ^ uint64(x)) * 1099511628211
				}
				sum += h
			})
			return nil
		})
		return
	}
	wantN, wantSum := digest(c)
	var file bytes.Buffer
	if err := c.Snapshot(&file); err != nil {
		s.Failures = append(s.Failures, "big snapshot failed: "+err.Error())
		return
	}
	data := file.Bytes()
	set := map[int]bool{}
	bounds := s2Boundaries(data)
	for _, b := range bounds {
		for d := -2; d <= 2; d++ {
			if k := b + d; k >= 0 && k < len(data) {
				set[k] = true
			}
		}
	}
	for i := 0; i < 30; i++ {
		set[rng.Intn(len(data))] = true
	}
	// inside the last two compressed frames (the last block's columns, the commit log's tail)
	if n := len(bounds); n >= 2 {
		from := 0
		if n >= 3 {
			from = bounds[n-3]
		}
		for i := 0; i < 40; i++ {
			set[from+rng.Intn(len(data)-from)] = true
		}
	}
	var cuts []int
	for k := range set {
		cuts = append(cuts, k)
	}
	sort.Ints(cuts)
	for _, k := range cuts {
		d := mk()
		var err error
		var pan string
		ok := within(30*time.Second, func() {
			defer func() {
				if r := recover(); r != nil {
					pan = fmt.Sprint(r) + " @ " + shortStack()
				}
			}()
			err = d.Restore(bytes.NewReader(data[:k]))
			if err != nil {
				// same goroutine, hence the same pooled transaction: the next write's commits
				lg.reset()
				const off = 5 // a row of the first block (restored or not): the update changes block 0 only
				if ierr := d.QueryAt(off, func(r column.Row) error { r.SetInt64("v", 77); return nil }); ierr == nil {
					if chunks := lg.chunks(); len(chunks) != 1 || chunks[0] != off>>14 {
						s.Failures = append(s.Failures, fmt.Sprintf("[C15] seed %d big snapshot (columns %v) cut %d/%d: after the failed Restore an update of row %d emitted commits for blocks %v, want exactly one for block %d",
							seed, order, k, len(data), off, chunks, off>>14))
					}
				}
				s.Extra["writes_after_failed_restore"]++
			}
		})
		s.Cuts++
		desc := fmt.Sprintf("seed %d big snapshot (columns %v, %d rows, %d bytes, %d compressed frames) cut %d", seed, order, rows, len(data), len(bounds), k)
		switch {
		case !ok:
			s.Failures = append(s.Failures, desc+": Restore did not return")
		case pan != "":
			s.Failures = append(s.Failures, desc+": Restore panicked: "+pan)
		case err != nil:
			s.Errors++
		default:
			s.Clean++
			if n := d.Count(); n != rows {
				s.Failures = append(s.Failures, desc+fmt.Sprintf(": Restore of the truncated file succeeded with %d of %d rows (some of the blocks)", n, rows))
			} else if gn, gs := digest(d); gn != wantN || gs != wantSum {
				s.Failures = append(s.Failures, desc+fmt.Sprintf(": Restore of the truncated file succeeded with all %d rows but other values than the original's", n))
			}
		}
		if ok {
			d.Close()
		}
		if len(s.Failures) > 12 {
			break
		}
	}
	s.Files++
	s.Sizes = append(s.Sizes, len(data))
	s.Extra["big_snapshot_frames"] += len(bounds)
	s.Extra["big_snapshot_cuts"] += len(cuts)
}

func commitSig(c commit.Commit) string {
	var sb strings.Builder
	fmt.Fprintf(&sb, "%d/%d:", c.ID, c.Chunk)
	rd := commit.NewReader()
	for _, u := range c.Updates {
		fmt.Fprintf(&sb, "%s[", u.Column)
		rd.Range(u, c.Chunk, func(r *commit.Reader) {
			for r.Next() {
				fmt.Fprintf(&sb, "%d@%d=%x;", r.Type, r.Index(), r.Bytes())
			}
		})
		sb.WriteString("]")
	}
	return sb.String()
}

// s2Boundaries parses the chunk headers of an s2 / snappy framed stream (type byte + 3 length bytes)
func s2Boundaries(data []byte) []int {
	var out []int
	for pos := 0; pos+4 <= len(data); {
		l := int(data[pos+1]) | int(data[pos+2])<<8 | int(data[pos+3])<<16
		pos += 4 + l
		if pos <= len(data) {
			out = append(out, pos)
		}
	}
	return out
}

func (s *persistSummary) checkLogPrefixes(w *World, seed uint64, file int, every bool) {
	// write a log with a few multi-block commits
	lf := &rwBuffer{}
	lg := commit.Open(lf)
	var sigs []string
	if file%4 == 1 {
		// one commit larger than a compression block (1 MiB), so that it spans several frames
		b := commit.NewBuffer(1 << 21)
		b.Reset("big")
		for j := 0; j < 26; j++ {
			v := make([]byte, 60000)
			for x := range v {
				v[x] = byte(w.rng.U64())
			}
			b.PutBytes(commit.Put, uint32(j), v)
		}
		small := commit.NewBuffer(32)
		small.Reset("c")
		small.PutUint64(commit.Put, 3, 77)
		c := commit.Commit{ID: 999, Chunk: 0, Updates: []*commit.Buffer{small, b}}
		lg.Append(c)
		sigs = append(sigs, commitSig(c))
		s.Extra["large_commits"]++
	}
	for i := 0; i < 2+w.rng.Intn(4); i++ {
		for ch := 0; ch < 1+w.rng.Intn(2); ch++ {
			b := commit.NewBuffer(32)
			b.Reset("c")
			for _, o := range genOps(w.rng, 1+w.rng.Intn(20), false) {
				o.off = uint32(ch)<<14 | (o.off & 16383)
				writeOp(b, o)
			}
			c := commit.Commit{ID: uint64(1000 + 10*i + ch), Chunk: commit.Chunk(ch), Updates: []*commit.Buffer{b}}
			lg.Append(c)
			sigs = append(sigs, commitSig(c))
		}
	}
	data := lf.Bytes()
	cuts := cutPoints(w.rng, len(data), len(data)/2, every && len(data) < 200000)
	for _, bnd := range s2Boundaries(data) {
		for d := -2; d <= 2; d++ {
			if k := bnd + d; k >= 0 && k <= len(data) {
				cuts = append(cuts, k)
			}
		}
	}
	for _, k := range cuts {
		s.LogCuts++
		var got []string
		func() {
			defer func() {
				if r := recover(); r != nil {
					s.Failures = append(s.Failures, fmt.Sprintf("seed %d log %d cut %d/%d: Log.Range panicked: %v", seed, file, k, len(data), r))
				}
			}()
			commit.Open(bytes.NewReader(data[:k])).Range(func(c commit.Commit) error {
				got = append(got, commitSig(c))
				return nil
			})
		}()
		if len(got) > len(sigs) {
			s.Failures = append(s.Failures, fmt.Sprintf("seed %d log %d cut %d: more commits delivered than written", seed, file, k))
			continue
		}
		for j := range got {
			if got[j] != sigs[j] {
				s.Failures = append(s.Failures, fmt.Sprintf("seed %d log %d cut %d/%d: commit #%d delivered by Log.Range differs from the one written (partial or reordered commit)", seed, file, k, len(data), j))
				break
			}
		}
	}
}

// ---------------------------------------------------------------------------------------
// fault injection (C14)

type faultWriter struct {
	w        io.Writer
	failCall int // fail at this Write call (-1: never)
	failByte int // fail once this many bytes were accepted (-1: never)
	forever  bool
	calls, n int
	failed   int
	inCopy   *atomic.Bool // set by the s.copy hook: fail from the copy stage on (nil: not used)
	copySkip int          // bytes of the copy stage still accepted before the failure
}

var errDisk = errors.New("injected write failure")

// countLogger records the block of every commit appended to it
type countLogger struct {
	mu sync.Mutex
	cs []uint32
}

func (l *countLogger) Append(c commit.Commit) error {
	l.mu.Lock()
	l.cs = append(l.cs, uint32(c.Chunk))
	l.mu.Unlock()
	return nil
}
func (l *countLogger) reset() { l.mu.Lock(); l.cs = nil; l.mu.Unlock() }
func (l *countLogger) chunks() []uint32 {
	l.mu.Lock()
	defer l.mu.Unlock()
	return append([]uint32(nil), l.cs...)
}

// within runs f and reports whether it returned before the limit (a call that never returns is
// abandoned together with whatever it holds)
func within(limit time.Duration, f func()) bool {
	done := make(chan struct{})
	go func() { defer close(done); f() }()
	select {
	case <-done:
		return true
	case <-time.After(limit):
		return false
	}
}

// bigFault: a collection whose blocks hold more state than the compressor buffers (s2 hands 1 MiB
// blocks to the destination), so that a failing destination surfaces INSIDE the per-block part of
// Snapshot and not only at its final flush.  After every failed snapshot the collection must keep
// working: a transaction touching every block commits, a healthy snapshot restores.
func bigFault(s *persistSummary, cases *[]string, seed uint64, dense bool) {
	rng := NewRng(seed ^ 0xb16)
	c := column.NewCollection(column.Options{Vacuum: time.Hour, Capacity: 64})
	defer c.Close()
	c.CreateColumn("v", column.ForInt64())
	c.CreateColumn("s", column.ForString())
	const rows = 16384 + 16384 + 500
	c.Query(func(txn *column.Txn) error {
		for i := 0; i < rows; i++ {
			txn.Insert(func(r column.Row) error {
				b := make([]byte, 90+rng.Intn(40))
				for j := range b {
					b[j] = byte('a' + rng.Intn(26))
				}
				r.SetInt64("v", int64(i))
				r.SetString("s", string(b))
				return nil
			})
		}
		return nil
	})
	healthy := &faultWriter{w: io.Discard, failCall: -1, failByte: -1}
	if err := c.Snapshot(healthy); err != nil {
		s.Failures = append(s.Failures, "big collection: healthy snapshot failed: "+err.Error())
		return
	}
	type plan struct {
		call, byt int
		forever   bool
	}
	var plans []plan
	for k := 0; k < healthy.calls; k++ {
		if dense || k < 4 || k >= healthy.calls-2 || rng.Chance(30) {
			plans = append(plans, plan{k, -1, k%2 == 0})
		}
	}
	nb := 6
	if dense {
		nb = 60
	}
	for j := 0; j < nb; j++ {
		plans = append(plans, plan{-1, rng.Intn(healthy.n + 1), j%2 == 0})
	}
	sumV := func(col *column.Collection) (n int, sum int64) {
		col.Query(func(txn *column.Txn) error {
			v := txn.Int64("v")
			txn.Range(func(uint32) { x, _ := v.Get(); sum += x; n++ })
			return nil
		})
		return
	}
	rounds := 0
	for _, p := range plans {
		fw := &faultWriter{w: io.Discard, failCall: p.call, failByte: p.byt, forever: p.forever}
		var err error
		desc := fmt.Sprintf("seed %d big collection (%d rows, %d bytes, %d write calls) fail(call=%d byte=%d forever=%v)", seed, rows, healthy.n, healthy.calls, p.call, p.byt, p.forever)
		if !within(60*time.Second, func() { err = c.Snapshot(fw) }) {
			s.Failures = append(s.Failures, desc+": Snapshot never returned")
			return
		}
		s.Cuts++
		if fw.failed > 0 && err == nil {
			s.Failures = append(s.Failures, desc+": the writer failed but Snapshot returned nil")
		}
		if fw.failed == 0 && err != nil {
			s.Failures = append(s.Failures, desc+": Snapshot failed although the writer never did: "+err.Error())
		}
		rec := c.VerifRecording()
		*cases = append(*cases, fmt.Sprintf("(%v, %v, %v)", fw.failed > 0, err != nil, rec))
		if err != nil {
			s.Errors++
		} else {
			s.Clean++
		}
		// transactions commit normally, in every block: several columns per row, several transactions
		probe := []uint32{3, 16384 + 5, 32768 + 7}
		for round := 0; round < 3; round++ {
			round := round
			rounds++
			if !within(20*time.Second, func() {
				c.Query(func(txn *column.Txn) error {
					for _, off := range probe {
						txn.QueryAt(off, func(r column.Row) error {
							r.MergeInt64("v", 1)
							r.SetString("s", fmt.Sprintf("after-%d-%d", rounds, off))
							return nil
						})
					}
					return nil
				})
			}) {
				s.Failures = append(s.Failures, desc+": a transaction after the failed snapshot never committed")
				return
			}
			for _, off := range probe {
				var v int64
				var str string
				c.QueryAt(off, func(r column.Row) error { v, _ = r.Int64("v"); str, _ = r.String("s"); return nil })
				if want := int64(off) + int64(rounds); v != want || str != fmt.Sprintf("after-%d-%d", rounds, off) {
					s.Failures = append(s.Failures, desc+fmt.Sprintf(": transaction %d after the failed snapshot did not apply what it wrote: row %d holds v=%d s=%q, want v=%d s=%q", round, off, v, str, want, fmt.Sprintf("after-%d-%d", rounds, off)))
				}
			}
		}
		var good bytes.Buffer
		var gerr error
		if !within(60*time.Second, func() { gerr = c.Snapshot(&good) }) {
			s.Failures = append(s.Failures, desc+": a later snapshot to a healthy writer never returned")
			return
		}
		if gerr != nil {
			s.Failures = append(s.Failures, desc+": a later snapshot to a healthy writer failed: "+gerr.Error())
			continue
		}
		d := column.NewCollection(column.Options{Vacuum: time.Hour, Capacity: 64})
		d.CreateColumn("v", column.ForInt64())
		d.CreateColumn("s", column.ForString())
		rerr := d.Restore(&good)
		n1, s1 := sumV(c)
		n2, s2 := sumV(d)
		d.Close()
		if rerr != nil || n1 != n2 || s1 != s2 {
			s.Failures = append(s.Failures, desc+fmt.Sprintf(": a later healthy snapshot does not restore to the collection (err=%v, %d/%d rows, sums %d/%d)", rerr, n2, n1, s2, s1))
		}
		if len(s.Failures) > 12 {
			break
		}
	}
	s.Files++
	s.Sizes = append(s.Sizes, healthy.n)
	s.Extra["write_calls"] += healthy.calls
	s.Extra["big_collection_plans"] = len(plans)
}

func (f *faultWriter) Write(p []byte) (int, error) {
	call := f.calls
	f.calls++
	if f.inCopy != nil && f.inCopy.Load() {
		// the destination starts failing once the snapshot has reached its copy stage (the recorded
		// commits): after skip more bytes, once or forever
		if f.copySkip > 0 && len(p) <= f.copySkip {
			f.copySkip -= len(p)
		} else if f.forever || f.failed == 0 {
			f.failed++
			return 0, errDisk
		}
	}
	trip := (f.failCall >= 0 && (call == f.failCall || (f.forever && call > f.failCall))) ||
		(f.failByte >= 0 && f.n+len(p) > f.failByte && (f.forever || f.failed == 0))
	if trip {
		f.failed++
		k := 0
		if f.failByte >= 0 && f.failByte > f.n {
			k = f.failByte - f.n
			if k > len(p) {
				k = len(p)
			}
			f.w.Write(p[:k])
			f.n += k
		}
		return k, errDisk
	}
	f.n += len(p)
	return f.w.Write(p)
}

func openFDs() int {
	d, _ := os.ReadDir("/proc/self/fd")
	return len(d)
}

func tempLogs() int {
	m, _ := filepath.Glob(filepath.Join(os.TempDir(), "column_*.log"))
	return len(m)
}

func cmdFault(args []string) {
	fs := flag.NewFlagSet("fault", flag.ExitOnError)
	seed := fs.Uint64("seed", 1, "seed")
	n := fs.Int("n", 3, "collections")
	dense := fs.Bool("every", false, "every call index and a dense sweep of byte budgets")
	out := fs.String("out", "", "output directory")
	fs.Parse(args)
	os.MkdirAll(*out, 0o755)
	tmp, _ := os.MkdirTemp("", "verif-fault")
	os.Setenv("TMPDIR", tmp)
	defer os.RemoveAll(tmp)
	s := persistSummary{Engine: "fault", Exhaustive: *dense, Extra: map[string]int{}}
	stats := newStats()
	var cases []string
	for i := 0; i < *n; i++ {
		prof := persistProfile
		if i%3 == 0 {
			prof.SeedPct = 0 // single block (or empty)
		}
		w := newWorld(*seed, i, prof, stats, false)
		ntx := 0
		if i%3 != 0 || i > 0 {
			ntx = 3 + w.rng.Intn(4)
		}
		for t := 0; t < ntx; t++ {
			w.runTxn()
		}
		// a healthy run, with one transaction committing during the snapshot: sizes the sweep
		healthy := &faultWriter{w: io.Discard, failCall: -1, failByte: -1}
		tailTxn := func() {
			column.VerifHook.Store(func(point string, chunk uint32) {
				if point == "s.close" {
					w.runTxn()
				}
			})
		}
		tailTxn()
		if err := w.coll.Snapshot(healthy); err != nil {
			s.Failures = append(s.Failures, fmt.Sprintf("collection %d: healthy snapshot failed: %v", i, err))
		}
		removeHook()
		fd0, tl0 := openFDs(), tempLogs()
		type plan struct {
			call, byt int
			forever   bool
		}
		var plans []plan
		if *dense {
			for k := 0; k < healthy.calls; k++ {
				plans = append(plans, plan{k, -1, k%2 == 0})
			}
			step := healthy.n/400 + 1
			for b := 0; b < healthy.n; b += step {
				plans = append(plans, plan{-1, b, b%2 == 0})
			}
		} else {
			for k := 0; k < healthy.calls; k++ {
				if k < 6 || k >= healthy.calls-4 || w.rng.Chance(30) {
					plans = append(plans, plan{k, -1, w.rng.Bool()})
				}
			}
			for j := 0; j < 40; j++ {
				plans = append(plans, plan{-1, w.rng.Intn(healthy.n + 1), w.rng.Bool()})
			}
			for d := 1; d <= 12; d++ { // the last bytes: the commit-log tail
				plans = append(plans, plan{-1, healthy.n - d, false})
			}
		}
		for _, p := range plans {
			fw := &faultWriter{w: io.Discard, failCall: p.call, failByte: p.byt, forever: p.forever}
			tailTxn()
			err := w.coll.Snapshot(fw)
			removeHook()
			s.Cuts++
			desc := fmt.Sprintf("seed %d collection %d fail(call=%d byte=%d forever=%v)", *seed, i, p.call, p.byt, p.forever)
			if fw.failed > 0 && err == nil {
				s.Failures = append(s.Failures, desc+": the writer failed but Snapshot returned nil")
			}
			if fw.failed == 0 && err != nil {
				s.Failures = append(s.Failures, desc+": Snapshot failed although the writer never did: "+err.Error())
			}
			rec := w.coll.VerifRecording()
			if rec {
				s.Failures = append(s.Failures, desc+": the snapshot recorder is still installed after Snapshot returned")
			}
			cases = append(cases, fmt.Sprintf("(%v, %v, %v)", fw.failed > 0, err != nil, rec))
			if err != nil {
				s.Errors++
			} else {
				s.Clean++
			}
			// the collection keeps working: a transaction commits, a healthy snapshot restores
			if s.Cuts%7 == 0 || len(s.Failures) > 0 {
				w.runTxn()
				var good bytes.Buffer
				if err := w.coll.Snapshot(&good); err != nil {
					s.Failures = append(s.Failures, desc+": a later snapshot to a healthy writer failed: "+err.Error())
				} else if o := w.tryRestore(good.Bytes()); o.err != nil || !sameDump(o.dump, w.dumpOf(w.coll)) {
					s.Failures = append(s.Failures, desc+fmt.Sprintf(": a later healthy snapshot does not restore to the collection (err=%v)", o.err))
				}
			}
			if len(s.Failures) > 12 {
				break
			}
		}
		// the destination fails in the COPY stage - after the state was written, while the commits
		// recorded during the snapshot are handed over; a transaction that certainly commits runs
		// while the recorder is installed, so there is something to copy
		for k := 0; k < 14 && len(s.Failures) <= 12; k++ {
			flag := &atomic.Bool{}
			fw := &faultWriter{w: io.Discard, failCall: -1, failByte: -1, forever: k%2 == 0, inCopy: flag, copySkip: []int{0, 0, 1, 5, 30}[k%5]}
			column.VerifHook.Store(func(point string, chunk uint32) {
				switch point {
				case "s.close":
					w.coll.Insert(func(r column.Row) error { return nil })
				case "s.copy":
					flag.Store(true)
				}
			})
			err := w.coll.Snapshot(fw)
			removeHook()
			s.Cuts++
			s.Extra["copy_stage_plans"]++
			desc := fmt.Sprintf("seed %d collection %d fail(in the copy stage after %d bytes, forever=%v)", *seed, i, []int{0, 0, 1, 5, 30}[k%5], k%2 == 0)
			if fw.failed > 0 && err == nil {
				s.Failures = append(s.Failures, desc+": the writer failed but Snapshot returned nil")
			}
			if fw.failed == 0 && err != nil {
				s.Failures = append(s.Failures, desc+": Snapshot failed although the writer never did: "+err.Error())
			}
			if fw.failed > 0 {
				s.Extra["copy_stage_failures"]++
			}
			rec := w.coll.VerifRecording()
			if rec {
				s.Failures = append(s.Failures, desc+": the snapshot recorder is still installed after Snapshot returned")
			}
			cases = append(cases, fmt.Sprintf("(%v, %v, %v)", fw.failed > 0, err != nil, rec))
			if err != nil {
				s.Errors++
			} else {
				s.Clean++
			}
		}
		// a Snapshot refused because another one is in progress (here: attempted from inside the first
		// one, right after its recorder was installed) fails and leaves nothing behind either
		inProbe := false
		column.VerifHook.Store(func(point string, chunk uint32) {
			if point == "s.open" && !inProbe {
				inProbe = true
				for k := 0; k < 12; k++ {
					var sink bytes.Buffer
					if err := w.coll.Snapshot(&sink); err == nil {
						s.Failures = append(s.Failures, fmt.Sprintf("seed %d collection %d: a Snapshot started while another one was in progress succeeded", *seed, i))
					}
					s.Extra["refused_snapshots"]++
				}
			}
		})
		{
			var sink bytes.Buffer
			if err := w.coll.Snapshot(&sink); err != nil {
				s.Failures = append(s.Failures, fmt.Sprintf("seed %d collection %d: a healthy snapshot failed after refusing concurrent ones: %v", *seed, i, err))
			}
		}
		removeHook()
		// leaks: descriptors and temporary files, after the collector had its chance
		for r := 0; r < 60; r++ {
			var sink bytes.Buffer
			w.coll.Snapshot(&sink)
		}
		runtimeGC()
		if fd1 := openFDs(); fd1 > fd0+8 {
			s.Failures = append(s.Failures, fmt.Sprintf("seed %d collection %d: open descriptors grew from %d to %d over %d snapshots", *seed, i, fd0, fd1, len(plans)+60))
		}
		if tl1 := tempLogs(); tl1 > tl0 {
			s.Failures = append(s.Failures, fmt.Sprintf("seed %d collection %d: %d temporary log files left behind", *seed, i, tl1-tl0))
		}
		s.Files++
		s.Sizes = append(s.Sizes, healthy.n)
		s.Extra["write_calls"] += healthy.calls
		w.close()
	}
	bigFault(&s, &cases, *seed, *dense)
	if len(cases) > 0 {
		txt := "From Coq Require Import List Bool.\nFrom ColumnV Require Import Snap.\nImport ListNotations.\n" +
			"Definition M := Eval vm_compute in snap_mismatches [\n " + strings.Join(cases, ";\n ") + "].\nPrint M.\n"
		os.WriteFile(filepath.Join(*out, "snap_cases.v"), []byte(txt), 0o644)
	}
	s.Samples = append(s.Samples, fmt.Sprintf("%d fault plans", s.Cuts))
	b, _ := json.MarshalIndent(s, "", " ")
	os.WriteFile(filepath.Join(*out, "summary.json"), b, 0o644)
}
