package main

// Persistence engines.
//   trunc (C13): every prefix of a snapshot (state + commit-log tail) and of a commit log must
//                restore to a commit boundary or fail - never panic, hang or apply part of a commit.
//   fault (C14): a destination writer failing at any call / byte makes Snapshot fail; the
//                collection stays usable and nothing leaks.

import (
	"bytes"
	"encoding/json"
	"errors"
	"flag"
	"fmt"
	"io"
	"os"
	"path/filepath"
	"sort"
	"strings"
	"time"

	"github.com/kelindar/column"
	"github.com/kelindar/column/commit"
)

type dumpT struct {
	rows  map[uint32]rowObs
	count int
}

func (w *World) dumpOf(c *column.Collection) dumpT {
	rows, _, count := w.dump(c)
	return dumpT{rows, count}
}

func sameDump(a, b dumpT) bool {
	if a.count != b.count || len(a.rows) != len(b.rows) {
		return false
	}
	for k, v := range a.rows {
		if o, ok := b.rows[k]; !ok || !v.equal(o) {
			return false
		}
	}
	return true
}

// mergeDump: rows of blocks <= upto from b, the others from a (a transaction applied up to a block)
func mergeDump(a, b dumpT, upto uint32) dumpT {
	out := dumpT{rows: map[uint32]rowObs{}}
	for k, v := range a.rows {
		if k>>14 > upto {
			out.rows[k] = v
		}
	}
	for k, v := range b.rows {
		if k>>14 <= upto {
			out.rows[k] = v
		}
	}
	out.count = len(out.rows)
	return out
}

type countingWriter struct {
	w     io.Writer
	n     int
	calls int
}

func (c *countingWriter) Write(p []byte) (int, error) {
	c.calls++
	c.n += len(p)
	return c.w.Write(p)
}

var persistProfile = Profile{Name: "persist", Txns: 8, KeyedPct: 0, SeedPct: 50, SchemaPct: 0, AbortPct: 10, FilterPct: 6,
	FailInsPct: 3, MaxStmts: 6, Long: true}

// snapshotWithTail takes a snapshot and runs `tail` transactions from inside the snapshot (at the
// point where every block has been written and the recorder is still installed), so that the
// file ends with a commit log.  Returns the file, the length of its state part, and the dumps
// the file may legitimately restore to.
func (w *World) snapshotWithTail(tail int) (file []byte, stateLen int, allowed []dumpT, err error) {
	var buf bytes.Buffer
	cw := &countingWriter{w: &buf}
	d0 := w.dumpOf(w.coll)
	allowed = append(allowed, d0)
	prev := d0
	column.VerifHook.Store(func(point string, chunk uint32) {
		switch point {
		case "s.close":
			for i := 0; i < tail; i++ {
				before := len(w.logger.commits)
				w.runTxn() // observe() drains the logger; collect the blocks from the stats instead
				_ = before
				cur := w.dumpOf(w.coll)
				// the transaction may have produced several commits (one per block, ascending):
				// every block-wise partial application is a commit boundary
				blocks := map[uint32]bool{}
				for k := range cur.rows {
					blocks[k>>14] = true
				}
				for k := range prev.rows {
					blocks[k>>14] = true
				}
				var bs []uint32
				for b := range blocks {
					bs = append(bs, b)
				}
				sort.Slice(bs, func(i, j int) bool { return bs[i] < bs[j] })
				for _, b := range bs {
					allowed = append(allowed, mergeDump(prev, cur, b))
				}
				allowed = append(allowed, cur)
				prev = cur
			}
		case "s.copy":
			stateLen = cw.n
		}
	})
	err = w.coll.Snapshot(cw)
	removeHook()
	return buf.Bytes(), stateLen, allowed, err
}

type restoreOutcome struct {
	err      error
	panicked string
	hung     bool
	dump     dumpT
}

func (w *World) tryRestore(data []byte) restoreOutcome {
	done := make(chan restoreOutcome, 1)
	go func() {
		var out restoreOutcome
		defer func() {
			if r := recover(); r != nil {
				out.panicked = fmt.Sprint(r) + " @ " + shortStack()
			}
			done <- out
		}()
		fresh := column.NewCollection(column.Options{Capacity: w.opts.Capacity, Vacuum: time.Hour})
		defer fresh.Close()
		for _, col := range w.cols {
			col.Create(fresh)
		}
		for _, cp := range w.comps {
			w.createCompSilent(fresh, cp)
		}
		out.err = fresh.Restore(bytes.NewReader(data))
		if out.err == nil {
			out.dump = w.dumpOf(fresh)
		}
	}()
	select {
	case o := <-done:
		return o
	case <-time.After(20 * time.Second):
		return restoreOutcome{hung: true}
	}
}

type persistSummary struct {
	Engine     string         `json:"engine"`
	Files      int            `json:"files"`
	Cuts       int            `json:"cuts"`
	Errors     int            `json:"restores_failed_cleanly"`
	Clean      int            `json:"restores_succeeded"`
	LogCuts    int            `json:"log_cuts"`
	Exhaustive bool           `json:"exhaustive"`
	Failures   []string       `json:"failures"`
	Sizes      []int          `json:"file_sizes"`
	Samples    []string       `json:"samples"`
	Extra      map[string]int `json:"extra"`
}

func cutPoints(rng *Rng, n, stateLen int, every bool) []int {
	set := map[int]bool{}
	add := func(k int) {
		if k >= 0 && k <= n {
			set[k] = true
		}
	}
	if every {
		for k := 0; k <= n; k++ {
			add(k)
		}
	} else {
		for k := 0; k <= 24; k++ {
			add(k)
		}
		for d := -6; d <= 6; d++ {
			add(stateLen + d)
			add(n + d)
		}
		for k := n - 200; k <= n; k++ {
			add(k)
		}
		for i := 0; i < 120; i++ {
			add(rng.Intn(n + 1))
		}
	}
	var out []int
	for k := range set {
		out = append(out, k)
	}
	sort.Ints(out)
	return out
}

func cmdTrunc(args []string) {
	fs := flag.NewFlagSet("trunc", flag.ExitOnError)
	seed := fs.Uint64("seed", 1, "seed")
	n := fs.Int("n", 6, "number of snapshot files")
	every := fs.Bool("every-byte", false, "cut at every byte")
	out := fs.String("out", "", "output directory")
	fs.Parse(args)
	os.MkdirAll(*out, 0o755)
	s := persistSummary{Engine: "trunc", Exhaustive: *every, Extra: map[string]int{}}
	stats := newStats()
	for i := 0; i < *n; i++ {
		w := newWorld(*seed, i, persistProfile, stats, false)
		for t := 0; t < 4+w.rng.Intn(5); t++ {
			w.runTxn()
		}
		tail := w.rng.Intn(4)
		file, stateLen, allowed, err := w.snapshotWithTail(tail)
		if err != nil {
			s.Failures = append(s.Failures, fmt.Sprintf("file %d: snapshot failed: %v", i, err))
			w.close()
			continue
		}
		s.Files++
		s.Sizes = append(s.Sizes, len(file))
		s.Extra["tail_txns"] += tail
		last := -1
		for _, k := range cutPoints(w.rng, len(file), stateLen, *every) {
			o := w.tryRestore(file[:k])
			s.Cuts++
			switch {
			case o.hung:
				s.Failures = append(s.Failures, fmt.Sprintf("seed %d file %d cut %d/%d: Restore did not return", *seed, i, k, len(file)))
			case o.panicked != "":
				s.Failures = append(s.Failures, fmt.Sprintf("seed %d file %d cut %d/%d: Restore panicked: %s", *seed, i, k, len(file), o.panicked))
			case o.err != nil:
				s.Errors++
			default:
				s.Clean++
				at := -1
				for j, a := range allowed {
					if sameDump(a, o.dump) {
						at = j
					}
				}
				if at < 0 {
					s.Failures = append(s.Failures, fmt.Sprintf("seed %d file %d cut %d/%d (state part %d bytes): Restore succeeded with a state that is no commit boundary of the original (%d rows, count %d)",
						*seed, i, k, len(file), stateLen, len(o.dump.rows), o.dump.count))
				} else if at < last {
					s.Failures = append(s.Failures, fmt.Sprintf("seed %d file %d cut %d: a longer prefix restored an older state", *seed, i, k))
				} else {
					last = at
				}
				if k < stateLen {
					s.Failures = append(s.Failures, fmt.Sprintf("seed %d file %d cut %d inside the %d-byte state part restored without error", *seed, i, k, stateLen))
				}
			}
		}
		// the complete file must restore to the final state
		if o := w.tryRestore(file); o.err != nil || !sameDump(o.dump, allowed[len(allowed)-1]) {
			s.Failures = append(s.Failures, fmt.Sprintf("seed %d file %d: the complete file does not restore to the final state (err=%v)", *seed, i, o.err))
		}
		if len(s.Samples) < 2 {
			s.Samples = append(s.Samples, fmt.Sprintf("file %d: %d bytes, state part %d, %d tail transactions, %d allowed states", i, len(file), stateLen, tail, len(allowed)))
		}
		// commit log files: a prefix delivers a prefix of the commits, each whole
		s.checkLogPrefixes(w, *seed, i, *every)
		w.close()
	}
	b, _ := json.MarshalIndent(s, "", " ")
	os.WriteFile(filepath.Join(*out, "summary.json"), b, 0o644)
}

func commitSig(c commit.Commit) string {
	var sb strings.Builder
	fmt.Fprintf(&sb, "%d/%d:", c.ID, c.Chunk)
	rd := commit.NewReader()
	for _, u := range c.Updates {
		fmt.Fprintf(&sb, "%s[", u.Column)
		rd.Range(u, c.Chunk, func(r *commit.Reader) {
			for r.Next() {
				fmt.Fprintf(&sb, "%d@%d=%x;", r.Type, r.Index(), r.Bytes())
			}
		})
		sb.WriteString("]")
	}
	return sb.String()
}

// s2Boundaries parses the chunk headers of an s2 / snappy framed stream (type byte + 3 length bytes)
func s2Boundaries(data []byte) []int {
	var out []int
	for pos := 0; pos+4 <= len(data); {
		l := int(data[pos+1]) | int(data[pos+2])<<8 | int(data[pos+3])<<16
		pos += 4 + l
		if pos <= len(data) {
			out = append(out, pos)
		}
	}
	return out
}

func (s *persistSummary) checkLogPrefixes(w *World, seed uint64, file int, every bool) {
	// write a log with a few multi-block commits
	lf := &rwBuffer{}
	lg := commit.Open(lf)
	var sigs []string
	if file%4 == 1 {
		// one commit larger than a compression block (1 MiB), so that it spans several frames
		b := commit.NewBuffer(1 << 21)
		b.Reset("big")
		for j := 0; j < 26; j++ {
			v := make([]byte, 60000)
			for x := range v {
				v[x] = byte(w.rng.U64())
			}
			b.PutBytes(commit.Put, uint32(j), v)
		}
		small := commit.NewBuffer(32)
		small.Reset("c")
		small.PutUint64(commit.Put, 3, 77)
		c := commit.Commit{ID: 999, Chunk: 0, Updates: []*commit.Buffer{small, b}}
		lg.Append(c)
		sigs = append(sigs, commitSig(c))
		s.Extra["large_commits"]++
	}
	for i := 0; i < 2+w.rng.Intn(4); i++ {
		for ch := 0; ch < 1+w.rng.Intn(2); ch++ {
			b := commit.NewBuffer(32)
			b.Reset("c")
			for _, o := range genOps(w.rng, 1+w.rng.Intn(20), false) {
				o.off = uint32(ch)<<14 | (o.off & 16383)
				writeOp(b, o)
			}
			c := commit.Commit{ID: uint64(1000 + 10*i + ch), Chunk: commit.Chunk(ch), Updates: []*commit.Buffer{b}}
			lg.Append(c)
			sigs = append(sigs, commitSig(c))
		}
	}
	data := lf.Bytes()
	cuts := cutPoints(w.rng, len(data), len(data)/2, every && len(data) < 200000)
	for _, bnd := range s2Boundaries(data) {
		for d := -2; d <= 2; d++ {
			if k := bnd + d; k >= 0 && k <= len(data) {
				cuts = append(cuts, k)
			}
		}
	}
	for _, k := range cuts {
		s.LogCuts++
		var got []string
		func() {
			defer func() {
				if r := recover(); r != nil {
					s.Failures = append(s.Failures, fmt.Sprintf("seed %d log %d cut %d/%d: Log.Range panicked: %v", seed, file, k, len(data), r))
				}
			}()
			commit.Open(bytes.NewReader(data[:k])).Range(func(c commit.Commit) error {
				got = append(got, commitSig(c))
				return nil
			})
		}()
		if len(got) > len(sigs) {
			s.Failures = append(s.Failures, fmt.Sprintf("seed %d log %d cut %d: more commits delivered than written", seed, file, k))
			continue
		}
		for j := range got {
			if got[j] != sigs[j] {
				s.Failures = append(s.Failures, fmt.Sprintf("seed %d log %d cut %d/%d: commit #%d delivered by Log.Range differs from the one written (partial or reordered commit)", seed, file, k, len(data), j))
				break
			}
		}
	}
}

// ---------------------------------------------------------------------------------------
// fault injection (C14)

type faultWriter struct {
	w         io.Writer
	failCall  int // fail at this Write call (-1: never)
	failByte  int // fail once this many bytes were accepted (-1: never)
	forever   bool
	calls, n  int
	failed    int
}

var errDisk = errors.New("injected write failure")

func (f *faultWriter) Write(p []byte) (int, error) {
	call := f.calls
	f.calls++
	trip := (f.failCall >= 0 && (call == f.failCall || (f.forever && call > f.failCall))) ||
		(f.failByte >= 0 && f.n+len(p) > f.failByte && (f.forever || f.failed == 0))
	if trip {
		f.failed++
		k := 0
		if f.failByte >= 0 && f.failByte > f.n {
			k = f.failByte - f.n
			if k > len(p) {
				k = len(p)
			}
			f.w.Write(p[:k])
			f.n += k
		}
		return k, errDisk
	}
	f.n += len(p)
	return f.w.Write(p)
}

func openFDs() int {
	d, _ := os.ReadDir("/proc/self/fd")
	return len(d)
}

func tempLogs() int {
	m, _ := filepath.Glob(filepath.Join(os.TempDir(), "column_*.log"))
	return len(m)
}

func cmdFault(args []string) {
	fs := flag.NewFlagSet("fault", flag.ExitOnError)
	seed := fs.Uint64("seed", 1, "seed")
	n := fs.Int("n", 3, "collections")
	dense := fs.Bool("every", false, "every call index and a dense sweep of byte budgets")
	out := fs.String("out", "", "output directory")
	fs.Parse(args)
	os.MkdirAll(*out, 0o755)
	tmp, _ := os.MkdirTemp("", "verif-fault")
	os.Setenv("TMPDIR", tmp)
	defer os.RemoveAll(tmp)
	s := persistSummary{Engine: "fault", Exhaustive: *dense, Extra: map[string]int{}}
	stats := newStats()
	var cases []string
	for i := 0; i < *n; i++ {
		prof := persistProfile
		if i%3 == 0 {
			prof.SeedPct = 0 // single block (or empty)
		}
		w := newWorld(*seed, i, prof, stats, false)
		ntx := 0
		if i%3 != 0 || i > 0 {
			ntx = 3 + w.rng.Intn(4)
		}
		for t := 0; t < ntx; t++ {
			w.runTxn()
		}
		// a healthy run, with one transaction committing during the snapshot: sizes the sweep
		healthy := &faultWriter{w: io.Discard, failCall: -1, failByte: -1}
		tailTxn := func() {
			column.VerifHook.Store(func(point string, chunk uint32) {
				if point == "s.close" {
					w.runTxn()
				}
			})
		}
		tailTxn()
		if err := w.coll.Snapshot(healthy); err != nil {
			s.Failures = append(s.Failures, fmt.Sprintf("collection %d: healthy snapshot failed: %v", i, err))
		}
		removeHook()
		fd0, tl0 := openFDs(), tempLogs()
		type plan struct {
			call, byt int
			forever   bool
		}
		var plans []plan
		if *dense {
			for k := 0; k < healthy.calls; k++ {
				plans = append(plans, plan{k, -1, k%2 == 0})
			}
			step := healthy.n/400 + 1
			for b := 0; b < healthy.n; b += step {
				plans = append(plans, plan{-1, b, b%2 == 0})
			}
		} else {
			for k := 0; k < healthy.calls; k++ {
				if k < 6 || k >= healthy.calls-4 || w.rng.Chance(30) {
					plans = append(plans, plan{k, -1, w.rng.Bool()})
				}
			}
			for j := 0; j < 40; j++ {
				plans = append(plans, plan{-1, w.rng.Intn(healthy.n + 1), w.rng.Bool()})
			}
			for d := 1; d <= 12; d++ { // the last bytes: the commit-log tail
				plans = append(plans, plan{-1, healthy.n - d, false})
			}
		}
		for _, p := range plans {
			fw := &faultWriter{w: io.Discard, failCall: p.call, failByte: p.byt, forever: p.forever}
			tailTxn()
			err := w.coll.Snapshot(fw)
			removeHook()
			s.Cuts++
			desc := fmt.Sprintf("seed %d collection %d fail(call=%d byte=%d forever=%v)", *seed, i, p.call, p.byt, p.forever)
			if fw.failed > 0 && err == nil {
				s.Failures = append(s.Failures, desc+": the writer failed but Snapshot returned nil")
			}
			if fw.failed == 0 && err != nil {
				s.Failures = append(s.Failures, desc+": Snapshot failed although the writer never did: "+err.Error())
			}
			rec := w.coll.VerifRecording()
			if rec {
				s.Failures = append(s.Failures, desc+": the snapshot recorder is still installed after Snapshot returned")
			}
			cases = append(cases, fmt.Sprintf("(%v, %v, %v)", fw.failed > 0, err != nil, rec))
			if err != nil {
				s.Errors++
			} else {
				s.Clean++
			}
			// the collection keeps working: a transaction commits, a healthy snapshot restores
			if s.Cuts%7 == 0 || len(s.Failures) > 0 {
				w.runTxn()
				var good bytes.Buffer
				if err := w.coll.Snapshot(&good); err != nil {
					s.Failures = append(s.Failures, desc+": a later snapshot to a healthy writer failed: "+err.Error())
				} else if o := w.tryRestore(good.Bytes()); o.err != nil || !sameDump(o.dump, w.dumpOf(w.coll)) {
					s.Failures = append(s.Failures, desc+fmt.Sprintf(": a later healthy snapshot does not restore to the collection (err=%v)", o.err))
				}
			}
			if len(s.Failures) > 12 {
				break
			}
		}
		// leaks: descriptors and temporary files, after the collector had its chance
		for r := 0; r < 60; r++ {
			var sink bytes.Buffer
			w.coll.Snapshot(&sink)
		}
		runtimeGC()
		if fd1 := openFDs(); fd1 > fd0+8 {
			s.Failures = append(s.Failures, fmt.Sprintf("seed %d collection %d: open descriptors grew from %d to %d over %d snapshots", *seed, i, fd0, fd1, len(plans)+60))
		}
		if tl1 := tempLogs(); tl1 > tl0 {
			s.Failures = append(s.Failures, fmt.Sprintf("seed %d collection %d: %d temporary log files left behind", *seed, i, tl1-tl0))
		}
		s.Files++
		s.Sizes = append(s.Sizes, healthy.n)
		s.Extra["write_calls"] += healthy.calls
		w.close()
	}
	if len(cases) > 0 {
		txt := "From Coq Require Import List Bool.\nFrom ColumnV Require Import Snap.\nImport ListNotations.\n" +
			"Definition M := Eval vm_compute in snap_mismatches [\n " + strings.Join(cases, ";\n ") + "].\nPrint M.\n"
		os.WriteFile(filepath.Join(*out, "snap_cases.v"), []byte(txt), 0o644)
	}
	s.Samples = append(s.Samples, fmt.Sprintf("%d fault plans", s.Cuts))
	b, _ := json.MarshalIndent(s, "", " ")
	os.WriteFile(filepath.Join(*out, "summary.json"), b, 0o644)
}
