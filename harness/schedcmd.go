package main

import (
	"encoding/json"
	"flag"
	"fmt"
	"os"
	"path/filepath"
	"strings"
	"time"
)

type schedViolation struct {
	Property string `json:"property"`
	What     string `json:"what"`
	Scenario string `json:"scenario"`
	CfgSeed  uint64 `json:"cfg_seed"`
	Choices  []int  `json:"choices"`
	Desc     string `json:"desc"`
	Trace    string `json:"trace"`
}

type schedSummary struct {
	Engine     string            `json:"engine"`
	Runs       int               `json:"runs"`
	Distinct   int               `json:"distinct_traces"`
	Steps      int               `json:"steps"`
	Blocked    int               `json:"blocked_steps"`
	Exhaustive map[string]bool   `json:"exhaustive_configs"`
	ByScenario map[string]int    `json:"runs_by_scenario"`
	Violations []schedViolation  `json:"violations"`
	Known      map[string]string `json:"known"`
	Samples    []string          `json:"samples"`
	TraceFiles []string          `json:"trace_files"`
	ConcFiles  []string          `json:"conc_files"`
	ConcRuns   int               `json:"conc_runs"`
	LockTraces int               `json:"lock_traces"`
	Wall       float64           `json:"wall_s"`
}

func traceString(tr []TraceStep) string {
	var sb strings.Builder
	for _, st := range tr {
		if st.Blocked {
			fmt.Fprintf(&sb, "T%d@%s[%d]:blocked ", st.Tid, st.From, st.Chunk)
		} else {
			fmt.Fprintf(&sb, "T%d@%s->%s[%d] ", st.Tid, st.From, st.To, st.ToChunk)
		}
	}
	return sb.String()
}

// lockEvents projects a recorded schedule onto the latch protocol of each chunk (coq/Conc.v lev)
func lockEvents(tr []TraceStep) map[uint32][]string {
	out := map[uint32][]string{}
	add := func(c uint32, f string, a ...interface{}) { out[c] = append(out[c], fmt.Sprintf(f, a...)) }
	for _, st := range tr {
		switch {
		case st.From == "w.begin" && st.Blocked:
			add(st.Chunk, "LWTry %d false", st.Tid)
		case st.From == "w.begin" && st.To == "w.latched":
			add(st.ToChunk, "LWTry %d true", st.Tid)
		case st.From == "unblocked" && st.To == "w.latched":
			add(st.ToChunk, "LWGot %d", st.Tid)
		case st.From == "w.done" && !st.Blocked:
			add(st.Chunk, "LWRel %d", st.Tid)
		case st.From == "r.begin" && st.Blocked:
			add(st.Chunk, "LRTry %d false", st.Tid)
		case st.From == "r.begin" && st.To == "r.mid":
			add(st.ToChunk, "LRTry %d true", st.Tid)
		case st.From == "unblocked" && st.To == "r.mid":
			add(st.ToChunk, "LRGot %d", st.Tid)
		case st.From == "r.mid" && st.To == "r.end":
			add(st.Chunk, "LRRel %d", st.Tid)
		}
	}
	return out
}

// runScenario runs one scenario; a panic outside the scheduled threads (the monitors replay the
// stream into a replica, restore snapshots, read rows back) is a verdict on that run, not a crash
// of the check: none of the scenario's properties can be confirmed on it.
func runScenario(name string, cfgSeed uint64, ch func(int, []int) int, grace time.Duration) (out *scenOut) {
	defer func() {
		if r := recover(); r != nil {
			removeHook()
			what := fmt.Sprintf("panic while checking the run (replica replay / restore / read-back): %v @ %s", r, shortStack())
			out = &scenOut{Viol: map[string][]string{}, Known: map[string][]string{}, Features: map[string]int{}, Desc: name + ": " + what}
			if curSched != nil {
				out.Trace, out.Choices = curSched.Trace, curSched.Choices
			}
			for _, p := range []string{"C02", "C06", "C08", "C09", "C10", "C11", "C12", "C15", "C18", "C19", "C03"} {
				out.viol(p, "%s", what)
			}
		}
	}()
	return runScenario1(name, cfgSeed, ch, grace)
}

func runScenario1(name string, cfgSeed uint64, ch func(int, []int) int, grace time.Duration) *scenOut {
	rng := NewRng(cfgSeed)
	switch name {
	case "rows":
		return runRows(genRowsCfg(rng), ch, grace)
	case "snap":
		cfg := genRowsCfg(rng)
		// rows that were never inserted are not part of a snapshot: keep the scenario to live rows
		keep := func(l []uint32) (out []uint32) {
			for _, o := range l {
				if o != virginRow {
					out = append(out, o)
				}
			}
			return
		}
		cfg.rows = keep(cfg.rows)
		for i := range cfg.writers {
			cfg.writers[i].rows = keep(cfg.writers[i].rows)
			if len(cfg.writers[i].rows) == 0 {
				cfg.writers[i].rows = []uint32{0}
			}
		}
		// two blocks always, and writers that often span both (their per-block commits interleave with
		// other writers' and with the snapshot's block reads)
		has := false
		for _, o := range cfg.rows {
			has = has || o == 16384+3
		}
		if !has {
			cfg.rows = append(cfg.rows, 16384+3)
		}
		for i := range cfg.writers {
			if rng.Chance(45) {
				cfg.writers[i].rows = append([]uint32(nil), cfg.rows...)
			}
		}
		cfg.readers, cfg.ranger, cfg.marker = nil, false, false
		for i := range cfg.writers {
			cfg.writers[i].abort, cfg.writers[i].del, cfg.writers[i].keep = false, false, false
		}
		if len(cfg.writers) > 2 && rng.Bool() {
			cfg.writers = cfg.writers[:2]
		}
		if rng.Chance(40) {
			cfg.writers[rng.Intn(len(cfg.writers))].insert = true
		}
		if rng.Chance(50) { // more commits per block beside the snapshot: every writer runs its transaction twice
			for i := range cfg.writers {
				cfg.writers[i].rounds = 1
			}
		}
		if rng.Chance(40) {
			cfg = directedSnapCfg(rng)
		}
		cfg.failSnap = rng.Chance(30)
		return runSnap(cfg, ch, grace)
	case "snapd": // the directed snapshot configurations, by number (coarse depth-first enumeration)
		return runSnap(directedSnapCfgN(int(cfgSeed%nDirectedSnap), rng), ch, grace)
	case "keys":
		return runKeys(int(cfgSeed%6), ch, grace)
	case "ddl":
		return runDDL(cfgSeed, ch, grace)
	default:
		n := 2 + rng.Intn(2)
		cfg := insCfg{inserters: n, deleter: rng.Chance(40), counter: rng.Chance(50), keyed: rng.Chance(25)}
		for i := 0; i < n; i++ {
			cfg.failing = append(cfg.failing, rng.Chance(20) && !cfg.keyed)
		}
		return runIns(cfg, ch, grace)
	}
}

func cmdSched(args []string) {
	fs := flag.NewFlagSet("sched", flag.ExitOnError)
	seed := fs.Uint64("seed", 1, "seed")
	n := fs.Int("n", 200, "random schedules per scenario")
	dfs := fs.Int("dfs", 0, "additionally explore up to this many schedules depth-first for a few small configurations")
	cfine := fs.Int("cdfs-fine", 0, "the same enumeration with the start of every block commit as a decision point, for the two-writer configurations: up to this many schedules each")
	cfineSamples := fs.Int("cdfs-fine-samples", 0, "random schedules of that finer kind per two-writer configuration")
	cdfs := fs.Int("cdfs", 0, "coarse depth-first enumeration (pre-emption only between whole protocol steps) of the directed snapshot configurations: up to this many schedules each")
	scen := fs.String("scenarios", "rows,snap,ins", "scenarios")
	out := fs.String("out", "", "output directory")
	graceMs := fs.Int("grace-ms", 4, "grace period before a resumed thread counts as blocked")
	replay := fs.String("replay", "", "scenario:cfgseed:c0,c1,... replays one schedule")
	fs.Parse(args)
	os.MkdirAll(*out, 0o755)
	grace := time.Duration(*graceMs) * time.Millisecond
	sum := schedSummary{Engine: "sched", Exhaustive: map[string]bool{}, ByScenario: map[string]int{}, Known: map[string]string{}}
	t0 := time.Now()
	distinct := map[string]bool{}
	perProp := map[string]int{} // violations kept per property (none crowds another one out)
	var lockTraces []string
	var lockOrigin []string
	var concCases, concOrigin []string
	record := func(name string, cfgSeed uint64, o *scenOut) {
		if !strings.Contains(o.Desc, "ranger=true") && name != "ins" && name != "keys" && name != "ddl" && name != "snapd" {
			for c, evs := range lockEvents(o.Trace) {
				lockTraces = append(lockTraces, "["+strings.Join(evs, "; ")+"]")
				lockOrigin = append(lockOrigin, fmt.Sprintf("%s:%d:chunk%d:%v", name, cfgSeed, c, o.Choices))
			}
		}
		if name == "rows" && o.Conc != "" && !o.Stuck {
			concCases = append(concCases, o.Conc)
			concOrigin = append(concOrigin, fmt.Sprintf("%s:%d:%v", name, cfgSeed, o.Choices))
		}
		sum.Runs++
		sum.ByScenario[name]++
		sum.Steps += o.Steps
		sum.Blocked += o.Blocked
		ts := traceString(o.Trace)
		distinct[name+fmt.Sprint(cfgSeed)+ts] = true
		if len(sum.Samples) < 3 {
			sum.Samples = append(sum.Samples, o.Desc+" :: "+ts)
		}
		for p, fl := range o.Viol {
			for _, f := range fl {
				if perProp[p] < 12 {
					perProp[p]++
					sum.Violations = append(sum.Violations, schedViolation{Property: p, What: f, Scenario: name, CfgSeed: cfgSeed, Choices: o.Choices, Desc: o.Desc, Trace: ts})
				}
			}
		}
		for k, fl := range o.Known {
			if len(fl) > 0 {
				sum.Known[k] = fl[0] + fmt.Sprintf(" (scenario %s cfg %d choices %v)", name, cfgSeed, o.Choices)
			}
		}
	}
	if *replay != "" {
		parts := strings.SplitN(*replay, ":", 3)
		var cs uint64
		fmt.Sscan(parts[1], &cs)
		var prefix []int
		for _, x := range strings.Split(parts[2], ",") {
			var v int
			if _, err := fmt.Sscan(x, &v); err == nil {
				prefix = append(prefix, v)
			}
		}
		o := runScenario(parts[0], cs, prefixChooser{prefix}.choose, grace)
		record(parts[0], cs, o)
	} else {
		rng := NewRng(*seed)
		for _, name := range strings.Split(*scen, ",") {
			for i := 0; i < *n; i++ {
				cfgSeed := rng.U64() % 1000000
				switch i % 3 {
				case 0:
					rc := &randomChooser{rng: rng.Fork(uint64(i)), keep: 55}
					record(name, cfgSeed, runScenario(name, cfgSeed, rc.choose, grace))
				case 1:
					pc := newPCT(rng.Fork(uint64(i)), 1+i%3, 60)
					record(name, cfgSeed, runScenario(name, cfgSeed, pc.choose, grace))
				default:
					cc := &coarseChooser{rng: rng.Fork(uint64(i)), last: -1}
					record(name, cfgSeed, runScenario(name, cfgSeed, cc.choose, grace))
				}
			}
			// depth-first enumeration of all schedules of a few configurations
			budget := *dfs
			for k := 0; k < 3 && budget > 0; k++ {
				cfgSeed := rng.U64() % 1000000
				stack := [][]int{nil}
				runs := 0
				for len(stack) > 0 && runs < budget {
					prefix := stack[len(stack)-1]
					stack = stack[:len(stack)-1]
					o := runScenario(name, cfgSeed, prefixChooser{prefix}.choose, grace)
					record(name, cfgSeed, o)
					runs++
					for d := len(prefix); d < len(o.Alts); d++ {
						for alt := 1; alt < o.Alts[d]; alt++ {
							np := make([]int, d+1)
							copy(np, prefix)
							np[d] = alt
							stack = append(stack, np)
						}
					}
				}
				budget -= runs
				sum.Exhaustive[fmt.Sprintf("%s:%d", name, cfgSeed)] = len(stack) == 0
			}
		}
	}
	if *cdfs > 0 && *replay == "" && strings.Contains(","+*scen+",", ",snap,") {
		for k := 0; k < nDirectedSnap; k++ {
			stack := [][]int{nil}
			runs := 0
			for len(stack) > 0 && runs < *cdfs {
				plan := stack[len(stack)-1]
				stack = stack[:len(stack)-1]
				cc := &coarsePlanChooser{plan: plan, last: -1}
				o := runScenario("snapd", uint64(k), cc.choose, coarseGrace)
				record("snapd", uint64(k), o)
				runs++
				for d := len(plan); d < len(cc.dalts); d++ {
					for alt := 1; alt < cc.dalts[d]; alt++ {
						np := make([]int, d+1)
						copy(np, plan)
						np[d] = alt
						stack = append(stack, np)
					}
				}
			}
			sum.Exhaustive[fmt.Sprintf("snapd:%d (coarse)", k)] = len(stack) == 0
			sum.ByScenario[fmt.Sprintf("snapd:%d", k)] = runs
		}
		for k := 0; k < 3; k++ { // the two-writer configurations, finer
			stack := [][]int{nil}
			runs := 0
			for len(stack) > 0 && runs < *cfine {
				plan := stack[len(stack)-1]
				stack = stack[:len(stack)-1]
				cc := &coarsePlanChooser{plan: plan, last: -1, fine: true}
				o := runScenario("snapd", uint64(k), cc.choose, coarseGrace)
				record("snapd", uint64(k), o)
				runs++
				for d := len(plan); d < len(cc.dalts); d++ {
					for alt := 1; alt < cc.dalts[d]; alt++ {
						np := make([]int, d+1)
						copy(np, plan)
						np[d] = alt
						stack = append(stack, np)
					}
				}
			}
			if *cfine > 0 {
				sum.Exhaustive[fmt.Sprintf("snapd:%d (coarse, every block commit)", k)] = len(stack) == 0
			}
			rs := NewRng(*seed ^ uint64(0xf1e+k))
			for i := 0; i < *cfineSamples; i++ {
				cc := &coarsePlanChooser{last: -1, fine: true, rng: rs.Fork(uint64(i))}
				record("snapd", uint64(k), runScenario("snapd", uint64(k), cc.choose, coarseGrace))
			}
		}
	}
	// the recorded latch protocol traces, for coq/Conc.v lock_check_all
	const perShard = 400
	for i := 0; i < len(lockTraces); i += perShard {
		j := i + perShard
		if j > len(lockTraces) {
			j = len(lockTraces)
		}
		name := filepath.Join(*out, fmt.Sprintf("locks_%05d.v", i))
		txt := "From stdpp Require Import gmap.\nFrom ColumnV Require Import Conc.\n" +
			fmt.Sprintf("Definition M := Eval vm_compute in lock_check_all %d [\n %s].\nPrint M.\n", i, strings.Join(lockTraces[i:j], ";\n "))
		os.WriteFile(name, []byte(txt), 0o644)
		sum.TraceFiles = append(sum.TraceFiles, name)
	}
	// the finished runs of the rows scenario, for coq/ConcCheck.v (the LTS of ConcStore.v replays them)
	const perConc = 150
	for i := 0; i < len(concCases); i += perConc {
		j := i + perConc
		if j > len(concCases) {
			j = len(concCases)
		}
		name := filepath.Join(*out, fmt.Sprintf("conc_%05d.v", i))
		txt := "From stdpp Require Import gmap list.\nFrom ColumnV Require Import Bytes Store Check ConcStore ConcCheck.\nLocal Open Scope N_scope.\n" +
			fmt.Sprintf("Definition M := Eval vm_compute in conc_mismatches %d [\n %s].\nPrint M.\n", i, strings.Join(concCases[i:j], ";\n "))
		os.WriteFile(name, []byte(txt), 0o644)
		sum.ConcFiles = append(sum.ConcFiles, name)
	}
	sum.ConcRuns = len(concCases)
	cb, _ := json.Marshal(concOrigin)
	os.WriteFile(filepath.Join(*out, "conc_origin.json"), cb, 0o644)
	sum.LockTraces = len(lockTraces)
	ob, _ := json.Marshal(lockOrigin)
	os.WriteFile(filepath.Join(*out, "lock_origin.json"), ob, 0o644)
	sum.Distinct = len(distinct)
	sum.Wall = time.Since(t0).Seconds()
	b, _ := json.MarshalIndent(sum, "", " ")
	os.WriteFile(filepath.Join(*out, "summary.json"), b, 0o644)
}

// directedSnapCfg: small configurations in which the orderings that matter for a snapshot's cut are
// few - one writer spanning both blocks, one or two writers on single blocks (some running twice):
// which commit falls before / between / after the two block reads and the recorder's life time
// threads pre-empted only between whole block steps never wait for one another's latches: a long
// grace period costs nothing and keeps a slow step (the recorder's temporary file) from being
// mistaken for a blocked one, which would make the enumeration's decision tree irreproducible
const coarseGrace = 200 * time.Millisecond

func directedSnapCfg(rng *Rng) rowsCfg { return directedSnapCfgN(rng.Intn(5), rng) }

const nDirectedSnap = 5

func directedSnapCfgN(k int, rng *Rng) rowsCfg {
	// commits are replayed as absolute puts (a merge is logged as the merged result), so that a
	// commit lost from the middle of a block's history only shows on a row no later commit of that
	// block writes: the writers of one block use different rows
	cfg := rowsCfg{rows: []uint32{0, 1, 16384, 16384 + 3}}
	w := func(rows ...uint32) wspec {
		return wspec{d: int64(1 + rng.Intn(9)), rows: rows}
	}
	switch k {
	case 0:
		cfg.writers = []wspec{w(0, 16387), w(16387)}
	case 1:
		cfg.writers = []wspec{w(0, 16387), w(1)}
	case 2:
		cfg.writers = []wspec{w(0), w(16387), w(1)}
	case 3:
		cfg.writers = []wspec{w(0, 16387), w(16384), w(1)}
	default:
		cfg.writers = []wspec{w(16387), w(0, 16384), w(1)}
	}
	return cfg
}
