package main

import (
	"encoding/json"
	"flag"
	"fmt"
	"os"
	"path/filepath"
	"strings"
	"time"
)

type schedViolation struct {
	Property string `json:"property"`
	What     string `json:"what"`
	Scenario string `json:"scenario"`
	CfgSeed  uint64 `json:"cfg_seed"`
	Choices  []int  `json:"choices"`
	Desc     string `json:"desc"`
	Trace    string `json:"trace"`
}

type schedSummary struct {
	Engine     string            `json:"engine"`
	Runs       int               `json:"runs"`
	Distinct   int               `json:"distinct_traces"`
	Steps      int               `json:"steps"`
	Blocked    int               `json:"blocked_steps"`
	Exhaustive map[string]bool   `json:"exhaustive_configs"`
	ByScenario map[string]int    `json:"runs_by_scenario"`
	Violations []schedViolation  `json:"violations"`
	Known      map[string]string `json:"known"`
	Samples    []string          `json:"samples"`
	TraceFiles []string          `json:"trace_files"`
	LockTraces int               `json:"lock_traces"`
	Wall       float64           `json:"wall_s"`
}

func traceString(tr []TraceStep) string {
	var sb strings.Builder
	for _, st := range tr {
		if st.Blocked {
			fmt.Fprintf(&sb, "T%d@%s[%d]:blocked ", st.Tid, st.From, st.Chunk)
		} else {
			fmt.Fprintf(&sb, "T%d@%s->%s[%d] ", st.Tid, st.From, st.To, st.ToChunk)
		}
	}
	return sb.String()
}

// lockEvents projects a recorded schedule onto the latch protocol of each chunk (coq/Conc.v lev)
func lockEvents(tr []TraceStep) map[uint32][]string {
	out := map[uint32][]string{}
	add := func(c uint32, f string, a ...interface{}) { out[c] = append(out[c], fmt.Sprintf(f, a...)) }
	for _, st := range tr {
		switch {
		case st.From == "w.begin" && st.Blocked:
			add(st.Chunk, "LWTry %d false", st.Tid)
		case st.From == "w.begin" && st.To == "w.latched":
			add(st.ToChunk, "LWTry %d true", st.Tid)
		case st.From == "unblocked" && st.To == "w.latched":
			add(st.ToChunk, "LWGot %d", st.Tid)
		case st.From == "w.done" && !st.Blocked:
			add(st.Chunk, "LWRel %d", st.Tid)
		case st.From == "r.begin" && st.Blocked:
			add(st.Chunk, "LRTry %d false", st.Tid)
		case st.From == "r.begin" && st.To == "r.mid":
			add(st.ToChunk, "LRTry %d true", st.Tid)
		case st.From == "unblocked" && st.To == "r.mid":
			add(st.ToChunk, "LRGot %d", st.Tid)
		case st.From == "r.mid" && st.To == "r.end":
			add(st.Chunk, "LRRel %d", st.Tid)
		}
	}
	return out
}

// runScenario runs one scenario; a panic outside the scheduled threads (the monitors replay the
// stream into a replica, restore snapshots, read rows back) is a verdict on that run, not a crash
// of the check: none of the scenario's properties can be confirmed on it.
func runScenario(name string, cfgSeed uint64, ch func(int, []int) int, grace time.Duration) (out *scenOut) {
	defer func() {
		if r := recover(); r != nil {
			removeHook()
			what := fmt.Sprintf("panic while checking the run (replica replay / restore / read-back): %v @ %s", r, shortStack())
			out = &scenOut{Viol: map[string][]string{}, Known: map[string][]string{}, Features: map[string]int{}, Desc: name + ": " + what}
			if curSched != nil {
				out.Trace, out.Choices = curSched.Trace, curSched.Choices
			}
			for _, p := range []string{"C02", "C06", "C08", "C09", "C10", "C11", "C12", "C15", "C18", "C19", "C03"} {
				out.viol(p, "%s", what)
			}
		}
	}()
	return runScenario1(name, cfgSeed, ch, grace)
}

func runScenario1(name string, cfgSeed uint64, ch func(int, []int) int, grace time.Duration) *scenOut {
	rng := NewRng(cfgSeed)
	switch name {
	case "rows":
		return runRows(genRowsCfg(rng), ch, grace)
	case "snap":
		cfg := genRowsCfg(rng)
		// rows that were never inserted are not part of a snapshot: keep the scenario to live rows
		keep := func(l []uint32) (out []uint32) {
			for _, o := range l {
				if o != virginRow {
					out = append(out, o)
				}
			}
			return
		}
		cfg.rows = keep(cfg.rows)
		for i := range cfg.writers {
			cfg.writers[i].rows = keep(cfg.writers[i].rows)
			if len(cfg.writers[i].rows) == 0 {
				cfg.writers[i].rows = []uint32{0}
			}
		}
		// two blocks always, and writers that often span both (their per-block commits interleave with
		// other writers' and with the snapshot's block reads)
		has := false
		for _, o := range cfg.rows {
			has = has || o == 16384+3
		}
		if !has {
			cfg.rows = append(cfg.rows, 16384+3)
		}
		for i := range cfg.writers {
			if rng.Chance(45) {
				cfg.writers[i].rows = append([]uint32(nil), cfg.rows...)
			}
		}
		cfg.readers, cfg.ranger, cfg.marker = nil, false, false
		for i := range cfg.writers {
			cfg.writers[i].abort, cfg.writers[i].del, cfg.writers[i].keep = false, false, false
		}
		if len(cfg.writers) > 2 && rng.Bool() {
			cfg.writers = cfg.writers[:2]
		}
		if rng.Chance(40) {
			cfg.writers[rng.Intn(len(cfg.writers))].insert = true
		}
		if rng.Chance(50) { // more commits per block beside the snapshot: every writer runs its transaction twice
			for i := range cfg.writers {
				cfg.writers[i].rounds = 1
			}
		}
		return runSnap(cfg, ch, grace)
	case "keys":
		return runKeys(int(cfgSeed%6), ch, grace)
	case "ddl":
		return runDDL(cfgSeed, ch, grace)
	default:
		n := 2 + rng.Intn(2)
		cfg := insCfg{inserters: n, deleter: rng.Chance(40), counter: rng.Chance(50), keyed: rng.Chance(25)}
		for i := 0; i < n; i++ {
			cfg.failing = append(cfg.failing, rng.Chance(20) && !cfg.keyed)
		}
		return runIns(cfg, ch, grace)
	}
}

func cmdSched(args []string) {
	fs := flag.NewFlagSet("sched", flag.ExitOnError)
	seed := fs.Uint64("seed", 1, "seed")
	n := fs.Int("n", 200, "random schedules per scenario")
	dfs := fs.Int("dfs", 0, "additionally explore up to this many schedules depth-first for a few small configurations")
	scen := fs.String("scenarios", "rows,snap,ins", "scenarios")
	out := fs.String("out", "", "output directory")
	graceMs := fs.Int("grace-ms", 4, "grace period before a resumed thread counts as blocked")
	replay := fs.String("replay", "", "scenario:cfgseed:c0,c1,... replays one schedule")
	fs.Parse(args)
	os.MkdirAll(*out, 0o755)
	grace := time.Duration(*graceMs) * time.Millisecond
	sum := schedSummary{Engine: "sched", Exhaustive: map[string]bool{}, ByScenario: map[string]int{}, Known: map[string]string{}}
	t0 := time.Now()
	distinct := map[string]bool{}
	var lockTraces []string
	var lockOrigin []string
	record := func(name string, cfgSeed uint64, o *scenOut) {
		if !strings.Contains(o.Desc, "ranger=true") && name != "ins" && name != "keys" && name != "ddl" {
			for c, evs := range lockEvents(o.Trace) {
				lockTraces = append(lockTraces, "["+strings.Join(evs, "; ")+"]")
				lockOrigin = append(lockOrigin, fmt.Sprintf("%s:%d:chunk%d:%v", name, cfgSeed, c, o.Choices))
			}
		}
		sum.Runs++
		sum.ByScenario[name]++
		sum.Steps += o.Steps
		sum.Blocked += o.Blocked
		ts := traceString(o.Trace)
		distinct[name+fmt.Sprint(cfgSeed)+ts] = true
		if len(sum.Samples) < 3 {
			sum.Samples = append(sum.Samples, o.Desc+" :: "+ts)
		}
		for p, fl := range o.Viol {
			for _, f := range fl {
				if len(sum.Violations) < 40 {
					sum.Violations = append(sum.Violations, schedViolation{Property: p, What: f, Scenario: name, CfgSeed: cfgSeed, Choices: o.Choices, Desc: o.Desc, Trace: ts})
				}
			}
		}
		for k, fl := range o.Known {
			if len(fl) > 0 {
				sum.Known[k] = fl[0] + fmt.Sprintf(" (scenario %s cfg %d choices %v)", name, cfgSeed, o.Choices)
			}
		}
	}
	if *replay != "" {
		parts := strings.SplitN(*replay, ":", 3)
		var cs uint64
		fmt.Sscan(parts[1], &cs)
		var prefix []int
		for _, x := range strings.Split(parts[2], ",") {
			var v int
			if _, err := fmt.Sscan(x, &v); err == nil {
				prefix = append(prefix, v)
			}
		}
		o := runScenario(parts[0], cs, prefixChooser{prefix}.choose, grace)
		record(parts[0], cs, o)
	} else {
		rng := NewRng(*seed)
		for _, name := range strings.Split(*scen, ",") {
			for i := 0; i < *n; i++ {
				cfgSeed := rng.U64() % 1000000
				switch i % 3 {
				case 0:
					rc := &randomChooser{rng: rng.Fork(uint64(i)), keep: 55}
					record(name, cfgSeed, runScenario(name, cfgSeed, rc.choose, grace))
				case 1:
					pc := newPCT(rng.Fork(uint64(i)), 1+i%3, 60)
					record(name, cfgSeed, runScenario(name, cfgSeed, pc.choose, grace))
				default:
					cc := &coarseChooser{rng: rng.Fork(uint64(i)), last: -1}
					record(name, cfgSeed, runScenario(name, cfgSeed, cc.choose, grace))
				}
			}
			// depth-first enumeration of all schedules of a few configurations
			budget := *dfs
			for k := 0; k < 3 && budget > 0; k++ {
				cfgSeed := rng.U64() % 1000000
				stack := [][]int{nil}
				runs := 0
				for len(stack) > 0 && runs < budget {
					prefix := stack[len(stack)-1]
					stack = stack[:len(stack)-1]
					o := runScenario(name, cfgSeed, prefixChooser{prefix}.choose, grace)
					record(name, cfgSeed, o)
					runs++
					for d := len(prefix); d < len(o.Alts); d++ {
						for alt := 1; alt < o.Alts[d]; alt++ {
							np := make([]int, d+1)
							copy(np, prefix)
							np[d] = alt
							stack = append(stack, np)
						}
					}
				}
				budget -= runs
				sum.Exhaustive[fmt.Sprintf("%s:%d", name, cfgSeed)] = len(stack) == 0
			}
		}
	}
	// the recorded latch protocol traces, for coq/Conc.v lock_check_all
	const perShard = 400
	for i := 0; i < len(lockTraces); i += perShard {
		j := i + perShard
		if j > len(lockTraces) {
			j = len(lockTraces)
		}
		name := filepath.Join(*out, fmt.Sprintf("locks_%05d.v", i))
		txt := "From stdpp Require Import gmap.\nFrom ColumnV Require Import Conc.\n" +
			fmt.Sprintf("Definition M := Eval vm_compute in lock_check_all %d [\n %s].\nPrint M.\n", i, strings.Join(lockTraces[i:j], ";\n "))
		os.WriteFile(name, []byte(txt), 0o644)
		sum.TraceFiles = append(sum.TraceFiles, name)
	}
	sum.LockTraces = len(lockTraces)
	ob, _ := json.Marshal(lockOrigin)
	os.WriteFile(filepath.Join(*out, "lock_origin.json"), ob, 0o644)
	sum.Distinct = len(distinct)
	sum.Wall = time.Since(t0).Seconds()
	b, _ := json.MarshalIndent(sum, "", " ")
	os.WriteFile(filepath.Join(*out, "summary.json"), b, 0o644)
}
