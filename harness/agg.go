package main

import (
	"math"

	"github.com/kelindar/column"
)

func f32bits(x float32) uint32 { return math.Float32bits(x) }
func f64bits(x float64) uint64 { return math.Float64bits(x) }

type number interface {
	~int | ~int16 | ~int32 | ~int64 | ~uint | ~uint16 | ~uint32 | ~uint64
}

type aggReader[T number] interface {
	Sum() T
	Min() (T, bool)
	Max() (T, bool)
}

func aggOf[T number](r aggReader[T], mask uint64) (sum, min, max uint64, okMin, okMax bool) {
	s := r.Sum()
	mn, ok1 := r.Min()
	mx, ok2 := r.Max()
	return uint64(s) & mask, uint64(mn) & mask, uint64(mx) & mask, ok1, ok2
}

// aggregate evaluates Sum/Min/Max of a numeric column over the transaction's selection and
// returns them as bit patterns at the column's width.
func aggregate(txn *column.Txn, col Col) (sum, min, max uint64, okMin, okMax bool) {
	mask := ^uint64(0)
	if w := col.K.Width(); w < 8 {
		mask = uint64(1)<<(8*uint(w)) - 1
	}
	switch col.K {
	case KInt:
		return aggOf[int](txn.Int(col.Name), mask)
	case KInt16:
		return aggOf[int16](txn.Int16(col.Name), mask)
	case KInt32:
		return aggOf[int32](txn.Int32(col.Name), mask)
	case KInt64, KInt64Aff:
		return aggOf[int64](txn.Int64(col.Name), mask)
	case KUint:
		return aggOf[uint](txn.Uint(col.Name), mask)
	case KUint16:
		return aggOf[uint16](txn.Uint16(col.Name), mask)
	case KUint32:
		return aggOf[uint32](txn.Uint32(col.Name), mask)
	case KUint64:
		return aggOf[uint64](txn.Uint64(col.Name), mask)
	}
	return
}
