package main

// Controlled scheduler (DESIGN.md 4.3): every logical thread runs in its own goroutine; the
// verifYield hook parks the goroutine and hands control back to the scheduler, which picks the
// next thread from the schedule under test.  A resumed thread that does not reach its next yield
// point within the grace period is blocked on a REAL lock of the implementation (the scheduler
// never models the locks), and the schedule moves on.

import (
	"bytes"
	"fmt"
	"runtime"
	"strconv"
	"sync"
	"time"

	"github.com/kelindar/column"
)

func gid() uint64 {
	var buf [64]byte
	n := runtime.Stack(buf[:], false)
	f := bytes.Fields(buf[:n])
	id, _ := strconv.ParseUint(string(f[1]), 10, 64)
	return id
}

type sevent struct {
	tid   int
	point string
	chunk uint32
}

type sthread struct {
	resume chan struct{}
	state  string // running | parked | blocked | done
	at     string
	chunk  uint32
}

// TraceStep is one scheduling decision and its outcome.
type TraceStep struct {
	Tid     int    // thread resumed
	From    string // yield point it was parked at
	Chunk   uint32
	To      string // yield point it reached next ("done", or "" when blocked)
	ToChunk uint32
	Blocked bool
}

type Sched struct {
	mu      sync.Mutex
	gids    map[uint64]int
	thr     []*sthread
	events  chan sevent
	Trace   []TraceStep
	Choices []int
	grace   time.Duration
	panics  []string
}

func NewSched(n int, grace time.Duration) *Sched {
	s := &Sched{gids: map[uint64]int{}, events: make(chan sevent, 256), grace: grace}
	for i := 0; i < n; i++ {
		s.thr = append(s.thr, &sthread{resume: make(chan struct{}), state: "running"})
	}
	return s
}

// Yield is installed as column.VerifHook; goroutines the scheduler does not know pass through.
func (s *Sched) Yield(point string, chunk uint32) {
	s.mu.Lock()
	tid, ok := s.gids[gid()]
	s.mu.Unlock()
	if !ok {
		return
	}
	s.events <- sevent{tid, point, chunk}
	<-s.thr[tid].resume
}

func (s *Sched) Go(tid int, f func()) {
	go func() {
		s.mu.Lock()
		s.gids[gid()] = tid
		s.mu.Unlock()
		defer func() {
			if r := recover(); r != nil {
				s.mu.Lock()
				s.panics = append(s.panics, fmt.Sprintf("T%d: %v @ %s", tid, r, shortStack()))
				s.mu.Unlock()
			}
			s.events <- sevent{tid, "done", 0}
		}()
		s.Yield("start", 0)
		f()
	}()
}

func (s *Sched) absorb(e sevent) {
	t := s.thr[e.tid]
	if e.point == "done" {
		t.state = "done"
	} else {
		t.state = "parked"
	}
	t.at, t.chunk = e.point, e.chunk
}

// Run drives the threads; choose picks among the parked threads (indices into the ascending list).
// Returns whether some thread never finished (deadlock / livelock).
func (s *Sched) Run(choose func(step int, parked []int) int) (alts []int, stuck bool) {
	n := len(s.thr)
	for got := 0; got < n; got++ {
		s.absorb(<-s.events)
	}
	for step := 0; ; step++ {
		var parked []int
		live := 0
		for i, t := range s.thr {
			if t.state == "parked" {
				parked = append(parked, i)
			}
			if t.state != "done" {
				live++
			}
		}
		if live == 0 {
			return alts, false
		}
		if len(parked) == 0 {
			select {
			case e := <-s.events:
				s.noteLate(e)
				continue
			case <-time.After(400 * time.Millisecond):
				return alts, true
			}
		}
		c := choose(step, parked)
		if c >= len(parked) || c < 0 {
			c = len(parked) - 1
		}
		alts = append(alts, len(parked))
		s.Choices = append(s.Choices, c)
		tid := parked[c]
		t := s.thr[tid]
		ts := TraceStep{Tid: tid, From: t.at, Chunk: t.chunk}
		t.state = "running"
		t.resume <- struct{}{}
		timer := time.NewTimer(s.grace)
		var late []sevent // blocked threads that came through during this step: they follow it
	wait:
		for {
			select {
			case e := <-s.events:
				if e.tid == tid {
					s.absorb(e)
					ts.To, ts.ToChunk = e.point, e.chunk
					break wait
				}
				late = append(late, e)
			case <-timer.C:
				t.state = "blocked"
				ts.Blocked = true
				break wait
			}
		}
		timer.Stop()
		s.Trace = append(s.Trace, ts)
		for _, e := range late {
			s.noteLate(e)
		}
	}
}

// noteLate: a thread that had been classified blocked came through (its lock was released)
func (s *Sched) noteLate(e sevent) {
	s.absorb(e)
	s.Trace = append(s.Trace, TraceStep{Tid: e.tid, From: "unblocked", To: e.point, ToChunk: e.chunk})
}

// ---------------------------------------------------------------------------------------
// schedule sources

type chooser interface {
	choose(step int, parked []int) int
}

// prefixChooser replays a choice prefix, then always takes the first parked thread (DFS expansion)
type prefixChooser struct{ prefix []int }

func (p prefixChooser) choose(step int, parked []int) int {
	if step < len(p.prefix) {
		return p.prefix[step]
	}
	return 0
}

// randomChooser: uniformly random with a bias to keep running the same thread (few preemptions)
type randomChooser struct {
	rng  *Rng
	last int
	keep int // percent
	thr  []*sthread
}

func (r *randomChooser) choose(step int, parked []int) int {
	if r.rng.Chance(r.keep) {
		for i, p := range parked {
			if p == r.last {
				return i
			}
		}
	}
	i := r.rng.Intn(len(parked))
	r.last = parked[i]
	return i
}

func installHook(s *Sched) {
	curSched = s
	column.VerifHook.Store(func(p string, c uint32) { s.Yield(p, c) })
	userYield = func(p string) { s.Yield(p, 0) }
}
func removeHook() {
	column.VerifHook.Store(func(string, uint32) {})
	userYield = func(string) {}
}

// pctChooser: probabilistic concurrency testing - random thread priorities, the highest-priority
// parked thread runs; at d randomly chosen steps the running thread drops below everyone else
type pctChooser struct {
	rng     *Rng
	prio    map[int]int
	changes map[int]bool
	low     int
}

func newPCT(rng *Rng, depth, horizon int) *pctChooser {
	p := &pctChooser{rng: rng, prio: map[int]int{}, changes: map[int]bool{}, low: -1}
	for i := 0; i < depth; i++ {
		p.changes[rng.Intn(horizon)] = true
	}
	return p
}

func (p *pctChooser) choose(step int, parked []int) int {
	best, bi := -1<<30, 0
	for i, t := range parked {
		if _, ok := p.prio[t]; !ok {
			p.prio[t] = 1000 + p.rng.Intn(1000)
		}
		if p.prio[t] > best {
			best, bi = p.prio[t], i
		}
	}
	if p.changes[step] {
		p.prio[parked[bi]] = p.low
		p.low--
	}
	return bi
}

// coarseChooser: pre-emption only at the boundaries of whole protocol steps - a thread runs from one
// major point (the start of a block's commit, of a snapshot's block read, of a reader's callback,
// of a schema step) to the next without interruption; which thread goes next is random.  The
// interleavings of whole block commits with whole block reads are few, so that orderings needing
// three or four specific commits around two block reads are found quickly.
type coarseChooser struct {
	rng  *Rng
	last int
}

var majorPoints = map[string]bool{"w.begin": true, "s.open": true, "s.chunk": true, "s.close": true,
	"s.copy": true, "r.begin": true, "r.end": true, "d.step": true, "d.end": true, "unblocked": true, "u.merge": true}

func (c *coarseChooser) choose(step int, parked []int) int {
	if s := curSched; s != nil && c.last >= 0 {
		for i, tid := range parked {
			if tid == c.last && !majorPoints[s.thr[tid].at] {
				return i
			}
		}
	}
	i := c.rng.Intn(len(parked))
	c.last = parked[i]
	return i
}

var curSched *Sched

// coarsePlanChooser: like coarseChooser, but the decisions at the major points follow a plan (then
// the first parked thread); it records how many alternatives each decision had, for the
// depth-first enumeration of all coarse schedules
type coarsePlanChooser struct {
	plan  []int
	k     int
	last  int
	dalts []int
	begun map[int]bool // threads that have started the commit of a block already
	fine  bool         // the start of a thread's first block commit is a decision point too
	rng   *Rng         // decisions beyond the plan are random instead of "the first parked thread"
}

// the decision points of the enumeration: the snapshot's steps (recorder install, each block read,
// recorder removal) and the start of every block commit but a thread's very first (a transaction's
// body and its first block commit form one step: nothing it shares happens in between)
func (c *coarsePlanChooser) major(tid int, at string) bool {
	switch at {
	case "s.open", "s.chunk", "s.close":
		return true
	case "w.begin":
		return c.fine || c.begun[tid]
	}
	return false
}

func (c *coarsePlanChooser) choose(step int, parked []int) int {
	if c.begun == nil {
		c.begun = map[int]bool{}
	}
	pick := func(i int) int {
		if s := curSched; s != nil && s.thr[parked[i]].at == "w.begin" {
			c.begun[parked[i]] = true
		}
		c.last = parked[i]
		return i
	}
	if s := curSched; s != nil && c.last >= 0 {
		for i, tid := range parked {
			if tid == c.last && !c.major(tid, s.thr[tid].at) {
				return pick(i)
			}
		}
	}
	i := 0
	if c.k < len(c.plan) {
		i = c.plan[c.k]
	} else if c.rng != nil {
		i = c.rng.Intn(len(parked))
	}
	if i >= len(parked) {
		i = len(parked) - 1
	}
	c.k++
	c.dalts = append(c.dalts, len(parked))
	return pick(i)
}
