package main

import (
	"crypto/sha1"
	"encoding/json"
	"flag"
	"fmt"
	"os"
	"path/filepath"
	"strings"
	"sync/atomic"
	"time"
)

const coqHeader = `From stdpp Require Import gmap.
From ColumnV Require Import Bytes Store Check.
Local Open Scope N_scope.
`

var profiles = map[string]Profile{
	// general mix used by most sequential properties
	"mix": {Name: "mix", Txns: 14, KeyedPct: 25, SeedPct: 35, NestedPct: 8, SchemaPct: 12, RestorePct: 6, ReplicaPct: 15,
		AbortPct: 15, FilterPct: 16, FailInsPct: 6, MaxStmts: 7, Long: true},
	"values": {Name: "values", Txns: 16, KeyedPct: 10, SeedPct: 40, SchemaPct: 10, RestorePct: 0, ReplicaPct: 0,
		AbortPct: 8, FilterPct: 4, FailInsPct: 2, MaxStmts: 8, Long: true},
	"atomic": {Name: "atomic", Txns: 14, KeyedPct: 30, SeedPct: 30, NestedPct: 20, SchemaPct: 5, AbortPct: 50, FilterPct: 12,
		FailInsPct: 25, MaxStmts: 8},
	"index": {Name: "index", Txns: 14, KeyedPct: 10, SeedPct: 35, LateIdxPct: 40, DensePct: 12, DenseFirstPct: 75, SchemaPct: 30, RestorePct: 8, ReplicaPct: 15,
		AbortPct: 10, FilterPct: 10, FailInsPct: 3, MaxStmts: 7},
	"filter": {Name: "filter", Txns: 10, KeyedPct: 10, SeedPct: 45, LateIdxPct: 60, SchemaPct: 10, AbortPct: 10, FilterPct: 33,
		FailInsPct: 2, MaxStmts: 9},
	"keys": {Name: "keys", Txns: 16, KeyedPct: 100, SeedPct: 40, NestedPct: 10, SchemaPct: 5, RestorePct: 5, ReplicaPct: 15,
		AbortPct: 20, FilterPct: 6, FailInsPct: 8, MaxStmts: 6},
	// keyed histories in which half of the transactions roll back, inserts fail and whole transactions
	// run nested inside another one's callback (offsets freed and taken over before a rollback)
	"keysatomic": {Name: "keysatomic", Txns: 14, KeyedPct: 100, SeedPct: 25, NestedPct: 25, SchemaPct: 3, AbortPct: 45, FilterPct: 6,
		FailInsPct: 25, MaxStmts: 7},
	"replica": {Name: "replica", Txns: 12, KeyedPct: 25, SeedPct: 40, SchemaPct: 8, ReplicaPct: 50,
		AbortPct: 12, FilterPct: 8, FailInsPct: 5, MaxStmts: 7},
	"restore": {Name: "restore", Txns: 10, KeyedPct: 25, SeedPct: 45, DensePct: 6, SchemaPct: 10, RestorePct: 35, ReplicaPct: 0,
		AbortPct: 10, FilterPct: 8, FailInsPct: 4, MaxStmts: 7, Long: true},
	// a completely full last block, then restores and a few transactions
	"dense": {Name: "dense", Txns: 5, KeyedPct: 20, SeedPct: 100, DensePct: 100, SchemaPct: 5, RestorePct: 60, ReplicaPct: 20,
		AbortPct: 10, FilterPct: 6, FailInsPct: 4, MaxStmts: 5},
	// string columns over a small alphabet with a sorted index from the start, frequent Ascend
	"sorted": {Name: "sorted", Txns: 16, KeyedPct: 10, SeedPct: 30, SchemaPct: 10, RestorePct: 5, ReplicaPct: 0,
		AbortPct: 10, FilterPct: 30, FailInsPct: 3, MaxStmts: 6, Kinds: []Kind{KStrCat, KStrMin, KStr, KEnum, KStrCat, KInt16}, ForceSorted: true},
	"alloc": {Name: "alloc", Txns: 22, KeyedPct: 15, SeedPct: 55, NestedPct: 25, DensePct: 35, DenseFirstPct: 75, SchemaPct: 4, AbortPct: 25, FilterPct: 10,
		FailInsPct: 12, MaxStmts: 9},
}

type runSummary struct {
	Engine   string              `json:"engine"`
	Profile  string              `json:"profile"`
	Seed     uint64              `json:"seed"`
	Cases    int                 `json:"cases"`
	Shards   []string            `json:"shards"`
	Stuck    map[string]string   `json:"stuck"`
	Stats    *Stats              `json:"stats"`
	Notes    map[string][]string `json:"notes"`
	Panics   map[string]string   `json:"panics"`
	Samples  []string            `json:"samples"`
	Features []map[string]int    `json:"features"` // per case: what the history contained
	Hashes   []string            `json:"hashes"`
}

// snapshotCounts flattens the counters a per-case feature vector is computed from
func snapshotCounts(s *Stats) map[string]int {
	m := map[string]int{"txns": s.Txns, "commits": s.Commits, "aborts": s.Aborts, "stmts": s.Stmts,
		"multiblock": s.MultiBlockTxns, "reuse": s.ReuseAfterDelete, "youngcols": s.YoungCols,
		"restores": s.Restores, "nested": s.Nested, "lateindexes": s.LateIndexes, "droppedcols": s.DroppedCols, "dense": s.Tall, "replicas": s.Replicas, "keyed": s.Keyed, "seeded": s.Seeded,
		"failedinserts": s.FailedInserts, "emitted": s.EmittedCommits, "trigger_events": s.TriggerEvents}
	for k, v := range s.StmtKinds {
		m["stmt."+k] = v
	}
	for k, v := range s.WritesByKind {
		m["write."+k] = v
	}
	return m
}

// every kind once, some of them several times over
func kindsWeighted(extra map[Kind]int) []Kind {
	var out []Kind
	for k := Kind(0); k < nKinds; k++ {
		if k == KKey {
			continue
		}
		out = append(out, k)
		for i := 0; i < extra[k]; i++ {
			out = append(out, k)
		}
	}
	return out
}

func init() {
	// filters on enum columns go through their own predicate path (FilterString with a per-location
	// cache): the filter profile has several of them per schema
	p := profiles["filter"]
	p.Kinds = kindsWeighted(map[Kind]int{KEnum: 4, KBool: 1, KF64I: 1})
	profiles["filter"] = p
}

func cmdHist(args []string) {
	fs := flag.NewFlagSet("hist", flag.ExitOnError)
	seed := fs.Uint64("seed", 1, "seed")
	n := fs.Int("n", 50, "number of cases")
	first := fs.Int("first", 0, "index of the first case")
	prof := fs.String("profile", "mix", "generator profile")
	out := fs.String("out", "", "output directory")
	per := fs.Int("per-shard", 12, "cases per shard")
	only := fs.Int("only", -1, "run only this case index")
	flags := fs.String("allow", "", "comma list of finding classes to allow: K2,K5,K7")
	fs.Parse(args)
	p, ok := profiles[*prof]
	if !ok {
		fmt.Fprintln(os.Stderr, "unknown profile", *prof)
		os.Exit(2)
	}
	for _, f := range strings.Split(*flags, ",") {
		switch f {
		case "K2":
			p.K2 = true
		case "K5":
			p.K5 = true
		case "K7":
			p.K7 = true
		}
	}
	os.MkdirAll(*out, 0o755)
	stats := newStats()
	sum := runSummary{Engine: "hist", Profile: *prof, Seed: *seed, Stats: stats, Notes: map[string][]string{}, Panics: map[string]string{}, Stuck: map[string]string{}}
	lo, hi := *first, *first+*n
	if *only >= 0 {
		lo, hi = *only, *only+1
	}
	var shard []string
	var shardIdx []int
	flush := func() {
		if len(shard) == 0 {
			return
		}
		name := filepath.Join(*out, fmt.Sprintf("shard_%05d.v", shardIdx[0]))
		var sb strings.Builder
		sb.WriteString(coqHeader)
		for i, c := range shard {
			fmt.Fprintf(&sb, "Definition case_%d : list step :=\n  %s.\n", shardIdx[i], c)
		}
		var names []string
		for _, i := range shardIdx {
			names = append(names, fmt.Sprintf("case_%d", i))
		}
		fmt.Fprintf(&sb, "Definition M := Eval vm_compute in check_all %d [%s].\nPrint M.\n", shardIdx[0], strings.Join(names, "; "))
		os.WriteFile(name, []byte(sb.String()), 0o644)
		sum.Shards = append(sum.Shards, name)
		shard, shardIdx = nil, nil
	}
	for i := lo; i < hi; i++ {
		before := snapshotCounts(stats)
		if len(sum.Stuck) >= 2 {
			break // every stuck case costs the whole watchdog period; two are enough to report
		}
		text, notes, pan, stuck := runCaseWatched(*seed, i, p, stats, 60*time.Second)
		if stuck != "" {
			sum.Stuck[fmt.Sprint(i)] = stuck
		}
		after := snapshotCounts(stats)
		feat := map[string]int{"case": i}
		for k, v := range after {
			if d := v - before[k]; d != 0 {
				feat[k] = d
			}
		}
		sum.Features = append(sum.Features, feat)
		sum.Hashes = append(sum.Hashes, fmt.Sprintf("%x", sha1.Sum([]byte(text))))
		if len(notes) > 0 {
			sum.Notes[fmt.Sprint(i)] = notes
		}
		if pan != "" {
			sum.Panics[fmt.Sprint(i)] = pan
		}
		if len(sum.Samples) < 2 && len(text) < 6000 {
			sum.Samples = append(sum.Samples, text)
		}
		shard = append(shard, text)
		shardIdx = append(shardIdx, i)
		if len(shard) >= *per {
			flush()
		}
	}
	flush()
	sum.Cases = len(sum.Hashes)
	b, _ := json.MarshalIndent(sum, "", " ")
	os.WriteFile(filepath.Join(*out, "summary.json"), b, 0o644)
}

// runCaseWatched runs one history under a watchdog: an operation of the library that never returns
// (a lock that is never released) must not hang the check; the case is reported as stuck with the
// steps recorded so far, and its goroutine is abandoned together with its collection.
func runCaseWatched(seed uint64, idx int, prof Profile, stats *Stats, limit time.Duration) (text string, notes []string, pan string, stuck string) {
	type res struct {
		text  string
		notes []string
		pan   string
	}
	ch := make(chan res, 1)
	var cur atomic.Pointer[World]
	go func() {
		t, n, p := runCaseHooked(seed, idx, prof, stats, &cur)
		ch <- res{t, n, p}
	}()
	select {
	case r := <-ch:
		return r.text, r.notes, r.pan, ""
	case <-time.After(limit):
		w := cur.Load()
		steps, last := []string{}, "before the first step"
		if w != nil {
			w.stepMu.Lock()
			steps = append(steps, w.steps...)
			last = w.doing
			w.stepMu.Unlock()
		}
		return "[" + strings.Join(steps, ";\n  ") + "]", nil, "", fmt.Sprintf("no progress for %v while: %s (after %d recorded steps)", limit, last, len(steps))
	}
}

func main() {
	if len(os.Args) < 2 {
		fmt.Fprintln(os.Stderr, "usage: harness <hist|codec|...> [flags]")
		os.Exit(2)
	}
	switch os.Args[1] {
	case "hist":
		cmdHist(os.Args[2:])
	case "alloc":
		cmdAlloc(os.Args[2:])
	case "codec":
		cmdCodec(os.Args[2:])
	case "sched":
		cmdSched(os.Args[2:])
	case "trunc":
		cmdTrunc(os.Args[2:])
	case "fault":
		cmdFault(os.Args[2:])
	case "race":
		cmdRace(os.Args[2:])
	case "ttl":
		cmdTTL(os.Args[2:])
	case "bitmap":
		cmdBitmap(os.Args[2:])
	case "finding":
		cmdFinding(os.Args[2:])
	case "wire":
		cmdWire(os.Args[2:])
	default:
		fmt.Fprintln(os.Stderr, "unknown engine", os.Args[1])
		os.Exit(2)
	}
}
