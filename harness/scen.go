package main

// Concurrency scenarios run under the controlled scheduler, with their property monitors.

import (
	"bytes"
	"fmt"
	"io"
	"sort"
	"strings"
	"sync"
	"time"

	"github.com/kelindar/column"
	"github.com/kelindar/column/commit"
)

type rowState struct{ a, b, m, r int64 }

// ctr is a record whose user-supplied merge is the same order-sensitive v*3+d as column m; the
// merge function is user code, so it may be pre-empted like any other: it yields to the scheduler
type ctr struct{ N int64 }

func (c *ctr) MarshalBinary() ([]byte, error) {
	b := make([]byte, 8)
	for i := 0; i < 8; i++ {
		b[i] = byte(uint64(c.N) >> (56 - 8*uint(i)))
	}
	return b, nil
}
func (c *ctr) UnmarshalBinary(b []byte) error {
	var n uint64
	for _, x := range b {
		n = n<<8 | uint64(x)
	}
	c.N = int64(n)
	return nil
}

var userYield = func(string) {}

type wspec struct {
	del    bool // rows scenario: the transaction also deletes the marker row
	keep   bool // rows scenario: the transaction also inserts a row and keeps it
	rounds int  // snap scenario: the transaction is run this many times in a row (0 = once)
	insert bool // also inserts a row and deletes it again (row markers in the commit)
	rows   []uint32
	d      int64
	set    bool
	abort  bool
}

func (w wspec) apply(s rowState) rowState {
	if w.set {
		return rowState{w.d, s.a + s.b - w.d, w.d, w.d}
	}
	return rowState{s.a + w.d, s.b - w.d, s.m*3 + w.d, s.r*3 + w.d}
}

type scenOut struct {
	Viol     map[string][]string // property id -> what failed
	Known    map[string][]string // finding class -> instance
	Trace    []TraceStep
	Choices  []int
	Alts     []int
	Desc     string
	Stuck    bool
	Steps    int
	Blocked  int
	Features map[string]int
	Conc     string // the run as a case for coq/ConcCheck.v (rows scenario)
}

func (o *scenOut) viol(p, f string, a ...interface{}) {
	o.Viol[p] = append(o.Viol[p], fmt.Sprintf(f, a...))
}

// schedLogger records every commit with the scheduler thread that appended it
type schedLogger struct {
	mu      sync.Mutex
	s       *Sched
	commits []schedCommit
}
type schedCommit struct {
	id    uint64
	chunk uint32
	tid   int
	raw   commit.Commit
}

func (l *schedLogger) Append(c commit.Commit) error {
	tid := -1
	if l.s != nil {
		l.s.mu.Lock()
		if t, ok := l.s.gids[gid()]; ok {
			tid = t
		}
		l.s.mu.Unlock()
	}
	l.mu.Lock()
	l.commits = append(l.commits, schedCommit{id: c.ID, chunk: uint32(c.Chunk), tid: tid, raw: c.Clone()})
	l.mu.Unlock()
	return nil
}

func affine(v, d int64) int64 { return v*3 + d }

func mkRowsColl(lg commit.Logger) *column.Collection {
	c := column.NewCollection(column.Options{Vacuum: time.Hour, Writer: lg, Capacity: 64})
	c.CreateColumn("a", column.ForInt64())
	c.CreateColumn("b", column.ForInt64())
	c.CreateColumn("m", column.ForInt64(column.WithMerge(affine)))
	c.CreateColumn("rec", column.ForRecord(func() *ctr { return new(ctr) }, column.WithMerge(func(v, d *ctr) *ctr {
		userYield("u.merge")
		v.N = v.N*3 + d.N
		return v
	})))
	c.CreateColumn("g", column.ForInt64()) // g and h are always put together: h = (g is odd)
	c.CreateColumn("h", column.ForBool())
	c.CreateIndex("big", "a", func(r column.Reader) bool { return r.Int() >= 5 })
	return c
}

// seedRows creates the rows of the scenario: offsets 0,1 by Insert, block-1 rows through Replay
func seedRows(c *column.Collection, rows []uint32) {
	for _, off := range rows {
		if off == virginRow {
			continue // created by the first writer that touches it
		}
		buf := func(name string, v uint64) *commit.Buffer {
			b := commit.NewBuffer(16)
			b.Reset(name)
			if name == "rec" {
				b.PutBytes(commit.Put, off, make([]byte, 8))
			} else {
				b.PutUint64(commit.Put, off, v)
			}
			return b
		}
		row := commit.NewBuffer(16)
		row.Reset("row")
		row.PutOperation(commit.Insert, off)
		c.Replay(commit.Commit{ID: commit.Next(), Chunk: commit.ChunkAt(off), Updates: []*commit.Buffer{row, buf("a", 0), buf("b", 100), buf("m", 0), buf("rec", 0)}})
	}
}

func readRow(c *column.Collection, off uint32) (rs rowState, ok bool) {
	c.QueryAt(off, func(r column.Row) error {
		a, ok1 := r.Int64("a")
		b, ok2 := r.Int64("b")
		m, ok3 := r.Int64("m")
		rs, ok = rowState{a, b, m, m}, ok1 && ok2 && ok3
		if off != virginRow { // the record column is left alone on the row no one seeded
			v, ok4 := r.Record("rec")
			if ok = ok && ok4; ok4 {
				rs.r = v.(*ctr).N
			}
		}
		return nil
	})
	return
}

// applyOrder: for each chunk, the thread ids in the order they acquired the chunk's write latch
func applyOrder(trace []TraceStep) map[uint32][]int {
	out := map[uint32][]int{}
	for _, st := range trace {
		if st.To == "w.latched" {
			out[st.ToChunk] = append(out[st.ToChunk], st.Tid)
		}
	}
	return out
}

// ---------------------------------------------------------------------------------------
// scenario "rows": concurrent merging / overwriting writers, readers, stream, replica

const virginRow = 32768 + 1 // a row in a block that does not exist until a writer creates it
const markRow = 2           // a seeded row no writer updates: one writer may delete it (row markers in its commit)

func initOf(off uint32) rowState {
	if off == virginRow {
		return rowState{0, 0, 0, 0}
	}
	return rowState{0, 100, 0, 0}
}

type rowsCfg struct {
	failSnap bool // snap scenario: another thread takes a snapshot into a writer that fails
	marker   bool // markRow is seeded; writers may carry del / keep
	rows     []uint32
	writers  []wspec
	readers  []uint32 // row each reader looks at
	ranger   bool     // one more reader iterating over everything
}

func genRowsCfg(rng *Rng) rowsCfg {
	cfg := rowsCfg{rows: []uint32{0, 1}}
	if rng.Chance(60) {
		cfg.rows = append(cfg.rows, 16384+3)
	}
	if rng.Chance(35) {
		cfg.rows = append(cfg.rows, virginRow)
	}
	if rng.Chance(40) {
		cfg.rows = append(cfg.rows, 16383, 16384) // neighbours on both sides of a block boundary
	}
	nw := 2 + rng.Intn(2)
	for i := 0; i < nw; i++ {
		w := wspec{d: int64(1 + rng.Intn(9)), set: rng.Chance(20), abort: rng.Chance(8)}
		k := 1 + rng.Intn(len(cfg.rows))
		perm := append([]uint32(nil), cfg.rows...)
		for j := range perm {
			x := j + rng.Intn(len(perm)-j)
			perm[j], perm[x] = perm[x], perm[j]
		}
		w.rows = perm[:k]
		// neighbours across the block boundary are written one after the other, in ascending order
		i83, i84 := -1, -1
		for j, r := range w.rows {
			if r == 16383 {
				i83 = j
			}
			if r == 16384 {
				i84 = j
			}
		}
		if i83 >= 0 && i84 >= 0 {
			rest := []uint32{}
			for _, r := range w.rows {
				if r != 16383 && r != 16384 {
					rest = append(rest, r)
				}
			}
			w.rows = append(rest, 16383, 16384)
		}
		cfg.writers = append(cfg.writers, w)
	}
	if rng.Chance(70) {
		cfg.readers = append(cfg.readers, cfg.rows[rng.Intn(len(cfg.rows))])
	}
	cfg.ranger = rng.Chance(25)
	if rng.Chance(50) {
		cfg.marker = true
		d := rng.Intn(nw)
		cfg.writers[d].del = true
		if rng.Bool() {
			cfg.writers[rng.Intn(nw)].keep = true
		}
		// beside a commit that carries row markers, another writer often makes the first commit
		// into a block that does not exist yet (the collection's fill list grows under it)
		if rng.Chance(70) {
			has := false
			for _, o := range cfg.rows {
				has = has || o == virginRow
			}
			if !has {
				cfg.rows = append(cfg.rows, virginRow)
			}
			// ... without touching the first block itself: a point write there would wait for the latch
			o := (d + 1 + rng.Intn(nw-1)) % nw
			cfg.writers[o].rows = []uint32{virginRow}
			for _, r := range cfg.rows {
				if r>>14 == 1 && rng.Bool() {
					cfg.writers[o].rows = append(cfg.writers[o].rows, r)
				}
			}
			cfg.writers[o].del, cfg.writers[o].keep = false, false
		}
	}
	return cfg
}

func (cfg rowsCfg) seeded() []uint32 {
	if cfg.marker {
		return append(append([]uint32(nil), cfg.rows...), markRow)
	}
	return cfg.rows
}

func (cfg rowsCfg) String() string {
	if cfg.failSnap {
		return fmt.Sprintf("rows=%v writers=%+v beside a second snapshot into a failing writer", cfg.rows, cfg.writers)
	}
	return fmt.Sprintf("rows=%v writers=%+v readers=%v ranger=%v", cfg.rows, cfg.writers, cfg.readers, cfg.ranger)
}

func runRows(cfg rowsCfg, ch func(int, []int) int, grace time.Duration) *scenOut {
	out := &scenOut{Viol: map[string][]string{}, Known: map[string][]string{}, Desc: "rows: " + cfg.String(), Features: map[string]int{}}
	lg := &schedLogger{}
	c := mkRowsColl(lg)
	defer c.Close()
	seedRows(c, cfg.seeded())
	count0 := c.Count()
	lg.commits = nil
	nthr := len(cfg.writers) + len(cfg.readers)
	if cfg.ranger {
		nthr++
	}
	s := NewSched(nthr, grace)
	lg.s = s
	installHook(s)
	type seen struct {
		row  uint32
		a, b int64
		ok   bool
		g    int64
		h    bool
	}
	var seenMu sync.Mutex
	var seens []seen
	keptOff := map[int]uint32{}
	var keptMu sync.Mutex
	for i, w := range cfg.writers {
		i, w := i, w
		s.Go(i, func() {
			c.Query(func(txn *column.Txn) error {
				for _, off := range w.rows {
					txn.QueryAt(off, func(r column.Row) error {
						r.SetInt64("g", w.d)
						r.SetBool("h", w.d%2 == 1)
						if w.set {
							r.SetInt64("a", w.d)
							r.SetInt64("b", initOf(off).b-w.d)
							r.SetInt64("m", w.d)
							if off != virginRow {
								r.SetRecord("rec", &ctr{N: w.d})
							}
						} else {
							r.MergeInt64("a", w.d)
							r.MergeInt64("b", -w.d)
							r.MergeInt64("m", w.d)
							if off != virginRow {
								r.MergeRecord("rec", &ctr{N: w.d})
							}
						}
						return nil
					})
				}
				if w.del {
					txn.DeleteAt(markRow)
				}
				if w.keep {
					off, err := txn.Insert(func(r column.Row) error {
						r.SetInt64("a", 0)
						r.SetInt64("b", 100)
						r.SetInt64("m", 0)
						return r.SetRecord("rec", &ctr{})
					})
					if err == nil {
						keptMu.Lock()
						keptOff[i] = off
						keptMu.Unlock()
					}
				}
				if w.abort {
					return errAbort
				}
				return nil
			})
		})
	}
	for j, off := range cfg.readers {
		j, off := j, off
		s.Go(len(cfg.writers)+j, func() {
			s.Yield("r.begin", off>>14)
			cb := func(r column.Row) error {
				a, ok1 := r.Int64("a")
				s.Yield("r.mid", off>>14)
				b, ok2 := r.Int64("b")
				g, _ := r.Int64("g")
				h := r.Bool("h")
				seenMu.Lock()
				seens = append(seens, seen{off, a, b, ok1 && ok2, g, h})
				seenMu.Unlock()
				return nil
			}
			if j%2 == 0 {
				// a point read inside a transaction that has already initialised its selection
				c.Query(func(txn *column.Txn) error {
					txn.Count()
					return txn.QueryAt(off, cb)
				})
			} else {
				c.QueryAt(off, cb)
			}
			s.Yield("r.end", off>>14)
		})
	}
	if cfg.ranger {
		s.Go(nthr-1, func() {
			c.Query(func(txn *column.Txn) error {
				ra, rb, rg, rh := txn.Int64("a"), txn.Int64("b"), txn.Int64("g"), txn.Bool("h")
				return txn.With("a").Range(func(i uint32) {
					a, ok1 := ra.Get()
					s.Yield("r.mid", i>>14)
					b, ok2 := rb.Get()
					g, _ := rg.Get()
					h := rh.Get()
					seenMu.Lock()
					seens = append(seens, seen{i, a, b, ok1 && ok2, g, h})
					seenMu.Unlock()
				})
			})
		})
	}
	alts, stuck := s.Run(ch)
	removeHook()
	out.Trace, out.Stuck, out.Steps, out.Choices, out.Alts = s.Trace, stuck, len(s.Trace), s.Choices, alts
	for _, st := range s.Trace {
		if st.Blocked {
			out.Blocked++
		}
	}
	if stuck {
		out.viol("C18", "some thread never finished (deadlock): %s", cfg)
		return out
	}
	for _, p := range s.panics {
		out.viol("C18", "panic: %s", p)
	}
	if len(s.panics) == 0 {
		out.Conc = concCase(c, cfg, keptOff, s.Trace)
	}
	// C10: no torn row
	for _, sn := range seens {
		if sn.ok && sn.a+sn.b != initOf(sn.row).b {
			out.viol("C10", "reader saw a=%d b=%d on row %d inside one callback (invariant a+b=%d)", sn.a, sn.b, sn.row, initOf(sn.row).b)
			out.viol("C02", "a reader saw part of a transaction's changes before the rest: a=%d b=%d on row %d inside one callback (every transaction keeps a+b=%d)", sn.a, sn.b, sn.row, initOf(sn.row).b)
		}
	}
	for _, sn := range seens {
		if sn.h != (sn.g%2 == 1) {
			out.viol("C10", "reader saw g=%d h=%v on row %d inside one callback (every transaction puts h = (g is odd) together with g)", sn.g, sn.h, sn.row)
			out.viol("C02", "a reader saw part of a transaction's changes before the rest: g=%d h=%v on row %d", sn.g, sn.h, sn.row)
		}
	}
	// C09: every row equals the fold of the committed writers in the apply order of its block
	order := applyOrder(s.Trace)
	for _, off := range cfg.rows {
		exp := initOf(off)
		for _, tid := range order[off>>14] {
			if tid >= len(cfg.writers) {
				continue
			}
			w := cfg.writers[tid]
			if w.abort {
				continue
			}
			for _, r := range w.rows {
				if r == off {
					exp = w.apply(exp)
				}
			}
		}
		got, ok := readRow(c, off)
		if off == virginRow && exp == initOf(off) && !ok {
			continue // never written
		}
		if !ok || got != exp {
			out.viol("C09", "row %d holds %+v, the fold of the committed deltas in apply order %v gives %+v", off, got, order[off>>14], exp)
		}
	}
	// C02: the row markers of committed transactions are applied, those of aborted ones are not
	wantCount := count0
	markGone := false
	for _, w := range cfg.writers {
		if w.abort {
			continue
		}
		if w.del {
			wantCount--
			markGone = true
		}
		if w.keep {
			wantCount++
		}
	}
	if n := c.Count(); n != wantCount {
		out.viol("C02", "Count is %d after the run, the committed transactions' inserts and deletes give %d (started at %d)", n, wantCount, count0)
		out.viol("C11", "once all transactions have finished Count is %d, the committed inserts and deletes leave %d live rows (started at %d)", n, wantCount, count0)
	}
	if cfg.marker {
		sel := false
		c.Query(func(txn *column.Txn) error {
			txn.Range(func(i uint32) {
				if i == markRow {
					sel = true
				}
			})
			return nil
		})
		_, has := readRow(c, markRow)
		// an inserted row may take the freed offset over: then the offset is live again, with the new row's values
		reused := false
		for _, w := range cfg.writers {
			reused = reused || (w.keep && !w.abort)
		}
		if markGone && sel && !reused {
			out.viol("C02", "row %d was deleted by a committed transaction but is still selected (has values: %v)", markRow, has)
			out.viol("C11", "the offset %d of a row deleted by a committed transaction did not become free: it is still selected (has values: %v)", markRow, has)
		}
		if !markGone && !sel {
			out.viol("C02", "row %d is gone although no committed transaction deleted it", markRow)
		}
	}
	// C15: ids distinct, non-zero, increasing per block in logger order, logger order = apply order
	ids := map[uint64]bool{}
	last := map[uint32]uint64{}
	logOrder := map[uint32][]int{}
	for _, cm := range lg.commits {
		if cm.id == 0 || ids[cm.id] {
			out.viol("C15", "commit id %d is zero or repeated", cm.id)
		}
		ids[cm.id] = true
		if cm.id <= last[cm.chunk] {
			out.viol("C15", "block %d: id %d reached the logger after %d", cm.chunk, cm.id, last[cm.chunk])
		}
		last[cm.chunk] = cm.id
		logOrder[cm.chunk] = append(logOrder[cm.chunk], cm.tid)
	}
	for b, lo := range logOrder {
		var ao []int
		for _, tid := range order[b] {
			if tid < len(cfg.writers) && !cfg.writers[tid].abort {
				ao = append(ao, tid)
			}
		}
		if fmt.Sprint(ao) != fmt.Sprint(lo) {
			out.viol("C15", "block %d: commits reached the logger in thread order %v, they were applied in order %v", b, lo, ao)
		}
	}
	// exactly one commit per block a committed writer touched
	for tid, w := range cfg.writers {
		want := map[uint32]bool{}
		if !w.abort {
			for _, r := range w.rows {
				want[r>>14] = true
			}
			if w.del || w.keep {
				want[0] = true // the marker row and the lowest free offset lie in block 0
			}
		}
		got := map[uint32]int{}
		for _, cm := range lg.commits {
			if cm.tid == tid {
				got[cm.chunk]++
			}
		}
		for b := range want {
			if got[b] != 1 {
				out.viol("C15", "writer %d emitted %d commits for block %d, want 1", tid, got[b], b)
			}
		}
		for b, n := range got {
			if !want[b] && n > 0 {
				out.viol("C15", "writer %d (abort=%v) emitted a commit for block %d it did not change", tid, w.abort, b)
			}
		}
	}
	// C06: a replica fed the stream converges
	rep := mkRowsColl(nil)
	defer rep.Close()
	seedRows(rep, cfg.seeded())
	for _, cm := range lg.commits {
		rep.Replay(cm.raw)
	}
	for _, off := range cfg.rows {
		p, _ := readRow(c, off)
		q, _ := readRow(rep, off)
		if p != q {
			out.viol("C06", "replica row %d = %+v, primary %+v", off, q, p)
		}
	}
	if rep.Count() != c.Count() {
		out.viol("C06", "replica count %d, primary %d", rep.Count(), c.Count())
	}
	pi, ri := indexRows(c, "big"), indexRows(rep, "big")
	if fmt.Sprint(pi) != fmt.Sprint(ri) {
		out.viol("C06", "replica index %v, primary %v", ri, pi)
	}
	// C03 under schedules: the index equals its predicate at quiescence
	var wantIdx []uint32
	for _, off := range cfg.rows {
		if off == virginRow {
			continue // written but never inserted: not a live row, a filter does not select it
		}
		if p, ok := readRow(c, off); ok && p.a >= 5 {
			wantIdx = append(wantIdx, off)
		}
	}
	sort.Slice(wantIdx, func(i, j int) bool { return wantIdx[i] < wantIdx[j] })
	if fmt.Sprint(pi) != fmt.Sprint(wantIdx) {
		out.viol("C03", "index holds %v, predicate selects %v", pi, wantIdx)
	}
	out.Features["writers"] = len(cfg.writers)
	out.Features["blocks"] = len(order)
	return out
}

func indexRows(c *column.Collection, name string) []uint32 {
	var out []uint32
	c.Query(func(txn *column.Txn) error {
		return txn.With(name).Range(func(i uint32) { out = append(out, i) })
	})
	return out
}

// ---------------------------------------------------------------------------------------
// scenario "snap": a snapshot beside committing writers; the restore must be a consistent cut

func runSnap(cfg rowsCfg, ch func(int, []int) int, grace time.Duration) *scenOut {
	out := &scenOut{Viol: map[string][]string{}, Known: map[string][]string{}, Desc: "snap: " + cfg.String(), Features: map[string]int{}}
	lg := &schedLogger{}
	c := mkRowsColl(lg)
	defer c.Close()
	seedRows(c, cfg.rows)
	lg.commits = nil
	nw := len(cfg.writers)
	nthr := nw + 1
	if cfg.failSnap {
		nthr++
	}
	s := NewSched(nthr, grace)
	lg.s = s
	snapLogger = lg
	snapFailErr, snapFailRan = nil, false
	installHook(s)
	if cfg.failSnap {
		// a snapshot into a destination that fails: it must not disturb the healthy one or the writers
		s.Go(nw+1, func() {
			snapFailErr = c.Snapshot(&faultWriter{w: io.Discard, failCall: 0, failByte: -1, forever: true})
			snapFailRan = true
		})
	}
	for i, w := range cfg.writers {
		w := w
		s.Go(i, func() {
			for round := 0; round <= w.rounds; round++ {
				w2 := w
				w2.d = w.d + int64(round) // every round writes its own delta: which round a restored value comes from shows
				snapWriterTxn(c, w2)
			}
		})
	}
	var snap bytes.Buffer
	var serr error
	s.Go(nw, func() { serr = c.Snapshot(&snap) })
	return runSnapRest(cfg, c, s, nw, ch, out, &snap, &serr)
}

func snapWriterTxn(c *column.Collection, w wspec) {
	{
		{
			c.Query(func(txn *column.Txn) error {
				for _, off := range w.rows {
					txn.QueryAt(off, func(r column.Row) error {
						r.SetInt64("g", w.d)
						r.SetBool("h", w.d%2 == 1)
						if w.set {
							r.SetInt64("a", w.d)
							r.SetInt64("b", initOf(off).b-w.d)
							r.SetInt64("m", w.d)
							if off != virginRow {
								r.SetRecord("rec", &ctr{N: w.d})
							}
						} else {
							r.MergeInt64("a", w.d)
							r.MergeInt64("b", -w.d)
							r.MergeInt64("m", w.d)
							if off != virginRow {
								r.MergeRecord("rec", &ctr{N: w.d})
							}
						}
						return nil
					})
				}
				if w.insert {
					// a row inserted and deleted again: the commit carries row markers (fill list update)
					if off, err := txn.Insert(func(r column.Row) error { r.SetInt64("a", 1); return nil }); err == nil {
						txn.DeleteAt(off)
						txn.QueryAt(off, func(r column.Row) error { return nil })
					}
				}
				return nil
			})
		}
	}
}

var snapLogger *schedLogger
var snapFailErr error
var snapFailRan bool

func runSnapRest(cfg rowsCfg, c *column.Collection, s *Sched, nw int, ch func(int, []int) int, out *scenOut, snapP *bytes.Buffer, serrP *error) *scenOut {
	alts, stuck := s.Run(ch)
	snap, serr := snapP, *serrP
	// C15: a snapshot in progress does not divert the change stream: every round of every writer
	// emits exactly one commit per block it changed to the collection's writer
	if !stuck && snapLogger != nil {
		got := map[[2]uint32]int{}
		for _, cm := range snapLogger.commits {
			if cm.tid >= 0 && cm.tid < nw {
				got[[2]uint32{uint32(cm.tid), cm.chunk}]++
			}
		}
		for tid, w := range cfg.writers {
			blocks := map[uint32]bool{}
			for _, r := range w.rows {
				blocks[r>>14] = true
			}
			if w.insert {
				blocks[0] = true
			}
			for b := range blocks {
				if n := got[[2]uint32{uint32(tid), b}]; n != 1+w.rounds {
					out.viol("C15", "writer %d committed block %d %d time(s) beside a snapshot but the change stream received %d commit(s) for it", tid, b, 1+w.rounds, n)
				}
			}
		}
	}
	removeHook()
	out.Trace, out.Stuck, out.Steps, out.Choices, out.Alts = s.Trace, stuck, len(s.Trace), s.Choices, alts
	if stuck {
		out.viol("C18", "some thread never finished (deadlock): %s", cfg)
		return out
	}
	for _, p := range s.panics {
		out.viol("C08", "panic beside a snapshot: %s", p)
	}
	if cfg.failSnap && snapFailRan && snapFailErr == nil {
		out.viol("C14", "a snapshot into a writer that fails on its first call returned nil")
	}
	if serr != nil {
		if cfg.failSnap && strings.Contains(serr.Error(), "another one might be in progress") {
			return out // the two snapshots overlapped and this one was refused: nothing to judge
		}
		out.viol("C08", "Snapshot failed beside concurrent writers: %v", serr)
		return out
	}
	d := mkRowsColl(nil)
	defer d.Close()
	if err := d.Restore(bytes.NewReader(snap.Bytes())); err != nil {
		out.viol("C08", "Restore of a snapshot taken beside writers failed: %v", err)
		return out
	}
	// per block: apply order, number of commits finished before the snapshot call began and
	// before it returned
	order := applyOrder(s.Trace)
	ackedBefore := map[uint32]int{}
	doneBeforeEnd := map[uint32]int{}
	started, ended := false, false
	for _, st := range s.Trace {
		if st.Tid == nw && st.From == "start" {
			started = true
		}
		if st.Tid == nw && st.To == "done" {
			ended = true
		}
		if st.From == "w.done" && !st.Blocked { // resumed from w.done: the block is unlatched, commit complete
			if !started {
				ackedBefore[st.Chunk]++
			}
			if !ended {
				doneBeforeEnd[st.Chunk]++
			}
		}
	}
	_ = doneBeforeEnd
	for b, ord := range order {
		// candidate states of the block after each prefix of its apply order
		var rowsOfBlock []uint32
		for _, off := range cfg.rows {
			if off>>14 == b {
				rowsOfBlock = append(rowsOfBlock, off)
			}
		}
		match := -1
		for n := len(ord); n >= 0; n-- {
			ok := true
			for _, off := range rowsOfBlock {
				exp := initOf(off)
				occ := map[int]int64{} // the k-th commit of a writer to this block is its k-th round
				for _, tid := range ord[:n] {
					w := cfg.writers[tid]
					w.d += occ[tid]
					occ[tid]++
					for _, r := range w.rows {
						if r == off {
							exp = w.apply(exp)
						}
					}
				}
				got, has := readRow(d, off)
				if off == virginRow && n == 0 && !has {
					continue
				}
				if !has || got != exp {
					ok = false
					break
				}
			}
			if ok {
				match = n
				break
			}
		}
		if match < 0 {
			var got []rowState
			for _, off := range rowsOfBlock {
				g, _ := readRow(d, off)
				got = append(got, g)
			}
			out.viol("C08", "block %d restored to %+v, which is no prefix of its apply order %v", b, got, ord)
			if cfg.failSnap {
				out.viol("C14", "beside a snapshot that failed, the healthy snapshot does not restore correctly: block %d restored to %+v, no prefix of its apply order %v", b, got, ord)
			}
		} else if match < ackedBefore[b] {
			out.viol("C08", "block %d restored to prefix %d of %v but %d commits were acknowledged before the snapshot began", b, match, ord, ackedBefore[b])
			if cfg.failSnap {
				out.viol("C14", "beside a snapshot that failed, the healthy snapshot misses acknowledged commits of block %d", b)
			}
		}
	}
	// blocks without a writer: unchanged
	for _, off := range cfg.rows {
		if _, touched := order[off>>14]; !touched {
			if got, ok := readRow(d, off); off != virginRow && (!ok || got != (rowState{0, 100, 0, 0})) {
				out.viol("C08", "untouched row %d restored as %+v", off, got)
			}
		}
	}
	live := 0
	for _, off := range cfg.rows {
		if off != virginRow {
			live++
		}
	}
	inflight := 0
	for _, w := range cfg.writers {
		if w.insert {
			inflight += 1 + w.rounds
		}
	}
	switch n := d.Count(); {
	case n == live:
	case n > live && n <= live+inflight:
		// finding K1: the offset reserved by an insert that was in flight while the block was read
		// is part of the fill list the snapshot wrote; its commit (insert + delete) came after the copy
		out.Known["K1"] = append(out.Known["K1"], fmt.Sprintf("restored Count %d with %d live rows: the snapshot holds the reserved offset of an in-flight insert", n, live))
	default:
		out.viol("C08", "restored Count %d, want %d", n, live)
	}
	out.Features["writers"] = nw
	return out
}

// ---------------------------------------------------------------------------------------
// scenario "ins": concurrent inserters and deleters (C11), in-flight visibility (K1), upserts (K6)

type insCfg struct {
	inserters int
	failing   []bool
	deleter   bool
	counter   bool
	keyed     bool
}

func runIns(cfg insCfg, ch func(int, []int) int, grace time.Duration) *scenOut {
	out := &scenOut{Viol: map[string][]string{}, Known: map[string][]string{}, Desc: fmt.Sprintf("ins: %+v", cfg), Features: map[string]int{}}
	c := column.NewCollection(column.Options{Vacuum: time.Hour, Capacity: 64})
	defer c.Close()
	c.CreateColumn("v", column.ForInt64())
	if cfg.keyed {
		c.CreateColumn("k", column.ForKey())
	}
	// two committed rows; row 1 is deleted again so that a freed offset exists
	for i := 0; i < 3; i++ {
		i := i
		if cfg.keyed {
			c.InsertKey(fmt.Sprintf("seed%d", i), func(r column.Row) error { r.SetInt64("v", int64(1000+i)); return nil })
		} else {
			c.Insert(func(r column.Row) error { r.SetInt64("v", int64(1000+i)); return nil })
		}
	}
	c.DeleteAt(1)
	n := cfg.inserters
	nthr := n
	if cfg.deleter {
		nthr++
	}
	if cfg.counter {
		nthr++
	}
	s := NewSched(nthr, grace)
	installHook(s)
	offs := make([]uint32, n)
	errs := make([]error, n)
	for i := 0; i < n; i++ {
		i := i
		s.Go(i, func() {
			fn := func(r column.Row) error {
				offs[i] = r.Index()
				r.SetInt64("v", int64(i+1))
				if cfg.failing[i] {
					return errFail
				}
				return nil
			}
			if cfg.keyed {
				errs[i] = c.UpsertKey("same", fn)
			} else {
				_, errs[i] = c.Insert(fn)
			}
		})
	}
	next := n
	if cfg.deleter {
		s.Go(next, func() { c.DeleteAt(0) })
		next++
	}
	var counts []int
	var inflightSeen bool
	if cfg.counter {
		s.Go(next, func() {
			s.Yield("r.begin", 0)
			counts = append(counts, c.Count())
			s.Yield("r.end", 0)
		})
	}
	alts, stuck := s.Run(ch)
	removeHook()
	out.Trace, out.Stuck, out.Steps, out.Choices, out.Alts = s.Trace, stuck, len(s.Trace), s.Choices, alts
	if stuck {
		out.viol("C18", "some thread never finished (deadlock): %+v", cfg)
		return out
	}
	for _, p := range s.panics {
		out.viol("C18", "panic: %s", p)
	}
	// live rows and their values
	live := map[uint32]int64{}
	c.Query(func(txn *column.Txn) error {
		rv := txn.Int64("v")
		return txn.Range(func(i uint32) {
			v, _ := rv.Get()
			live[i] = v
		})
	})
	committed := 0
	seenOff := map[uint32]int{}
	for i := 0; i < n; i++ {
		if errs[i] != nil {
			continue
		}
		committed++
		if cfg.keyed {
			continue // upserts of one key: see K6 below
		}
		if j, dup := seenOff[offs[i]]; dup {
			out.viol("C11", "inserts %d and %d both received offset %d", j, i, offs[i])
		}
		seenOff[offs[i]] = i
		if v, ok := live[offs[i]]; !ok || v != int64(i+1) {
			out.viol("C11", "row %d inserted by thread %d reads v=%d present=%v", offs[i], i, v, ok)
		}
	}
	if c.Count() != len(live) {
		out.viol("C11", "Count()=%d but %d rows are live once all transactions finished", c.Count(), len(live))
	}
	if !cfg.keyed {
		want := 2 + committed
		if cfg.deleter {
			want--
		}
		if len(live) != want {
			out.viol("C11", "%d live rows, want %d", len(live), want)
		}
	} else {
		// K6: concurrent upserts of one new key may create more than one row
		rows := 0
		for _, v := range live {
			if v >= 1 && v <= int64(n) {
				rows++
			}
		}
		if rows > 1 {
			out.Known["K6"] = append(out.Known["K6"], fmt.Sprintf("%d concurrent UpsertKey of one new key created %d rows", n, rows))
		}
	}
	// K1: Count observed by another thread while inserts were in flight
	for _, k := range counts {
		if k > 2+committed || k < 1 {
			inflightSeen = true
		}
	}
	_ = inflightSeen
	out.Features["inserters"] = n
	return out
}

// ---------------------------------------------------------------------------------------
// scenario "keys": key operations of concurrent writers and the replica's key table (C06, C12)

func mkKeyedColl(lg commit.Logger) *column.Collection {
	c := column.NewCollection(column.Options{Vacuum: time.Hour, Writer: lg, Capacity: 64})
	c.CreateColumn("v", column.ForInt64())
	c.CreateColumn("k", column.ForKey())
	return c
}

func seedKeyed(c *column.Collection) {
	for _, kv := range []struct {
		off uint32
		key string
	}{{0, "z"}, {16384 + 2, "k"}} {
		row := commit.NewBuffer(16)
		row.Reset("row")
		row.PutOperation(commit.Insert, kv.off)
		kb := commit.NewBuffer(16)
		kb.Reset("k")
		kb.PutString(commit.Put, kv.off, kv.key)
		vb := commit.NewBuffer(16)
		vb.Reset("v")
		vb.PutUint64(commit.Put, kv.off, 1)
		c.Replay(commit.Commit{ID: commit.Next(), Chunk: commit.ChunkAt(kv.off), Updates: []*commit.Buffer{row, kb, vb}})
	}
}

func keyState(c *column.Collection) string {
	out := ""
	for _, k := range []string{"k", "z", "n"} {
		var v int64
		var has bool
		err := c.QueryKey(k, func(r column.Row) error { v, has = r.Int64("v"); return nil })
		out += fmt.Sprintf("%s:%v/%d/%v ", k, err == nil, v, has)
	}
	return out + fmt.Sprintf("count=%d", c.Count())
}

func runKeys(variant int, ch func(int, []int) int, grace time.Duration) *scenOut {
	out := &scenOut{Viol: map[string][]string{}, Known: map[string][]string{}, Desc: fmt.Sprintf("keys: variant %d", variant), Features: map[string]int{}}
	lg := &schedLogger{}
	c := mkKeyedColl(lg)
	defer c.Close()
	seedKeyed(c)
	lg.commits = nil
	bodies := []func(){
		func() { c.DeleteKey("k") },
		func() { c.InsertKey("k", func(r column.Row) error { r.SetInt64("v", 7); return nil }) },
	}
	if variant%2 == 1 {
		bodies = append(bodies, func() { c.UpsertKey("z", func(r column.Row) error { r.MergeInt64("v", 1); return nil }) })
	}
	if variant%3 == 2 {
		bodies = append(bodies, func() { c.QueryKey("z", func(r column.Row) error { r.SetKey("n"); return nil }) })
	}
	s := NewSched(len(bodies), grace)
	lg.s = s
	installHook(s)
	for i, f := range bodies {
		s.Go(i, f)
	}
	alts, stuck := s.Run(ch)
	removeHook()
	out.Trace, out.Stuck, out.Steps, out.Choices, out.Alts = s.Trace, stuck, len(s.Trace), s.Choices, alts
	if stuck {
		out.viol("C18", "some thread never finished (deadlock) in the keys scenario")
		return out
	}
	for _, p := range s.panics {
		out.viol("C18", "panic: %s", p)
	}
	rep := mkKeyedColl(nil)
	defer rep.Close()
	seedKeyed(rep)
	for _, cm := range lg.commits {
		rep.Replay(cm.raw)
	}
	if p, r := keyState(c), keyState(rep); p != r {
		out.viol("C06", "key lookups on the replica differ from the primary: primary [%s] replica [%s]", p, r)
	}
	return out
}

// ---------------------------------------------------------------------------------------
// scenario "ddl": triggers dropped and created, an index dropped, beside committing writers.
// C19: a trigger that exists throughout is called exactly once per committed store, and no
// trigger is ever called twice for one store; C03: the surviving index equals its predicate.

type trigEv struct {
	off uint32
	val int64
	del bool
}

func runDDL(cfgSeed uint64, ch func(int, []int) int, grace time.Duration) *scenOut {
	rng := NewRng(cfgSeed ^ 0xdd1)
	rows := []uint32{0, 1, 16384 + 3}
	nTrig := 2 + rng.Intn(2)
	survivor := rng.Intn(nTrig)
	addLate := rng.Chance(50)
	dropIndex := rng.Chance(40)
	var writers []wspec
	for i := 0; i < 2; i++ {
		w := wspec{d: int64(1 + rng.Intn(9)), set: rng.Chance(25)}
		perm := append([]uint32(nil), rows...)
		for j := range perm {
			x := j + rng.Intn(len(perm)-j)
			perm[j], perm[x] = perm[x], perm[j]
		}
		w.rows = perm[:1+rng.Intn(len(perm))]
		writers = append(writers, w)
	}
	out := &scenOut{Viol: map[string][]string{}, Known: map[string][]string{}, Features: map[string]int{},
		Desc: fmt.Sprintf("ddl: triggers=%d survivor=%d late=%v dropindex=%v writers=%+v", nTrig, survivor, addLate, dropIndex, writers)}
	lg := &schedLogger{}
	c := mkRowsColl(lg)
	defer c.Close()
	seedRows(c, rows)
	lg.commits = nil
	var mu sync.Mutex
	events := make([][]trigEv, nTrig+1)
	recorder := func(i int) func(column.Reader) {
		return func(r column.Reader) {
			mu.Lock()
			defer mu.Unlock()
			if r.IsDelete() {
				events[i] = append(events[i], trigEv{off: r.Index(), del: true})
				return
			}
			events[i] = append(events[i], trigEv{off: r.Index(), val: int64(r.Int())})
		}
	}
	for i := 0; i < nTrig; i++ {
		c.CreateTrigger(fmt.Sprint("t", i), "a", recorder(i))
	}
	s := NewSched(len(writers)+1, grace)
	lg.s = s
	installHook(s)
	for i, w := range writers {
		w := w
		s.Go(i, func() {
			c.Query(func(txn *column.Txn) error {
				for _, off := range w.rows {
					txn.QueryAt(off, func(r column.Row) error {
						if w.set {
							r.SetInt64("a", w.d)
						} else {
							r.MergeInt64("a", w.d)
						}
						return nil
					})
				}
				return nil
			})
		})
	}
	s.Go(len(writers), func() {
		order := rng.Fork(7)
		var victims []int
		for i := 0; i < nTrig; i++ {
			if i != survivor {
				victims = append(victims, i)
			}
		}
		for j := range victims {
			x := j + order.Intn(len(victims)-j)
			victims[j], victims[x] = victims[x], victims[j]
		}
		for k, v := range victims {
			s.Yield("d.step", 0)
			c.DropTrigger(fmt.Sprint("t", v))
			if k == 0 && addLate {
				s.Yield("d.step", 0)
				c.CreateTrigger("late", "a", recorder(nTrig))
			}
			if k == 0 && dropIndex {
				s.Yield("d.step", 0)
				c.DropIndex("big")
			}
		}
		s.Yield("d.end", 0)
	})
	alts, stuck := s.Run(ch)
	removeHook()
	out.Trace, out.Stuck, out.Steps, out.Choices, out.Alts = s.Trace, stuck, len(s.Trace), s.Choices, alts
	if stuck {
		out.viol("C18", "some thread never finished (deadlock) in the ddl scenario")
		return out
	}
	for _, p := range s.panics {
		out.viol("C18", "panic: %s", p)
	}
	stores := map[uint32]int{} // committed stores per row
	for _, w := range writers {
		for _, off := range w.rows {
			stores[off]++
		}
	}
	final := map[uint32]int64{}
	for _, off := range rows {
		if rs, ok := readRow(c, off); ok {
			final[off] = rs.a
		}
	}
	mu.Lock()
	defer mu.Unlock()
	for i, evs := range events {
		n := map[uint32]int{}
		last := map[uint32]int64{}
		for _, e := range evs {
			n[e.off]++
			last[e.off] = e.val
		}
		name := fmt.Sprint("t", i)
		if i == nTrig {
			name = "late"
		}
		for off, k := range n {
			if k > stores[off] {
				out.viol("C19", "trigger %s was called %d times for row %d, which %d committed transactions stored to", name, k, off, stores[off])
			}
		}
		if i == survivor {
			for off, k := range stores {
				if n[off] != k {
					out.viol("C19", "trigger %s (never dropped) was called %d times for row %d, which %d committed transactions stored to", name, n[off], off, k)
				} else if last[off] != final[off] {
					out.viol("C19", "trigger %s: the last event for row %d carries %d, the row holds %d", name, off, last[off], final[off])
				}
			}
		}
	}
	if !dropIndex {
		c.Query(func(txn *column.Txn) error {
			in := map[uint32]bool{}
			txn.With("big").Range(func(i uint32) { in[i] = true })
			for _, off := range rows {
				if want := final[off] >= 5; in[off] != want {
					out.viol("C03", "index big: row %d (a=%d) membership %v beside trigger drops", off, final[off], in[off])
				}
			}
			return nil
		})
	}
	return out
}


// concCase renders a finished run of the rows scenario for coq/ConcCheck.v conc_check: the seed
// transaction, every committing writer's transaction as the API queued it, the order in which the
// threads acquired the block latches, and what the collection shows afterwards
func concCase(c *column.Collection, cfg rowsCfg, kept map[int]uint32, trace []TraceStep) string {
	u := func(v int64) string { return fmt.Sprintf("(V8 %d)", uint64(v)) }
	be := func(v int64) string {
		b, _ := (&ctr{N: v}).MarshalBinary()
		return "(VB " + coqBytes(b) + ")"
	}
	type bufs struct {
		cols [7][]string
		row  []string
	}
	render := func(b *bufs) string {
		var cs []string
		for id := 1; id <= 6; id++ {
			if len(b.cols[id]) > 0 {
				cs = append(cs, fmt.Sprintf("(%d, [%s])", id, strings.Join(b.cols[id], "; ")))
			}
		}
		return fmt.Sprintf("(mk [%s] [%s])", strings.Join(cs, "; "), strings.Join(b.row, "; "))
	}
	op := func(k string, off uint32, v string) string { return fmt.Sprintf("mkop %s %d %s", k, off, v) }
	seed := &bufs{}
	for _, off := range cfg.seeded() {
		if off == virginRow {
			continue
		}
		seed.row = append(seed.row, op("KInsert", off, "V0"))
		seed.cols[1] = append(seed.cols[1], op("KPut", off, u(0)))
		seed.cols[2] = append(seed.cols[2], op("KPut", off, u(100)))
		seed.cols[3] = append(seed.cols[3], op("KPut", off, u(0)))
		seed.cols[4] = append(seed.cols[4], op("KPut", off, be(0)))
	}
	var ws []string
	watch := append([]uint32(nil), cfg.seeded()...)
	for i, w := range cfg.writers {
		if w.abort {
			continue
		}
		b := &bufs{}
		for _, off := range w.rows {
			b.cols[5] = append(b.cols[5], op("KPut", off, u(w.d)))
			if w.d%2 == 1 {
				b.cols[6] = append(b.cols[6], op("KPut", off, "V0"))
			} else {
				b.cols[6] = append(b.cols[6], op("KDelete", off, "V0"))
			}
			k := "KMerge"
			vb := -w.d
			if w.set {
				k, vb = "KPut", initOf(off).b-w.d
			}
			b.cols[1] = append(b.cols[1], op(k, off, u(w.d)))
			b.cols[2] = append(b.cols[2], op(k, off, u(vb)))
			b.cols[3] = append(b.cols[3], op(k, off, u(w.d)))
			if off != virginRow {
				b.cols[4] = append(b.cols[4], op(k, off, be(w.d)))
			}
		}
		if w.del {
			b.row = append(b.row, op("KDelete", markRow, "V0"))
		}
		if w.keep {
			off, ok := kept[i]
			if !ok {
				return "" // the insert failed: not a case
			}
			b.row = append(b.row, op("KInsert", off, "V0"))
			b.cols[1] = append(b.cols[1], op("KPut", off, u(0)))
			b.cols[2] = append(b.cols[2], op("KPut", off, u(100)))
			b.cols[3] = append(b.cols[3], op("KPut", off, u(0)))
			b.cols[4] = append(b.cols[4], op("KPut", off, be(0)))
			watch = append(watch, off)
		}
		ws = append(ws, fmt.Sprintf("(%d%%nat, %s)", i, render(b)))
	}
	var order []string
	for _, st := range trace {
		if st.To == "w.latched" && st.Tid < len(cfg.writers) && !cfg.writers[st.Tid].abort {
			order = append(order, fmt.Sprintf("(%d%%nat, %d)", st.Tid, st.ToChunk))
		}
	}
	var obs []string
	seen := map[uint32]bool{}
	for _, off := range watch {
		if seen[off] {
			continue
		}
		seen[off] = true
		fillWords := c.VerifFill()
		live := int(off>>6) < len(fillWords) && fillWords[off>>6]&(1<<(off&63)) != 0
		var vals []string
		c.QueryAt(off, func(r column.Row) error {
			for id, name := range []string{"", "a", "b", "m", "", "g"} {
				if name == "" {
					continue
				}
				if v, ok := r.Int64(name); ok {
					vals = append(vals, fmt.Sprintf("(%d, Some %s)", id, u(v)))
				} else {
					vals = append(vals, fmt.Sprintf("(%d, None)", id))
				}
			}
			if v, ok := r.Record("rec"); ok {
				vals = append(vals, fmt.Sprintf("(4, Some %s)", be(v.(*ctr).N)))
			} else {
				vals = append(vals, "(4, None)")
			}
			if r.Bool("h") {
				vals = append(vals, "(6, Some V0)")
			} else {
				vals = append(vals, "(6, None)")
			}
			return nil
		})
		obs = append(obs, fmt.Sprintf("(%d, %v, [%s])", off, live, strings.Join(vals, "; ")))
	}
	return fmt.Sprintf("(%s, [%s], [%s], [%s], %d)", render(seed), strings.Join(ws, "; "), strings.Join(order, "; "), strings.Join(obs, "; "), c.Count())
}
