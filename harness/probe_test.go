package main

// Probes for the defects that need a fault or a schedule to manifest (DESIGN.md section 6).
// They document the failing input of each "fixed:" entry of KNOWN_FINDINGS.txt and pass on
// the repaired tree:  go test -tags verif -run Probe .

import (
	"bytes"
	"errors"
	"os"
	"sync"
	"testing"
	"time"

	"github.com/kelindar/column"
	"github.com/kelindar/column/commit"
)

type failWriter struct{ after, n int }

func (f *failWriter) Write(p []byte) (int, error) {
	f.n++
	if f.n > f.after {
		return 0, errors.New("disk full")
	}
	return len(p), nil
}

func countFDs() int {
	d, _ := os.ReadDir("/proc/self/fd")
	return len(d)
}

func smallCollection() *column.Collection {
	c := column.NewCollection(column.Options{Vacuum: time.Hour})
	c.CreateColumn("v", column.ForInt())
	for i := 0; i < 10; i++ {
		c.Insert(func(r column.Row) error { r.SetInt("v", i); return nil })
	}
	return c
}

// D9: after one failed Snapshot every later Snapshot fails
func TestProbeD9(t *testing.T) {
	c := smallCollection()
	if err := c.Snapshot(&failWriter{after: 0}); err == nil {
		t.Fatal("expected the failing writer's error")
	}
	var buf bytes.Buffer
	if err := c.Snapshot(&buf); err != nil {
		t.Fatalf("snapshot to a healthy writer after a failed one: %v", err)
	}
}

// D22: successful snapshots leak one descriptor each
func TestProbeD22(t *testing.T) {
	c := smallCollection()
	var buf bytes.Buffer
	c.Snapshot(&buf)
	before := countFDs()
	for i := 0; i < 50; i++ {
		buf.Reset()
		if err := c.Snapshot(&buf); err != nil {
			t.Fatal(err)
		}
	}
	if after := countFDs(); after > before+5 {
		t.Fatalf("open descriptors grew from %d to %d over 50 snapshots", before, after)
	}
}

type idLogger struct {
	mu  sync.Mutex
	ids []uint64
}

func (l *idLogger) Append(c commit.Commit) error {
	l.mu.Lock()
	l.ids = append(l.ids, c.ID)
	l.mu.Unlock()
	return nil
}

// D16: a writer paused between drawing its commit id and taking the block latch is overtaken,
// so the ids reach the logger (and the block) out of order
func TestProbeD16(t *testing.T) {
	lg := &idLogger{}
	c := column.NewCollection(column.Options{Vacuum: time.Hour, Writer: lg})
	c.CreateColumn("v", column.ForInt())
	c.Insert(func(r column.Row) error { r.SetInt("v", 0); return nil })
	lg.ids = nil

	paused := make(chan struct{})
	resume := make(chan struct{})
	var once sync.Once
	var slow sync.Map // goroutine marker: only the first writer pauses
	column.VerifHook.Store(func(point string, chunk uint32) {
		if _, isSlow := slow.Load("armed"); !isSlow {
			return
		}
		// the slow writer pauses wherever it stands between the id draw and the latch
		if point == "w.id" {
			once.Do(func() {
				slow.Delete("armed")
				close(paused)
				<-resume
			})
		}
	})
	defer column.VerifHook.Store(func(string, uint32) {})

	var wg sync.WaitGroup
	wg.Add(1)
	slow.Store("armed", true)
	go func() {
		defer wg.Done()
		c.QueryAt(0, func(r column.Row) error { r.SetInt("v", 1); return nil })
	}()
	select {
	case <-paused:
		// the slow writer holds an id; if it also holds the latch the fast writer below
		// blocks until resume, which is the repaired behaviour
		done := make(chan struct{})
		go func() {
			c.QueryAt(0, func(r column.Row) error { r.SetInt("v", 2); return nil })
			close(done)
		}()
		select {
		case <-done:
		case <-time.After(300 * time.Millisecond):
		}
		close(resume)
		<-done
	case <-time.After(2 * time.Second):
		t.Skip("yield point w.id not reached")
	}
	wg.Wait()
	lg.mu.Lock()
	defer lg.mu.Unlock()
	for i := 1; i < len(lg.ids); i++ {
		if lg.ids[i] <= lg.ids[i-1] {
			t.Fatalf("block 0 commit ids reached the logger out of order: %v", lg.ids)
		}
	}
}
