package main

// Sequential histories: generates a random history statement by statement, executes it on the
// real collection, and renders (history, observations) as a Gallina term for coq/Check.v.

import (
	"bytes"
	"math"
	"errors"
	"fmt"
	"runtime/debug"
	"sort"
	"strings"
	"sync"
	"sync/atomic"
	"time"

	"github.com/kelindar/column"
	"github.com/kelindar/column/commit"
)

// shortStack names the first frames of the panicking goroutine that belong to kelindar/column
func shortStack() string {
	lines := strings.Split(string(debug.Stack()), "\n")
	var out []string
	for _, l := range lines {
		if strings.HasPrefix(l, "github.com/kelindar/column") {
			if i := strings.LastIndex(l, "("); i > 0 {
				l = l[:i]
			}
			out = append(out, strings.TrimPrefix(strings.TrimSpace(l), "github.com/kelindar/column"))
		}
		if len(out) >= 4 {
			break
		}
	}
	return strings.Join(out, " < ")
}

var errAbort = errors.New("abort")
var errFail = errors.New("insert failed")

const expireID = 99

// ---------------------------------------------------------------------------------------
// predicates (mirrors Store.v vpred / eval_pred)

type Pred struct {
	Kind string // signed, unsigned, streq, lengt, true
	Cmp  string // lt, ge, eq
	K    int64
	S    []byte
}

func (p Pred) Coq() string {
	cmp := map[string]string{"lt": "CLt", "ge": "CGe", "eq": "CEq"}[p.Cmp]
	switch p.Kind {
	case "signed":
		return fmt.Sprintf("(PSigned %s (%d)%%Z)", cmp, p.K)
	case "unsigned":
		return fmt.Sprintf("(PUnsigned %s %d)", cmp, uint64(p.K))
	case "float":
		return fmt.Sprintf("(PFloat %s (%d)%%Z)", cmp, p.K)
	case "streq":
		return "(PStrEq " + coqBytes(p.S) + ")"
	case "lengt":
		return fmt.Sprintf("(PLenGt %d)", p.K)
	}
	return "PTrue"
}

func cmpI(c string, a, b int64) bool {
	switch c {
	case "lt":
		return a < b
	case "ge":
		return a >= b
	}
	return a == b
}
func cmpU(c string, a, b uint64) bool {
	switch c {
	case "lt":
		return a < b
	case "ge":
		return a >= b
	}
	return a == b
}

// EvalReader is the index rule as a user would write it against column.Reader.
func (p Pred) EvalReader(r column.Reader) bool {
	switch p.Kind {
	case "signed":
		return cmpI(p.Cmp, int64(r.Int()), p.K)
	case "unsigned":
		return cmpU(p.Cmp, uint64(r.Uint()), uint64(p.K))
	case "float":
		return cmpF(p.Cmp, r.Float(), float64(p.K))
	case "streq":
		return r.String() == string(p.S)
	case "lengt":
		return int64(len(r.String())) > p.K
	}
	return true
}

func cmpF(c string, a, b float64) bool {
	switch c {
	case "lt":
		return a < b
	case "ge":
		return a >= b
	}
	return a == b
}

func randPred(r *Rng, k Kind) Pred {
	cmps := []string{"lt", "ge", "eq"}
	switch {
	case k.IntFloat():
		return Pred{Kind: "float", Cmp: cmps[r.Intn(3)], K: int64(r.Intn(120)) - 30}
	case k == KBool:
		return Pred{Kind: "true"}
	case k.Stringy():
		if r.Bool() {
			return Pred{Kind: "streq", S: []byte(strAlphabet[r.Intn(len(strAlphabet))])}
		}
		return Pred{Kind: "lengt", K: int64(r.Intn(3))}
	case k.Signed():
		return Pred{Kind: "signed", Cmp: cmps[r.Intn(3)], K: int64(r.Intn(100)) - 30}
	default: // unsigned ints and float bit patterns
		return Pred{Kind: "unsigned", Cmp: cmps[r.Intn(3)], K: int64(r.Intn(100))}
	}
}

// ---------------------------------------------------------------------------------------

type Comp struct {
	ID     int
	Name   string
	Target Col
	Kind   string // index, trigger, sorted
	Pred   Pred
}

type rowObs struct {
	vals map[int]Val
	idxs []int
}

func (a rowObs) equal(b rowObs) bool {
	if len(a.vals) != len(b.vals) || len(a.idxs) != len(b.idxs) {
		return false
	}
	for k, v := range a.vals {
		if w, ok := b.vals[k]; !ok || !v.Equal(w) {
			return false
		}
	}
	for i := range a.idxs {
		if a.idxs[i] != b.idxs[i] {
			return false
		}
	}
	return true
}

func (a rowObs) Coq() string {
	ids := make([]int, 0, len(a.vals))
	for k := range a.vals {
		ids = append(ids, k)
	}
	sort.Ints(ids)
	var vs []string
	for _, id := range ids {
		vs = append(vs, fmt.Sprintf("(%d, %s)", id, a.vals[id].Coq()))
	}
	var is []string
	for _, i := range a.idxs {
		is = append(is, fmt.Sprint(i))
	}
	return fmt.Sprintf("([%s], [%s])", strings.Join(vs, "; "), strings.Join(is, "; "))
}

type opRec struct {
	kind string
	off  uint32
	val  Val
}

func (o opRec) Coq() string {
	return fmt.Sprintf("mkop %s %d %s", o.kind, o.off, o.val.Coq())
}

type commitRec struct {
	id    uint64
	chunk uint32
	row   []opRec
	cols  map[int][]opRec
	raw   commit.Commit // clone for the replica
}

// recLogger decodes and records every commit it is handed (the change stream).
type recLogger struct {
	mu      sync.Mutex
	w       *World
	commits []commitRec
	file    *rwBuffer   // serialized route
	log     *commit.Log // writer over file
	seen    int         // commits of the file already replayed
}

type rwBuffer struct{ bytes.Buffer }

var opNames = map[commit.OpType]string{commit.Delete: "KDelete", commit.Insert: "KInsert", commit.Put: "KPut", commit.Merge: "KMerge", commit.Skip: "KSkip"}

func (l *recLogger) Append(c commit.Commit) error {
	l.mu.Lock()
	defer l.mu.Unlock()
	rec := commitRec{id: c.ID, chunk: uint32(c.Chunk), cols: map[int][]opRec{}}
	rd := commit.NewReader()
	for _, u := range c.Updates {
		name := u.Column
		var col *Col
		if name != "row" {
			col = l.w.colByName(name)
			if col == nil {
				continue
			}
		}
		rd.Range(u, c.Chunk, func(r *commit.Reader) {
			for r.Next() {
				if r.Type == commit.Skip {
					continue
				}
				o := opRec{kind: opNames[r.Type], off: r.Index()}
				if col == nil || r.Type == commit.Delete || r.Type == commit.Insert {
					o.val = Val{W: 0}
					if col != nil && r.Type == commit.Delete {
						o.val = Val{W: 0}
					}
					rec.rowOrCol(col, o)
					continue
				}
				o.val = decodeVal(col.K, r)
				rec.rowOrCol(col, o)
			}
		})
	}
	if l.log != nil {
		if err := l.log.Append(c); err != nil {
			return err
		}
	}
	rec.raw = c.Clone()
	if rec.raw.ID != c.ID { // what a commit.Channel consumer would receive
		l.w.stats.IdViolations = append(l.w.stats.IdViolations, fmt.Sprintf("Commit.Clone of id %d carries id %d (what commit.Channel delivers)", c.ID, rec.raw.ID))
	}
	l.commits = append(l.commits, rec)
	return nil
}

func (rec *commitRec) rowOrCol(col *Col, o opRec) {
	if col == nil {
		rec.row = append(rec.row, o)
	} else {
		rec.cols[col.ID] = append(rec.cols[col.ID], o)
	}
}

func decodeVal(k Kind, r *commit.Reader) Val {
	switch w := k.Width(); w {
	case 0:
		return Val{W: 0}
	case -1:
		return Val{W: -1, B: append([]byte(nil), r.Bytes()...)}
	default:
		b := r.Bytes()
		var n uint64
		for _, x := range b {
			n = n<<8 | uint64(x)
		}
		return Val{W: len(b), N: n}
	}
}

func (c commitRec) Coq() string {
	var row []string
	for _, o := range c.row {
		row = append(row, o.Coq())
	}
	ids := make([]int, 0, len(c.cols))
	for k := range c.cols {
		ids = append(ids, k)
	}
	sort.Ints(ids)
	var cols []string
	for _, id := range ids {
		var ops []string
		for _, o := range c.cols[id] {
			ops = append(ops, o.Coq())
		}
		cols = append(cols, fmt.Sprintf("(%d, [%s])", id, strings.Join(ops, "; ")))
	}
	return fmt.Sprintf("mkcrec 0 %d [%s] [%s]", c.chunk, strings.Join(row, "; "), strings.Join(cols, "; "))
}

// ---------------------------------------------------------------------------------------

type Stats struct {
	Cases, Steps, Txns, Commits, Aborts, Stmts   int
	StmtKinds                                    map[string]int
	KindsUsed                                    map[string]int
	MultiBlockTxns, ReuseAfterDelete, YoungCols  int
	Restores, Replicas, Keyed, Seeded, Tall      int
	Nested, LateIndexes, DroppedCols, KeyProbes  int
	SortProbes, SortProbesNoReuse                int
	WritesByKind                                 map[string]int
	FailedInserts, EmittedCommits, TriggerEvents int
	IdViolations                                 []string
	MaxRows                                      int
}

func newStats() *Stats {
	return &Stats{StmtKinds: map[string]int{}, KindsUsed: map[string]int{}, WritesByKind: map[string]int{}}
}

type World struct {
	holey    map[int]bool // columns seeded without any value in some block
	stepMu   sync.Mutex
	doing    string
	rng      *Rng
	prof     Profile
	opts     column.Options
	cols     []Col
	comps    []Comp
	nextID   int
	keyed    bool
	keyCol   *Col
	coll     *column.Collection
	replica  *column.Collection
	logger   *recLogger
	prev     map[uint32]rowObs
	prevKeys map[string]uint32
	trig     map[int][]string // events since the last observation, rendered
	trigMu   sync.Mutex
	steps    []string
	stats    *Stats
	everDel  map[uint32]bool
	lastIDs  map[uint32]uint64 // last commit id seen per chunk (monotonicity monitor)
	allIDs   map[uint64]bool
	notes    []string
	panicked string
	seedKeys []string
}

type Profile struct {
	Name        string
	Txns        int
	KeyedPct    int
	SeedPct     int // start from a sparse multi-block state built through Replay
	TallPct     int
	SchemaPct   int // chance of a schema step between transactions
	LateIdxPct  int // chance of creating indexes right after the seeded rows
	DenseFirstPct int // given a dense block: chance that it is the first instead of the last
	RestorePct  int
	ReplicaPct  int
	AbortPct    int
	FilterPct   int
	FailInsPct  int
	MaxStmts    int
	Long        bool
	Kinds       []Kind // restrict kinds (nil = all)
	NoComputed  bool
	K2          bool // allow several writes per string cell around a length-changing merge (finding K2)
	K5          bool
	K7          bool
	DensePct    int // chance that a seeded history fills its last block completely
	NestedPct   int // chance of a whole transaction nested inside another one's callback
	ForceSorted bool // always create a sorted index and iterate it often
}

func (w *World) colByName(n string) *Col {
	if n == "expire" {
		return &Col{ID: expireID, Name: "expire", K: KInt64}
	}
	for i := range w.cols {
		if w.cols[i].Name == n {
			return &w.cols[i]
		}
	}
	return nil
}

func (w *World) allCols() []Col {
	out := append([]Col(nil), w.cols...)
	return append(out, Col{ID: expireID, Name: "expire", K: KInt64})
}

func (w *World) emit(format string, a ...interface{}) {
	w.stepMu.Lock()
	w.steps = append(w.steps, fmt.Sprintf(format, a...))
	w.stepMu.Unlock()
	w.stats.Steps++
}

func (w *World) setDoing(format string, a ...interface{}) {
	w.stepMu.Lock()
	w.doing = fmt.Sprintf(format, a...)
	w.stepMu.Unlock()
}

func (w *World) newCollection() *column.Collection {
	o := w.opts
	o.Vacuum = time.Hour
	o.Writer = w.logger
	return column.NewCollection(o)
}

func (w *World) triggerFn(cp Comp) func(r column.Reader) {
	id, k := cp.ID, cp.Target.K
	return func(r column.Reader) {
		w.trigMu.Lock()
		defer w.trigMu.Unlock()
		w.stats.TriggerEvents++
		if r.IsDelete() {
			w.trig[id] = append(w.trig[id], fmt.Sprintf("TDeleted %d", r.Index()))
			return
		}
		v := decodeVal(k, r.(*commit.Reader))
		w.trig[id] = append(w.trig[id], fmt.Sprintf("TStored %d %s", r.Index(), v.Coq()))
		// the typed accessors a trigger would use must agree with the entry's bytes
		if k.Numeric() && !k.Float() && (v.W == 2 || v.W == 4 || v.W == 8) {
			var sx int64
			switch v.W {
			case 2:
				sx = int64(int16(v.N))
			case 4:
				sx = int64(int32(v.N))
			default:
				sx = int64(v.N)
			}
			if got := int64(r.Int()); got != sx && len(w.notes) < 20 {
				w.notes = append(w.notes, fmt.Sprintf("Trigger: event for row %d carries the %d-byte value %d but Reader.Int() = %d", r.Index(), v.W, sx, got))
			}
			if got := uint64(r.Uint()); got != v.N && len(w.notes) < 20 {
				w.notes = append(w.notes, fmt.Sprintf("Trigger: event for row %d carries the %d-byte value %d but Reader.Uint() = %d", r.Index(), v.W, v.N, got))
			}
		}
		if k.IntFloat() {
			want := math.Float64frombits(v.N)
			if v.W == 4 {
				want = float64(math.Float32frombits(uint32(v.N)))
			}
			if got := r.Float(); got != want && len(w.notes) < 20 {
				w.notes = append(w.notes, fmt.Sprintf("Trigger: event for row %d carries %v but Reader.Float() = %v", r.Index(), want, got))
			}
		}
	}
}

func (w *World) createComp(c *column.Collection, cp Comp) error {
	switch cp.Kind {
	case "index":
		p := cp.Pred
		return c.CreateIndex(cp.Name, cp.Target.Name, func(r column.Reader) bool { return p.EvalReader(r) })
	case "trigger":
		return c.CreateTrigger(cp.Name, cp.Target.Name, w.triggerFn(cp))
	default:
		return c.CreateSortIndex(cp.Name, cp.Target.Name)
	}
}

// replica triggers are not observed
func (w *World) createCompSilent(c *column.Collection, cp Comp) error {
	if cp.Kind == "trigger" {
		return c.CreateTrigger(cp.Name, cp.Target.Name, func(r column.Reader) {})
	}
	return w.createComp(c, cp)
}

func (w *World) addColumn(k Kind) { w.addColumnNamed(k, "") }

func (w *World) addColumnNamed(k Kind, name string) {
	id := w.nextID
	w.nextID++
	if name == "" {
		name = fmt.Sprintf("c%d_%s", id, k)
	}
	col := Col{ID: id, Name: name, K: k}
	if err := col.Create(w.coll); err != nil {
		panic(err)
	}
	if w.replica != nil {
		col.Create(w.replica)
	}
	w.cols = append(w.cols, col)
	w.stats.KindsUsed[k.String()]++
	if k == KKey {
		w.keyCol = &w.cols[len(w.cols)-1]
	}
	w.emit("StCol %d %s %v", id, col.CoqCol(), k == KKey)
}

func (w *World) addComp(kind string) {
	var cands []Col
	for _, c := range w.cols {
		if kind == "sorted" && !(c.K == KStr || c.K == KStrCat || c.K == KStrMin || c.K == KEnum || c.K == KKey) {
			continue
		}
		cands = append(cands, c)
	}
	if len(cands) == 0 {
		return
	}
	tgt := cands[w.rng.Intn(len(cands))]
	id := w.nextID
	w.nextID++
	cp := Comp{ID: id, Name: fmt.Sprintf("x%d_%s", id, kind), Target: tgt, Kind: kind}
	if kind == "index" {
		cp.Pred = randPred(w.rng, tgt.K)
	}
	if err := w.createComp(w.coll, cp); err != nil {
		panic(err)
	}
	if w.replica != nil {
		w.createCompSilent(w.replica, cp)
	}
	w.comps = append(w.comps, cp)
	switch kind {
	case "index":
		w.emit("StIndex %d %d %s", id, tgt.ID, cp.Pred.Coq())
	case "trigger":
		w.emit("StTrigger %d %d", id, tgt.ID)
	default:
		w.emit("StSorted %d %d", id, tgt.ID)
	}
}

// dropColumn drops a value column nothing hangs off (no index, trigger or sorted index targets it,
// it is not the key): it leaves the registry, the rows lose that value
func (w *World) dropColumn() {
	var cands []int
	for i, c := range w.cols {
		if c.K == KKey {
			continue
		}
		used := false
		for _, cp := range w.comps {
			used = used || cp.Target.ID == c.ID
		}
		if !used {
			cands = append(cands, i)
		}
	}
	if len(cands) == 0 || len(w.cols) <= 2 {
		return
	}
	i := cands[w.rng.Intn(len(cands))]
	col := w.cols[i]
	w.coll.DropColumn(col.Name)
	if w.replica != nil {
		w.replica.DropColumn(col.Name)
	}
	w.cols = append(w.cols[:i:i], w.cols[i+1:]...)
	delete(w.holey, col.ID)
	w.emit("StDropCol %d", col.ID)
	w.stats.DroppedCols++
	if w.rng.Bool() {
		// a new column under the dropped one's name, straight away (no transaction in between)
		ks := w.kinds()
		w.addColumnNamed(ks[w.rng.Intn(len(ks))], col.Name)
	}
	// the next observation reports the rows that lost a value
}

func (w *World) dropComp() {
	if len(w.comps) == 0 {
		return
	}
	i := w.rng.Intn(len(w.comps))
	cp := w.comps[i]
	if cp.Kind == "trigger" {
		w.coll.DropTrigger(cp.Name)
		if w.replica != nil {
			w.replica.DropTrigger(cp.Name)
		}
	} else {
		w.coll.DropIndex(cp.Name)
		if w.replica != nil {
			w.replica.DropIndex(cp.Name)
		}
	}
	w.comps = append(w.comps[:i:i], w.comps[i+1:]...)
	w.emit("StDrop %d", cp.ID)
}

// ---------------------------------------------------------------------------------------
// observation

func fillOffsets(words []uint64) []uint32 {
	var out []uint32
	for i, wd := range words {
		for b := 0; b < 64; b++ {
			if wd&(1<<uint(b)) != 0 {
				out = append(out, uint32(i*64+b))
			}
		}
	}
	return out
}

func (w *World) dump(c *column.Collection) (map[uint32]rowObs, map[string]uint32, int) {
	rows := map[uint32]rowObs{}
	offs := fillOffsets(c.VerifFill())
	cols := w.allCols()
	c.Query(func(txn *column.Txn) error {
		for _, off := range offs {
			txn.QueryAt(off, func(r column.Row) error {
				ro := rowObs{vals: map[int]Val{}}
				for _, col := range cols {
					if v, ok := col.Get(r); ok {
						ro.vals[col.ID] = v
					}
				}
				for _, cp := range w.comps {
					if cp.Kind == "index" && r.Bool(cp.Name) {
						ro.idxs = append(ro.idxs, cp.ID)
					}
				}
				rows[off] = ro
				return nil
			})
		}
		return nil
	})
	if len(rows) > w.stats.MaxRows {
		w.stats.MaxRows = len(rows)
	}
	if len(rows) <= 400 {
		w.altReads(c, rows, cols)
	}
	return rows, c.VerifKeys(), c.Count()
}

// altReads: the other ways of reading the same cells must agree with the typed row accessors the
// model is compared with - Row.Any, the transaction-level typed readers positioned by Range, and
// Unmarshal for records; an unfiltered Range must visit exactly the live rows, in ascending order.
func (w *World) altReads(c *column.Collection, rows map[uint32]rowObs, cols []Col) {
	note := func(f string, a ...interface{}) {
		if len(w.notes) < 20 {
			w.notes = append(w.notes, "AltRead: "+fmt.Sprintf(f, a...))
		}
	}
	c.Query(func(txn *column.Txn) error {
		var visited []uint32
		txn.Range(func(i uint32) {
			visited = append(visited, i)
			ro, live := rows[i]
			if !live {
				return
			}
			txn.QueryAt(i, func(r column.Row) error {
				for _, col := range cols {
					want, has := ro.vals[col.ID]
					if col.K == KKey {
						continue
					}
					v, ok := r.Any(col.Name)
					if col.K == KBool {
						if b, _ := v.(bool); b != has {
							note("row %d column %s: Any() = %v, Bool() = %v", i, col.Name, v, has)
						}
						continue
					}
					if ok != has {
						note("row %d column %s: Any() present=%v, typed accessor present=%v", i, col.Name, ok, has)
						continue
					}
					if !ok {
						continue
					}
					var got Val
					switch x := v.(type) {
					case float32:
						got = Val{W: 4, N: uint64(math.Float32bits(x))}
					case float64:
						got = Val{W: 8, N: math.Float64bits(x)}
					default:
						got = valOfAny(col.K, v)
					}
					if !got.Equal(want) && !(col.K.Float() && want.N != got.N && isNaNBits(want)) {
						note("row %d column %s: Any() = %v, typed accessor = %v", i, col.Name, got.Coq(), want.Coq())
					}
					if col.K == KRec || col.K == KRecCat {
						var raw []byte
						if !txn.Record(col.Name).Unmarshal(func(b []byte) error { raw = append([]byte(nil), b...); return nil }) || string(raw) != string(want.B) {
							note("row %d column %s: Unmarshal saw %v, Record() = %v", i, col.Name, raw, want.B)
						}
					}
				}
				return nil
			})
		})
		for _, cp := range w.comps {
			if cp.Kind != "index" {
				continue
			}
			var want, got []uint32
			for o, ro := range rows {
				for _, id := range ro.idxs {
					if id == cp.ID {
						want = append(want, o)
					}
				}
			}
			sort.Slice(want, func(a, b int) bool { return want[a] < want[b] })
			c.Query(func(t2 *column.Txn) error {
				t2.With(cp.Name).Range(func(i uint32) { got = append(got, i) })
				return nil
			})
			if fmt.Sprint(want) != fmt.Sprint(got) {
				note("Index: With(%s) selects %v, the rows the index holds are %v", cp.Name, got, want)
			}
		}
		var live []uint32
		for o := range rows {
			live = append(live, o)
		}
		sort.Slice(live, func(a, b int) bool { return live[a] < live[b] })
		if fmt.Sprint(live) != fmt.Sprint(visited) {
			note("an unfiltered Range visited %v, the live rows are %v", visited, live)
		}
		return nil
	})
}

func isNaNBits(v Val) bool {
	if v.W == 4 {
		return v.N&0x7f800000 == 0x7f800000 && v.N&0x7fffff != 0
	}
	return v.N&0x7ff0000000000000 == 0x7ff0000000000000 && v.N&0xfffffffffffff != 0
}

func diffRows(prev, cur map[uint32]rowObs) string {
	var offs []uint32
	seen := map[uint32]bool{}
	for k := range prev {
		offs = append(offs, k)
		seen[k] = true
	}
	for k := range cur {
		if !seen[k] {
			offs = append(offs, k)
		}
	}
	sort.Slice(offs, func(i, j int) bool { return offs[i] < offs[j] })
	var out []string
	for _, o := range offs {
		p, inP := prev[o]
		c, inC := cur[o]
		switch {
		case inC && (!inP || !p.equal(c)):
			out = append(out, fmt.Sprintf("(%d, Some %s)", o, c.Coq()))
		case inP && !inC:
			out = append(out, fmt.Sprintf("(%d, None)", o))
		}
	}
	if len(out) > 3000 {
		// no generated step changes that many rows (dense seeding is handled separately): keep the
		// case evaluable; the truncated diff still disagrees with the model
		out = out[:300]
	}
	return "[" + strings.Join(out, "; ") + "]"
}

func diffKeys(prev, cur map[string]uint32) string {
	var ks []string
	seen := map[string]bool{}
	for k := range prev {
		ks = append(ks, k)
		seen[k] = true
	}
	for k := range cur {
		if !seen[k] {
			ks = append(ks, k)
		}
	}
	sort.Strings(ks)
	var out []string
	for _, k := range ks {
		p, inP := prev[k]
		c, inC := cur[k]
		switch {
		case inC && (!inP || p != c):
			out = append(out, fmt.Sprintf("(%s, Some %d)", coqBytes([]byte(k)), c))
		case inP && !inC:
			out = append(out, fmt.Sprintf("(%s, None)", coqBytes([]byte(k))))
		}
	}
	return "[" + strings.Join(out, "; ") + "]"
}

// observe renders the observation after a transaction and advances the baseline.
func (w *World) observe(results []string) string {
	rows, keys, count := w.dump(w.coll)
	rowsS := diffRows(w.prev, rows)
	keysS := diffKeys(w.prevKeys, keys)
	w.prev, w.prevKeys = rows, keys

	w.trigMu.Lock()
	var trigs []string
	for _, cp := range w.comps {
		if cp.Kind == "trigger" {
			trigs = append(trigs, fmt.Sprintf("(%d, [%s])", cp.ID, strings.Join(w.trig[cp.ID], "; ")))
		}
	}
	w.trig = map[int][]string{}
	w.trigMu.Unlock()

	var emits []string
	w.logger.mu.Lock()
	for _, c := range w.logger.commits {
		emits = append(emits, c.Coq())
		w.stats.EmittedCommits++
		// change-stream monitor (C15): distinct non-zero ids, increasing per block
		if c.id == 0 {
			w.stats.IdViolations = append(w.stats.IdViolations, fmt.Sprintf("commit for block %d carries id 0", c.chunk))
		}
		if w.allIDs[c.id] {
			w.stats.IdViolations = append(w.stats.IdViolations, fmt.Sprintf("commit id %d emitted twice", c.id))
		}
		w.allIDs[c.id] = true
		if last, ok := w.lastIDs[c.chunk]; ok && c.id <= last {
			w.stats.IdViolations = append(w.stats.IdViolations, fmt.Sprintf("block %d: id %d after %d", c.chunk, c.id, last))
		}
		w.lastIDs[c.chunk] = c.id
	}
	pending := w.logger.commits
	w.logger.commits = nil
	w.logger.mu.Unlock()
	w.feedReplica(pending)

	return fmt.Sprintf("(mkobs [%s]\n      %s %d %s\n      [%s]\n      [%s])",
		strings.Join(results, "; "), rowsS, count, keysS, strings.Join(trigs, "; "), strings.Join(emits, ";\n       "))
}

func (w *World) feedReplica(pending []commitRec) {
	if w.replica == nil {
		return
	}
	if w.logger.log != nil {
		// serialized route: range over the whole file, skip what was replayed before
		lg := commit.Open(bytes.NewReader(w.logger.file.Bytes()))
		n := 0
		batch := w.rng.Bool() // a replica that collects the commits and applies them after Range returned
		var kept []commit.Commit
		lg.Range(func(c commit.Commit) error {
			if n >= w.logger.seen {
				if batch {
					kept = append(kept, c)
				} else {
					w.replica.Replay(c)
				}
			}
			n++
			return nil
		})
		for _, c := range kept {
			w.replica.Replay(c)
		}
		w.logger.seen = n
		return
	}
	for _, c := range pending {
		w.replica.Replay(c.raw)
	}
}

// ---------------------------------------------------------------------------------------
// transaction generation

type txnGen struct {
	w          *World
	body       []string
	results    []string
	mustAbort  bool
	own        []uint32
	deleted    map[uint32]bool
	keysIssued map[string]bool
	cellOps    map[[2]int]int
	cellMerge  map[[2]int]bool
	colMerge   map[int]bool
	colRange   map[int]bool
	blocks     map[uint32]bool
	filtered   bool
	emptied    bool
	lastPred   *Col
	noUnion    bool // no Union / WithUnion any more: a nested transaction may have grown the collection
}

func (g *txnGen) stmt(kind, body, res string) {
	g.body = append(g.body, body)
	g.results = append(g.results, res)
	g.w.stats.Stmts++
	g.w.stats.StmtKinds[kind]++
}

type wr struct {
	col   Col
	merge bool
	val   Val
	key   bool
	via   int  // 0 typed setter, 1 Row.SetAny, 2 Row.SetMany
	tiny  bool // hand a one-byte Go type over where the value fits
}

func (x wr) Coq() string {
	switch {
	case x.key:
		return "WSetKey " + coqBytes(x.val.B)
	case x.col.K == KBool:
		return fmt.Sprintf("WBool %d %v", x.col.ID, x.val.N != 0)
	case x.merge:
		return fmt.Sprintf("WMerge %d %s", x.col.ID, x.val.Coq())
	default:
		return fmt.Sprintf("WPut %d %s", x.col.ID, x.val.Coq())
	}
}

func (x wr) apply(r column.Row) {
	switch {
	case x.key:
		r.SetKey(string(x.val.B))
	case x.merge:
		x.col.Merge(r, x.val)
	case x.via == 1:
		r.SetAny(x.col.Name, x.col.AnyValue(x.val, x.tiny))
	case x.via == 2:
		r.SetMany(map[string]any{x.col.Name: x.col.AnyValue(x.val, x.tiny)})
	default:
		x.col.Set(r, x.val)
	}
}

func coqWrites(ws []wr) string {
	var out []string
	for _, x := range ws {
		out = append(out, x.Coq())
	}
	return "[" + strings.Join(out, "; ") + "]"
}

var keyAlphabet = []string{"k1", "k2", "k3", "k4", "k5", "k6", ""}

// keyOffset looks the key up in the collection's current lookup table (transactions nested in
// one another change it between two statements of the outer one)
func (w *World) keyOffset(k string) (uint32, bool) {
	off, ok := w.coll.VerifKeys()[k]
	return off, ok
}

func (w *World) pickKey() string {
	if len(w.seedKeys) > 0 && w.rng.Chance(35) {
		return w.seedKeys[w.rng.Intn(len(w.seedKeys))]
	}
	return keyAlphabet[w.rng.Intn(len(keyAlphabet))]
}

// genWrites draws writes for one row; off < 0 means "every row of a Range".
func (g *txnGen) genWrites(off int64, n int, isInsert bool) []wr {
	w := g.w
	var out []wr
	for i := 0; i < n; i++ {
		if len(w.cols) == 0 {
			break
		}
		col := w.cols[w.rng.Intn(len(w.cols))]
		if col.K == KKey {
			if isInsert || off < 0 {
				continue // the key of a new row is written by InsertKey/UpsertKey itself
			}
			k := w.pickKey()
			if g.keysIssued[k] && !w.prof.K5 {
				continue
			}
			g.keysIssued[k] = true
			out = append(out, wr{col: col, key: true, val: Val{W: -1, B: []byte(k)}})
			continue
		}
		merge := col.K.CanMerge() && w.rng.Chance(40)
		if col.K.LenChangingMerge() && !w.prof.K2 {
			if off < 0 {
				if merge || g.colMerge[col.ID] {
					continue
				}
				g.colRange[col.ID] = true
			} else {
				cell := [2]int{col.ID, int(off)}
				if merge && (g.cellOps[cell] > 0 || g.colRange[col.ID]) {
					continue
				}
				if !merge && g.cellMerge[cell] {
					continue
				}
				g.cellOps[cell]++
				if merge {
					g.cellMerge[cell] = true
					g.colMerge[col.ID] = true
				}
			}
		}
		v := col.RandVal(w.rng, w.prof.Long)
		if merge && w.prof.ForceSorted && col.K.Stringy() && w.rng.Chance(30) {
			// a merge whose result can equal what an absent cell holds (the empty string): the row
			// gains a value without its bytes changing
			v = Val{W: -1, B: []byte{}}
		}
		x := wr{col: col, merge: merge, val: v}
		kind := "put"
		if merge {
			kind = "merge"
		} else if w.rng.Chance(25) {
			// the untyped write paths; int / uint columns also take narrower integers
			x.via = 1 + w.rng.Intn(2)
			kind = []string{"", "setany", "setmany"}[x.via]
			if (col.K == KInt || col.K == KUint) && w.rng.Chance(60) {
				nk := map[Kind][]Kind{KInt: {KInt16, KInt32}, KUint: {KUint16, KUint32}}[col.K][w.rng.Intn(2)]
				x.val = Col{K: nk}.RandVal(w.rng, false)
				x.tiny = w.rng.Bool()
				kind += ".narrow"
			}
		}
		out = append(out, x)
		w.stats.WritesByKind[col.K.String()+"."+kind]++
	}
	return out
}

func (g *txnGen) liveOffsets() []uint32 {
	var out []uint32
	for o := range g.w.prev {
		out = append(out, o)
	}
	sort.Slice(out, func(i, j int) bool { return out[i] < out[j] })
	return out
}

func (g *txnGen) pickTarget() (uint32, bool) {
	live := g.liveOffsets()
	if len(live) > 2000 && g.w.rng.Chance(90) {
		// a completely full block dominates the live rows: prefer the rows of the other blocks
		per := map[uint32]int{}
		for _, o := range live {
			per[o>>14]++
		}
		var sparse []uint32
		for _, o := range live {
			if per[o>>14] < 2000 {
				sparse = append(sparse, o)
			}
		}
		if len(sparse) > 0 {
			return sparse[g.w.rng.Intn(len(sparse))], true
		}
	}
	n := len(live) + len(g.own)
	if n == 0 {
		return 0, false
	}
	i := g.w.rng.Intn(n)
	if i < len(live) {
		return live[i], true
	}
	return g.own[i-len(live)], true
}

func (g *txnGen) noteBlock(off uint32) { g.blocks[off>>14] = true }

func (g *txnGen) doInsert(txn *column.Txn) {
	w := g.w
	fail := w.rng.Chance(w.prof.FailInsPct)
	var ws []wr
	var key string
	keyed := w.keyed
	upsert := false
	if keyed {
		key = w.pickKey()
		if g.keysIssued[key] && !w.prof.K5 {
			return
		}
		g.keysIssued[key] = true
		upsert = w.rng.Bool()
	}
	var off uint32
	called := false
	fn := func(r column.Row) error {
		called = true
		off = r.Index()
		if ws == nil {
			ws = g.genWrites(int64(off), w.rng.Intn(4), !upsert || true)
		}
		for _, x := range ws {
			x.apply(r)
		}
		if fail {
			return errFail
		}
		return nil
	}
	var err error
	existingOff, exists := w.keyOffset(key)
	switch {
	case !keyed:
		off, err = txn.Insert(fn)
	case upsert:
		if exists {
			// update of an existing row: the writes must respect the per-cell rules of that row
			ws = g.genWrites(int64(existingOff), w.rng.Intn(4), false)
			if ws == nil {
				ws = []wr{}
			}
		}
		err = txn.UpsertKey(key, fn)
	default:
		err = txn.InsertKey(key, fn)
	}
	kb := coqBytes([]byte(key))
	switch {
	case !keyed:
		g.stmt("insert", fmt.Sprintf("SInsert %d %s %v", off, coqWrites(ws), fail), fmt.Sprintf("RIns %d %v true", off, err != nil))
	case upsert && exists:
		g.stmt("upsert.update", fmt.Sprintf("SUpsertKey %s 0 %s %v", kb, coqWrites(ws), fail), fmt.Sprintf("RErr %v", err != nil))
		g.noteBlock(existingOff)
		if err != nil {
			g.mustAbort = true
		}
		return
	case upsert:
		g.stmt("upsert.insert", fmt.Sprintf("SUpsertKey %s %d %s %v", kb, off, coqWrites(ws), fail), fmt.Sprintf("RIns %d %v true", off, err != nil))
	case exists:
		g.stmt("insertkey.dup", fmt.Sprintf("SInsertKey %s 0 [] false", kb), fmt.Sprintf("RErr %v", err != nil))
		_ = called
		return
	default:
		g.stmt("insertkey", fmt.Sprintf("SInsertKey %s %d %s %v", kb, off, coqWrites(ws), fail), fmt.Sprintf("RIns %d %v true", off, err != nil))
	}
	g.noteBlock(off)
	if w.everDel[off] {
		w.stats.ReuseAfterDelete++
	}
	if err != nil {
		w.stats.FailedInserts++
		if !w.prof.K7 {
			g.mustAbort = true
		}
	} else {
		g.own = append(g.own, off)
	}
}

func (g *txnGen) doAt(txn *column.Txn) {
	off, ok := g.pickTarget()
	if !ok {
		return
	}
	ws := g.genWrites(int64(off), 1+g.w.rng.Intn(3), false)
	if len(ws) == 0 {
		return
	}
	txn.QueryAt(off, func(r column.Row) error {
		for _, x := range ws {
			x.apply(r)
		}
		return nil
	})
	g.noteBlock(off)
	g.stmt("at", fmt.Sprintf("SAt %d %s", off, coqWrites(ws)), "RNone")
}

func (g *txnGen) doRead(txn *column.Txn) {
	off, ok := g.pickTarget()
	if !ok || len(g.w.cols) == 0 {
		return
	}
	col := g.w.cols[g.w.rng.Intn(len(g.w.cols))]
	var v Val
	var has bool
	txn.QueryAt(off, func(r column.Row) error {
		v, has = col.Get(r)
		return nil
	})
	res := "RVal None"
	if has {
		res = "RVal (Some " + v.Coq() + ")"
	}
	g.stmt("read", fmt.Sprintf("SRead %d %d", off, col.ID), res)
}

func (g *txnGen) doDelete(txn *column.Txn) {
	var off uint32
	if g.w.rng.Chance(85) {
		o, ok := g.pickTarget()
		if !ok {
			return
		}
		off = o
	} else {
		off = uint32(g.w.rng.Intn(40000))
	}
	ok := txn.DeleteAt(off)
	if ok {
		g.noteBlock(off)
		g.w.everDel[off] = true
	}
	g.stmt("delete", fmt.Sprintf("SDelete %d", off), fmt.Sprintf("RBool %v", ok))
}

func (g *txnGen) doKeyOp(txn *column.Txn) {
	w := g.w
	key := w.pickKey()
	kb := coqBytes([]byte(key))
	if w.rng.Bool() {
		var ws []wr
		if off, ok := w.keyOffset(key); ok {
			ws = g.genWrites(int64(off), 1+w.rng.Intn(2), false)
			g.noteBlock(off)
		}
		err := txn.QueryKey(key, func(r column.Row) error {
			for _, x := range ws {
				x.apply(r)
			}
			return nil
		})
		g.stmt("querykey", fmt.Sprintf("SQueryKey %s %s", kb, coqWrites(ws)), fmt.Sprintf("RErr %v", err != nil))
		return
	}
	off0, ok0 := w.keyOffset(key)
	err := txn.DeleteKey(key)
	if off, ok := off0, ok0; ok {
		g.noteBlock(off)
		w.everDel[off] = true
	}
	g.stmt("deletekey", fmt.Sprintf("SDeleteKey %s", kb), fmt.Sprintf("RErr %v", err != nil))
}

// names usable in a filter: value columns, indexes, and sometimes a missing name
func (g *txnGen) filterName() (string, int) {
	w := g.w
	var names []string
	var ids []int
	for _, c := range w.cols {
		names = append(names, c.Name)
		ids = append(ids, c.ID)
	}
	for _, cp := range w.comps {
		if cp.Kind == "index" {
			names = append(names, cp.Name, cp.Name)
			ids = append(ids, cp.ID, cp.ID)
		}
	}
	if w.rng.Chance(8) || len(names) == 0 {
		return "missing_column", 9999
	}
	i := w.rng.Intn(len(names))
	return names[i], ids[i]
}

func (g *txnGen) doFilter(txn *column.Txn) {
	w := g.w
	g.filtered = true
	pick := w.rng.Intn(7)
	if g.emptied && w.rng.Chance(70) {
		pick = 2 + w.rng.Intn(2) // after the selection was emptied: widen it again with a union
	}
	if g.noUnion && (pick == 2 || pick == 3) {
		// the selection was cloned before a nested transaction added rows: whether a union picks
		// those rows up depends on the length the selection's bitmap happened to have (observation
		// O3 in DESIGN.md); the property speaks of sequential histories, the generator stays there
		pick = w.rng.Intn(2)
	}
	g.emptied = false
	switch pick {
	case 6:
		// a typed filter on a column of the wrong kind: the selection becomes empty
		var str, num *Col
		for i := range w.cols {
			if w.cols[i].K.Stringy() && w.cols[i].K != KRec && w.cols[i].K != KRecCat {
				str = &w.cols[i]
			}
			if w.cols[i].K.Numeric() {
				num = &w.cols[i]
			}
		}
		switch {
		case str != nil && w.rng.Bool():
			txn.WithInt(str.Name, func(int64) bool { return true })
		case num != nil:
			txn.WithString(num.Name, func(string) bool { return true })
		case str != nil:
			txn.WithUint(str.Name, func(uint64) bool { return true })
		default:
			return
		}
		g.emptied = true
		g.stmt("illtyped", "SFilter FEmpty", "RNone")
		return
	}
	switch pick {
	case 0:
		n, id := g.filterName()
		txn.With(n)
		g.emptied = id == 9999
		g.stmt("with", fmt.Sprintf("SFilter (FWith %d)", id), "RNone")
	case 1:
		n, id := g.filterName()
		txn.Without(n)
		g.stmt("without", fmt.Sprintf("SFilter (FWithout %d)", id), "RNone")
	case 2:
		n, id := g.filterName()
		txn.Union(n)
		g.stmt("union", fmt.Sprintf("SFilter (FUnion %d)", id), "RNone")
	case 3:
		k := 1 + w.rng.Intn(3)
		var ns []string
		var ids []string
		for i := 0; i < k; i++ {
			n, id := g.filterName()
			ns = append(ns, n)
			ids = append(ids, fmt.Sprint(id))
		}
		txn.WithUnion(ns...)
		g.stmt("withunion", fmt.Sprintf("SFilter (FWithUnion [%s])", strings.Join(ids, "; ")), "RNone")
	default:
		if len(w.cols) == 0 {
			return
		}
		col := w.cols[w.rng.Intn(len(w.cols))]
		if w.prof.Name == "filter" && w.rng.Chance(35) {
			for _, c := range w.cols {
				if c.K == KEnum {
					col = c // the enum columns filter through their own cached predicate path
					break
				}
			}
		}
		if g.lastPred != nil && w.rng.Chance(40) {
			col = *g.lastPred // a second, different predicate on the column the previous filter looked at
		}
		g.lastPred = &col
		p := randPred(w.rng, col.K)
		g.applyPred(txn, col, p)
		g.stmt("pred."+p.Kind, fmt.Sprintf("SFilter (FPred %d %s)", col.ID, p.Coq()), "RNone")
	}
}

func valOfAny(k Kind, v interface{}) Val {
	switch x := v.(type) {
	case int:
		return Val{W: 8, N: uint64(x)}
	case int16:
		return Val{W: 2, N: uint64(uint16(x))}
	case int32:
		return Val{W: 4, N: uint64(uint32(x))}
	case int64:
		return Val{W: 8, N: uint64(x)}
	case uint:
		return Val{W: 8, N: uint64(x)}
	case uint16:
		return Val{W: 2, N: uint64(x)}
	case uint32:
		return Val{W: 4, N: uint64(x)}
	case uint64:
		return Val{W: 8, N: x}
	case string:
		return Val{W: -1, B: []byte(x)}
	case bool:
		return Val{W: 0}
	case *rec:
		return Val{W: -1, B: x.b}
	}
	return Val{W: 0}
}

func (p Pred) EvalVal(v Val) bool {
	switch p.Kind {
	case "float":
		if v.W == 4 {
			return cmpF(p.Cmp, float64(math.Float32frombits(uint32(v.N))), float64(p.K))
		}
		return cmpF(p.Cmp, math.Float64frombits(v.N), float64(p.K))
	case "signed":
		var s int64
		switch v.W {
		case 2:
			s = int64(int16(v.N))
		case 4:
			s = int64(int32(v.N))
		default:
			s = int64(v.N)
		}
		return cmpI(p.Cmp, s, p.K)
	case "unsigned":
		return cmpU(p.Cmp, v.N, uint64(p.K))
	case "streq":
		return string(v.B) == string(p.S)
	case "lengt":
		return int64(len(v.B)) > p.K
	}
	return true
}

func (g *txnGen) applyPred(txn *column.Txn, col Col, p Pred) {
	w := col.K.Width()
	mk := func(n uint64) Val { return Val{W: w, N: n} }
	switch {
	case col.K.IntFloat():
		if g.w.rng.Bool() {
			txn.WithFloat(col.Name, func(v float64) bool { return cmpF(p.Cmp, v, float64(p.K)) })
		} else {
			txn.WithValue(col.Name, func(v interface{}) bool {
				switch x := v.(type) {
				case float32:
					return cmpF(p.Cmp, float64(x), float64(p.K))
				case float64:
					return cmpF(p.Cmp, x, float64(p.K))
				}
				return false
			})
		}
	case col.K.Float() || col.K == KBool || col.K == KRec || col.K == KRecCat:
		if col.K.Float() {
			// compare the bit pattern, as the index rule does through Uint()
			txn.WithValue(col.Name, func(v interface{}) bool {
				switch x := v.(type) {
				case float32:
					return p.EvalVal(Val{W: 4, N: uint64(f32bits(x))})
				case float64:
					return p.EvalVal(Val{W: 8, N: f64bits(x)})
				}
				return false
			})
			return
		}
		txn.WithValue(col.Name, func(v interface{}) bool { return p.EvalVal(valOfAny(col.K, v)) })
	case col.K.Stringy():
		if g.w.rng.Bool() {
			txn.WithString(col.Name, func(s string) bool { return p.EvalVal(Val{W: -1, B: []byte(s)}) })
		} else {
			txn.WithValue(col.Name, func(v interface{}) bool { return p.EvalVal(valOfAny(col.K, v)) })
		}
	case col.K.Signed():
		txn.WithInt(col.Name, func(v int64) bool {
			mask := uint64(1)<<(8*uint(w)) - 1
			if w == 8 {
				mask = ^uint64(0)
			}
			return p.EvalVal(mk(uint64(v) & mask))
		})
	default:
		txn.WithUint(col.Name, func(v uint64) bool { return p.EvalVal(mk(v)) })
	}
}

func coqOffs(l []uint32) string {
	var out []string
	for _, o := range l {
		out = append(out, fmt.Sprint(o))
	}
	return "[" + strings.Join(out, "; ") + "]"
}

func (g *txnGen) doTerminal(txn *column.Txn) {
	w := g.w
	if len(w.prev) > 2000 {
		// a dense block is selected: iteration results would be tens of thousands of offsets
		if w.rng.Bool() {
			g.stmt("count", "STerm TCount", fmt.Sprintf("RCount %d", txn.Count()))
		} else {
			g.doAggregate(txn)
		}
		return
	}
	pick := w.rng.Intn(8)
	if w.prof.ForceSorted && w.rng.Chance(60) {
		pick = 7
	}
	switch pick {
	case 0, 1:
		g.stmt("count", "STerm TCount", fmt.Sprintf("RCount %d", txn.Count()))
	case 2, 3:
		ws := g.genWrites(-1, w.rng.Intn(3), false)
		del := w.rng.Chance(20)
		var visited []uint32
		var cursors []uint32
		txn.Range(func(i uint32) {
			visited = append(visited, i)
			cursors = append(cursors, txn.Index())
			txn.QueryAt(i, func(r column.Row) error {
				for _, x := range ws {
					x.apply(r)
				}
				return nil
			})
			if del {
				txn.DeleteAt(i)
				w.everDel[i] = true
			}
			g.noteBlock(i)
		})
		for i := range visited {
			if cursors[i] != visited[i] {
				w.notes = append(w.notes, fmt.Sprintf("Range: cursor %d while visiting %d", cursors[i], visited[i]))
			}
		}
		g.stmt("range", fmt.Sprintf("STerm (TRange %s %v)", coqWrites(ws), del), "RList "+coqOffs(visited))
	case 4:
		if w.rng.Chance(30) {
			n := 0
			txn.Range(func(i uint32) { n++; w.everDel[i] = true; g.noteBlock(i) })
			txn.DeleteAll()
			g.stmt("deleteall", "STerm TDeleteAll", "RNone")
		}
	case 5, 6:
		g.doAggregate(txn)
	case 7:
		for _, cp := range w.comps {
			if cp.Kind == "sorted" {
				var visited []uint32
				txn.Ascend(cp.Name, func(i uint32) { visited = append(visited, i) })
				g.stmt("ascend", fmt.Sprintf("STerm (TAscend %d)", cp.ID), "RList "+coqOffs(visited))
				break
			}
		}
	}
}

// doFloatAggregate: Sum / Min / Max / Avg of a float column that holds small integers (exact in
// floating point).  Sum, Min, Max are recorded as bit patterns for the model; Avg is compared with
// Sum / Count of the same selection here (the quotient is not an integer).
func (g *txnGen) doFloatAggregate(txn *column.Txn, col Col) {
	var sum, min, max, avg float64
	var okMin, okMax bool
	bits := func(x float64) uint64 {
		if col.K == KF32I {
			return uint64(math.Float32bits(float32(x)))
		}
		return math.Float64bits(x)
	}
	n := 0
	if col.K == KF32I {
		rd := txn.Float32(col.Name)
		s := rd.Sum()
		mn, o1 := rd.Min()
		mx, o2 := rd.Max()
		sum, min, max, okMin, okMax, avg = float64(s), float64(mn), float64(mx), o1, o2, float64(rd.Avg())
		txn.Range(func(uint32) {
			if _, ok := rd.Get(); ok {
				n++
			}
		})
	} else {
		rd := txn.Float64(col.Name)
		s := rd.Sum()
		mn, o1 := rd.Min()
		mx, o2 := rd.Max()
		sum, min, max, okMin, okMax, avg = s, mn, mx, o1, o2, rd.Avg()
		txn.Range(func(uint32) {
			if _, ok := rd.Get(); ok {
				n++
			}
		})
	}
	if n > 0 {
		if want := sum / float64(n); math.Abs(avg-want) > 1e-6*(1+math.Abs(want)) {
			g.w.notes = append(g.w.notes, fmt.Sprintf("Avg: column %s Avg() = %v but Sum()/valued rows = %v/%d", col.Name, avg, sum, n))
		}
	}
	switch g.w.rng.Intn(3) {
	case 0:
		g.stmt("fsum", fmt.Sprintf("STerm (TFSum %d)", col.ID), fmt.Sprintf("RNum %d true", bits(sum)))
	case 1:
		if !okMin {
			min = 0
		}
		g.stmt("fmin", fmt.Sprintf("STerm (TFMin %d)", col.ID), fmt.Sprintf("RNum %d %v", bits(min), okMin))
	default:
		if !okMax {
			max = 0
		}
		g.stmt("fmax", fmt.Sprintf("STerm (TFMax %d)", col.ID), fmt.Sprintf("RNum %d %v", bits(max), okMax))
	}
}

func (g *txnGen) doAggregate(txn *column.Txn) {
	w := g.w
	var nums []Col
	for _, c := range w.cols {
		if c.K.Numeric() && (!c.K.Float() || c.K.IntFloat()) {
			nums = append(nums, c)
		}
	}
	if len(nums) == 0 {
		return
	}
	col := nums[w.rng.Intn(len(nums))]
	for _, c := range nums { // prefer a column that is empty in one of the seeded blocks
		if w.holey[c.ID] && w.rng.Chance(50) {
			col = c
			break
		}
	}
	if col.K.IntFloat() {
		g.doFloatAggregate(txn, col)
		return
	}
	sum, min, max, okMin, okMax := aggregate(txn, col)
	switch w.rng.Intn(5) {
	case 0:
		g.stmt("sum", fmt.Sprintf("STerm (TSum %d)", col.ID), fmt.Sprintf("RNum %d true", sum))
	case 1, 2:
		g.stmt("min", fmt.Sprintf("STerm (TMin %d %v)", col.ID, col.K.Signed()), fmt.Sprintf("RNum %d %v", min, okMin))
	default:
		g.stmt("max", fmt.Sprintf("STerm (TMax %d %v)", col.ID, col.K.Signed()), fmt.Sprintf("RNum %d %v", max, okMax))
	}
}

func newTxnGen(w *World, keys map[string]bool) *txnGen {
	return &txnGen{w: w, deleted: map[uint32]bool{}, keysIssued: keys, cellOps: map[[2]int]int{},
		cellMerge: map[[2]int]bool{}, colMerge: map[int]bool{}, colRange: map[int]bool{}, blocks: map[uint32]bool{}}
}

// body issues n random statements on the transaction
func (g *txnGen) run(txn *column.Txn, n int) {
	w := g.w
	for i := 0; i < n && !g.mustAbort; i++ {
		switch x := w.rng.Intn(100); {
		case x < 30:
			g.doInsert(txn)
		case x < 50:
			g.doAt(txn)
		case x < 55:
			g.doRead(txn)
		case x < 67:
			g.doDelete(txn)
		case x < 67+w.prof.FilterPct/2:
			g.doFilter(txn)
		case x < 67+w.prof.FilterPct:
			g.doTerminal(txn)
		default:
			if w.keyed {
				g.doKeyOp(txn)
			} else {
				g.doAt(txn)
			}
		}
	}
}

// filterBurst: several small transactions, each one predicate filter on the same enum column and a
// Count: whatever a filter pass keeps between calls (the enum columns cache the verdict of the last
// string location they looked at) must not leak into the next one
func (w *World) filterBurst() {
	var col *Col
	for i := range w.cols {
		if w.cols[i].K == KEnum {
			col = &w.cols[i]
		}
	}
	if col == nil || len(w.prev) == 0 || len(w.prev) > 2000 {
		return
	}
	for k := 0; k < 6; k++ {
		g := newTxnGen(w, map[string]bool{})
		p := randPred(w.rng, col.K)
		w.coll.Query(func(txn *column.Txn) error {
			txn.WithString(col.Name, func(s string) bool { return p.EvalVal(Val{W: -1, B: []byte(s)}) })
			g.stmt("pred."+p.Kind, fmt.Sprintf("SFilter (FPred %d %s)", col.ID, p.Coq()), "RNone")
			g.stmt("count", "STerm TCount", fmt.Sprintf("RCount %d", txn.Count()))
			return nil
		})
		w.stats.Txns++
		w.stats.Commits++
		obs := w.observe(g.results)
		w.emit("StTxn [%s] %v\n    %s", strings.Join(g.body, ";\n      "), true, obs)
	}
}

func (w *World) runTxn() {
	keys := map[string]bool{}
	g := newTxnGen(w, keys)
	n := 1 + w.rng.Intn(w.prof.MaxStmts)
	abort := w.rng.Chance(w.prof.AbortPct)
	nested := w.rng.Chance(w.prof.NestedPct)
	var inner *txnGen
	innerCommitted := false
	var preBody, preRes []string
	err := w.coll.Query(func(txn *column.Txn) error {
		if !nested {
			g.run(txn, n)
		} else {
			g.run(txn, 1+n/2)
			preBody, preRes = g.body, g.results
			g.body, g.results = nil, nil
			// a complete second transaction runs while this one is in flight
			inner = newTxnGen(w, keys)
			innerAbort := w.rng.Chance(w.prof.AbortPct)
			ierr := w.coll.Query(func(t2 *column.Txn) error {
				inner.run(t2, 1+w.rng.Intn(w.prof.MaxStmts))
				if innerAbort || inner.mustAbort {
					return errAbort
				}
				return nil
			})
			innerCommitted = ierr == nil
			g.noUnion = g.filtered || len(g.body) > 0 || len(preBody) > 0
			if !g.mustAbort {
				g.run(txn, 1+n/2)
			}
		}
		if abort || g.mustAbort {
			return errAbort
		}
		return nil
	})
	committed := err == nil
	w.stats.Txns++
	if committed {
		w.stats.Commits++
		if len(g.blocks) > 1 {
			w.stats.MultiBlockTxns++
		}
	} else {
		w.stats.Aborts++
	}
	if !nested {
		obs := w.observe(g.results)
		w.emit("StTxn [%s] %v\n    %s", strings.Join(g.body, ";\n      "), committed, obs)
		return
	}
	w.stats.Nested++
	all := append(append(append([]string{}, preRes...), inner.results...), g.results...)
	obs := w.observe(all)
	w.emit("StNested [%s]\n    [%s] %v\n    [%s] %v\n    %s", strings.Join(preBody, ";\n      "),
		strings.Join(inner.body, ";\n      "), innerCommitted, strings.Join(g.body, ";\n      "), committed, obs)
}

// ---------------------------------------------------------------------------------------
// seeding a sparse multi-block state through Replay (the replication entry point)

func (w *World) seedBlocks() {
	nb := 1 + w.rng.Intn(2)
	dense := -1
	if w.rng.Chance(w.prof.DensePct) {
		dense = nb // the last block is completely full
		if w.rng.Chance(w.prof.DenseFirstPct) {
			dense = 0 // the first block is full: inserts allocate, and offsets are reused, in a later block
		}
		w.stats.Tall++
	}
	for b := 0; b <= nb; b++ {
		base := uint32(b) << 14
		var offs []uint32
		cand := []uint32{0, 1, 63, 64, 65, 127, 128, 4095, 8191, 16382, 16383}
		for _, c := range cand {
			if w.rng.Chance(45) {
				offs = append(offs, base+c)
			}
		}
		if len(offs) == 0 {
			offs = []uint32{base + 16383}
		}
		if b == dense {
			offs = offs[:0]
			for c := uint32(0); c < 16384; c++ {
				offs = append(offs, base+c)
			}
		}
		rec := commitRec{chunk: uint32(b), cols: map[int][]opRec{}}
		var bufs []*commit.Buffer
		row := commit.NewBuffer(64)
		row.Reset("row")
		for _, o := range offs {
			row.PutOperation(commit.Insert, o)
			rec.row = append(rec.row, opRec{kind: "KInsert", off: o, val: Val{W: 0}})
		}
		bufs = append(bufs, row)
		for _, col := range w.cols {
			buf := commit.NewBuffer(64)
			buf.Reset(col.Name)
			if col.K != KKey && w.rng.Chance(20) {
				w.holey[col.ID] = true
				continue // this column holds no value in this block (aggregates and filters start in a later one)
			}
			for _, o := range offs {
				if col.K == KKey && b == dense && o%1024 != 7 {
					continue
				}
				if col.K == KKey {
					// seeded rows of a keyed collection carry their own key
					k := fmt.Sprintf("s%d", o)
					v := Val{W: -1, B: []byte(k)}
					putVal(buf, col.K, o, v)
					rec.cols[col.ID] = append(rec.cols[col.ID], opRec{kind: "KPut", off: o, val: v})
					if len(w.seedKeys) < 6 {
						w.seedKeys = append(w.seedKeys, k)
					}
					continue
				}
				if !w.rng.Chance(60) || (b == dense && o%1024 != 7) {
					continue
				}
				v := col.RandVal(w.rng, false)
				putVal(buf, col.K, o, v)
				kind := "KPut"
				if col.K == KBool && v.N == 0 {
					kind = "KDelete"
				}
				rec.cols[col.ID] = append(rec.cols[col.ID], opRec{kind: kind, off: o, val: v.forOp(col.K)})
			}
			if !buf.IsEmpty() {
				bufs = append(bufs, buf)
			}
		}
		c := commit.Commit{ID: commit.Next(), Chunk: commit.Chunk(b), Updates: bufs}
		w.coll.Replay(c)
		if b == dense {
			// 16384 markers: the model generates them itself; only Count is compared here and
			// the dump becomes the baseline of the following diffs
			rec.row = nil
			colsTxt := rec.Coq()
			colsTxt = colsTxt[strings.Index(colsTxt, "[] [")+3:]
			w.observe(nil)
			w.emit("StSeedDense %d %s %d", b, colsTxt, w.coll.Count())
			continue
		}
		w.emit("StSeed (%s)", rec.Coq())
		obs := w.observe(nil)
		w.emit("StTxn [] true\n    %s", obs)
	}
	w.stats.Seeded++
}

func (v Val) forOp(k Kind) Val {
	if k == KBool {
		return Val{W: 0}
	}
	return v
}

func putVal(b *commit.Buffer, k Kind, off uint32, v Val) {
	switch k.Width() {
	case 0:
		b.PutBool(off, v.N != 0)
	case 2:
		b.PutUint16(commit.Put, off, uint16(v.N))
	case 4:
		b.PutUint32(commit.Put, off, uint32(v.N))
	case 8:
		b.PutUint64(commit.Put, off, v.N)
	default:
		b.PutBytes(commit.Put, off, v.B)
	}
}

// ---------------------------------------------------------------------------------------
// snapshot -> restore, and replica comparison

func (w *World) buildSchemaOn(c *column.Collection, silent bool) {
	for _, col := range w.cols {
		col.Create(c)
	}
	for _, cp := range w.comps {
		if silent {
			w.createCompSilent(c, cp)
		} else {
			w.createComp(c, cp)
		}
	}
}

func (w *World) doRestore() {
	var buf bytes.Buffer
	if err := w.coll.Snapshot(&buf); err != nil {
		w.notes = append(w.notes, "snapshot failed: "+err.Error())
		return
	}
	old := w.coll
	fresh := w.newCollection()
	w.buildSchemaOn(fresh, false)
	if err := fresh.Restore(&buf); err != nil {
		w.notes = append(w.notes, "restore failed: "+err.Error())
		fresh.Close()
		return
	}
	old.Close()
	w.coll = fresh
	w.stats.Restores++
	// whatever the restore emitted or triggered is not part of the history under comparison
	w.logger.mu.Lock()
	w.logger.commits = nil
	if w.logger.log != nil {
		w.logger.file = &rwBuffer{}
		w.logger.log = commit.Open(w.logger.file)
		w.logger.seen = 0
	}
	w.logger.mu.Unlock()
	w.trigMu.Lock()
	w.trig = map[int][]string{}
	w.trigMu.Unlock()
	rows, keys, count := w.dump(w.coll)
	w.emit("StRestore (mkobs [] %s %d %s [] [])", diffRows(w.prev, rows), count, diffKeys(w.prevKeys, keys))
	w.prev, w.prevKeys = rows, keys
}

func (w *World) doReplicaCheck() {
	if w.replica == nil {
		return
	}
	rows, keys, count := w.dump(w.replica)
	w.emit("StReplica (mkobs [] %s %d %s [] [])", diffRows(w.prev, rows), count, diffKeys(w.prevKeys, keys))
	w.stats.Replicas++
}

// ---------------------------------------------------------------------------------------

var capacities = []int{1, 64, 1000, 1024, 16384, 20000, 40000}

// newWorld creates a collection with a random schema (and optionally seeded blocks)
func newWorld(seed uint64, idx int, prof Profile, stats *Stats, withReplica bool) *World {
	return newWorldHooked(seed, idx, prof, stats, withReplica, nil)
}

func newWorldHooked(seed uint64, idx int, prof Profile, stats *Stats, withReplica bool, cur *atomic.Pointer[World]) *World {
	rng := NewRng(seed).Fork(uint64(idx))
	w := &World{rng: rng, prof: prof, stats: stats, holey: map[int]bool{}, prev: map[uint32]rowObs{}, prevKeys: map[string]uint32{},
		trig: map[int][]string{}, nextID: 1, everDel: map[uint32]bool{}, lastIDs: map[uint32]uint64{}, allIDs: map[uint64]bool{}}
	if cur != nil {
		cur.Store(w)
	}
	w.setDoing("setting the collection up (columns, computed columns, seeded blocks)")
	w.opts = column.Options{Capacity: capacities[rng.Intn(len(capacities))]}
	w.logger = &recLogger{w: w}
	if rng.Bool() {
		w.logger.file = &rwBuffer{}
		w.logger.log = commit.Open(w.logger.file)
	}
	w.coll = w.newCollection()
	if withReplica {
		w.replica = column.NewCollection(column.Options{Capacity: w.opts.Capacity, Vacuum: time.Hour})
	}
	w.emit("StCol %d (col_num 64 merge_add) false", expireID)
	w.keyed = rng.Chance(prof.KeyedPct)
	if w.keyed {
		stats.Keyed++
	}
	kinds := w.kinds()
	lateSorted := false
	ncols := 2 + rng.Intn(4)
	for i := 0; i < ncols; i++ {
		w.addColumn(kinds[rng.Intn(len(kinds))])
	}
	if w.keyed {
		w.addColumn(KKey)
	}
	if !prof.NoComputed {
		for i := rng.Intn(3); i > 0; i-- {
			w.addComp("index")
		}
		if rng.Chance(40) {
			w.addComp("trigger")
		}
		// a sorted index built over rows that exist already (after the seeded blocks) or from the start
		lateSorted = prof.SeedPct > 0 && rng.Chance(35) && (rng.Chance(40) || prof.ForceSorted)
		if !lateSorted && (rng.Chance(40) || prof.ForceSorted) {
			w.addComp("sorted")
		}
	}
	if rng.Chance(prof.SeedPct) {
		w.seedBlocks()
		// indexes built over rows that exist already: their bitmaps end at their last member, so
		// the per-block windows the filters combine have different lengths
		if !prof.NoComputed && rng.Chance(prof.LateIdxPct) {
			for i := 1 + rng.Intn(3); i > 0; i-- {
				w.addComp("index")
			}
			stats.LateIndexes++
		}
		if lateSorted {
			w.addComp("sorted")
			stats.LateIndexes++
		}
	}
	return w
}

func (w *World) kinds() []Kind {
	kinds := w.prof.Kinds
	if kinds == nil {
		for k := Kind(0); k < nKinds; k++ {
			if k != KKey {
				kinds = append(kinds, k)
			}
		}
	}
	return kinds
}

func (w *World) close() {
	if w.coll != nil {
		w.coll.Close()
	}
	if w.replica != nil {
		w.replica.Close()
	}
}

// runCase generates and executes one history; returns the Gallina list of steps.
func runCase(seed uint64, idx int, prof Profile, stats *Stats) (text string, notes []string, panicked string) {
	return runCaseHooked(seed, idx, prof, stats, nil)
}

func runCaseHooked(seed uint64, idx int, prof Profile, stats *Stats, cur *atomic.Pointer[World]) (text string, notes []string, panicked string) {
	var w *World
	defer func() {
		if r := recover(); r != nil {
			panicked = fmt.Sprint(r) + " @ " + shortStack()
			if w != nil {
				text = "[" + strings.Join(w.steps, ";\n  ") + "]"
				notes = w.notes
			}
		}
		if w != nil {
			w.close()
		}
	}()
	w = newWorldHooked(seed, idx, prof, stats, prof.ReplicaPct > 0, cur)
	rng, kinds := w.rng, w.kinds()
	for t := 0; t < prof.Txns; t++ {
		w.setDoing("transaction %d of the history (or the schema step, restore or replica check around it)", t)
		if rng.Chance(prof.SchemaPct) && !prof.NoComputed {
			switch rng.Intn(6) {
			case 0:
				w.addComp("index")
			case 1:
				w.addComp("trigger")
			case 2:
				w.addComp("sorted")
			case 3:
				w.dropComp()
			case 4:
				if len(w.prev) > 0 {
					stats.YoungCols++
				}
				w.addColumn(kinds[rng.Intn(len(kinds))])
			case 5:
				w.dropColumn()
			}
		}
		w.runTxn()
		if rng.Chance(prof.ReplicaPct) {
			w.doReplicaCheck()
		}
		if rng.Chance(prof.RestorePct) {
			w.doRestore()
		}
	}
	if prof.Name == "filter" {
		w.filterBurst()
	}
	if prof.ReplicaPct > 0 {
		w.doReplicaCheck()
	}
	if w.keyed {
		w.keyProbe()
	}
	if prof.ForceSorted {
		w.sortProbe()
	}
	stats.Cases++
	return "[" + strings.Join(w.steps, ";\n  ") + "]", w.notes, ""
}


var errProbe = errors.New("probe: the row exists already")

// keyProbe (end of a keyed history, model-free): UpsertKey of an EXISTING key whose callback refuses
// rows that already hold a value ("initialise once") must fail and change nothing - one live row
// holds the key before and after, Count stays, the lookup still reaches the same row
func (w *World) keyProbe() {
	if w.keyCol == nil {
		return
	}
	rows, keys, count0 := w.dump(w.coll)
	var ks []string
	for k := range keys {
		ks = append(ks, k)
	}
	sort.Strings(ks)
	probed := 0
	for _, k := range ks {
		if probed >= 3 {
			break
		}
		off := keys[k]
		obs, live := rows[off]
		if !live {
			continue
		}
		var col *Col
		for i := range w.cols {
			if _, has := obs.vals[w.cols[i].ID]; has && w.cols[i].K != KKey {
				col = &w.cols[i]
				break
			}
		}
		if col == nil {
			continue
		}
		probed++
		w.stats.KeyProbes++
		err := w.coll.UpsertKey(k, func(r column.Row) error {
			if _, ok := col.Get(r); ok {
				return errProbe
			}
			return nil
		})
		rows2, keys2, count2 := w.dump(w.coll)
		holders := 0
		for o, ob := range rows2 {
			if v, has := ob.vals[w.keyCol.ID]; has && string(v.B) == k {
				holders++
				_ = o
			}
		}
		switch {
		case err == nil:
			w.notes = append(w.notes, fmt.Sprintf("KeyProbe: UpsertKey(%q) whose callback failed on the existing row %d returned nil", k, off))
		case count2 != count0 || holders != 1 || keys2[k] != off:
			w.notes = append(w.notes, fmt.Sprintf("KeyProbe: after a failed UpsertKey(%q) of the existing row %d: Count %d -> %d, %d live rows hold the key, the lookup reaches row %d", k, off, count0, count2, holders, keys2[k]))
		}
		rows, keys, count0 = rows2, keys2, count2
	}
}


// sortProbe (end of a history with sorted indexes, model-free): ascending iteration over the rows
// that hold NO value in the indexed column visits nothing, and over a single valued row visits
// exactly that row - narrow selections, whatever offsets were reused before
func (w *World) sortProbe() {
	rows, _, _ := w.dump(w.coll)
	for _, cp := range w.comps {
		if cp.Kind != "sorted" {
			continue
		}
		var visited []uint32
		err := w.coll.Query(func(txn *column.Txn) error {
			return txn.Without(cp.Target.Name).Ascend(cp.Name, func(i uint32) { visited = append(visited, i) })
		})
		w.stats.SortProbes++
		if err == nil && len(visited) > 0 {
			w.notes = append(w.notes, fmt.Sprintf("SortProbe: Ascend over the rows WITHOUT a value in %s visited %v (live rows: %d)", cp.Target.Name, visited, len(rows)))
		}
	}
	// a NARROW selection of rows on reused offsets: many valued rows, a few of them deleted, rows
	// without the value inserted until some take the freed offsets over (flagged in a column of
	// their own); ascending over the flagged rows visits nothing
	for _, cp := range w.comps {
		if cp.Kind != "sorted" || !cp.Target.K.Stringy() || cp.Target.K == KEnum || cp.Target.K == KKey || w.keyed {
			continue
		}
		if w.coll.CreateColumn("zprobe", column.ForBool()) != nil {
			return
		}
		var valued []uint32
		for i := 0; i < 400; i++ {
			off, err := w.coll.Insert(func(r column.Row) error {
				cp.Target.Set(r, Val{W: -1, B: []byte(fmt.Sprintf("p%03d", i))})
				return nil
			})
			if err == nil {
				valued = append(valued, off)
			}
		}
		freed := map[uint32]bool{}
		for i := 0; i < len(valued) && len(freed) < 8; i += 37 {
			if w.coll.DeleteAt(valued[i]) {
				freed[valued[i]] = true
			}
		}
		reused := 0
		for i := 0; i < 600 && reused < len(freed); i++ {
			off, err := w.coll.Insert(func(r column.Row) error { r.SetBool("zprobe", true); return nil })
			if err != nil {
				break
			}
			if freed[off] {
				reused++
				delete(freed, off)
				freed[off] = false
			} else {
				w.coll.QueryAt(off, func(r column.Row) error { r.SetBool("zprobe", false); return nil })
			}
		}
		w.stats.SortProbes++
		if reused == 0 {
			w.stats.SortProbesNoReuse++
		}
		var visited []uint32
		sel := 0
		w.coll.Query(func(txn *column.Txn) error {
			sel = txn.With("zprobe").Count()
			return txn.Ascend(cp.Name, func(i uint32) { visited = append(visited, i) })
		})
		if len(visited) > 0 {
			w.notes = append(w.notes, fmt.Sprintf("SortProbe: Ascend over %d selected rows on reused offsets, none of which holds a value in %s, visited %v", sel, cp.Target.Name, visited))
		}
		return
	}
}
