package main

// codec engine (C05): op sequences written to a real commit.Buffer; the raw buffer state and the
// per-chunk decode are recorded for coq/CodecCheck.v; the wire round trips (Buffer, Commit, Log)
// and the merge rewrite (sentence 3) are checked here against the written sequence.

import (
	"bytes"
	"encoding/json"
	"flag"
	"fmt"
	"math"
	"os"
	"path/filepath"
	"sort"
	"strings"

	"github.com/kelindar/column/commit"
)

type cop struct {
	kind commit.OpType
	off  uint32
	val  Val
	via  int // which of the equivalent writer entry points is used (PutUint16 / PutInt16 / PutAny ...)
}

var kindCoq = map[commit.OpType]string{commit.Delete: "KDelete", commit.Insert: "KInsert", commit.Put: "KPut", commit.Merge: "KMerge", commit.Skip: "KSkip"}

func (o cop) Coq() string { return fmt.Sprintf("mkop %s %d %s", kindCoq[o.kind], o.off, o.val.Coq()) }

// writeOp writes the operation through one of the writer's equivalent entry points: all of them
// must produce the bytes of the model's [put]
func writeOp(b *commit.Buffer, o cop) {
	via := o.via
	switch o.val.W {
	case 0:
		switch {
		case via%3 == 1 && o.kind == commit.Put:
			b.PutBool(o.off, true)
		case via%3 == 1 && o.kind == commit.Delete:
			b.PutBool(o.off, false)
		case via%3 == 2:
			b.PutAny(o.kind, o.off, nil)
		default:
			b.PutOperation(o.kind, o.off)
		}
	case 2:
		switch via % 4 {
		case 1:
			b.PutInt16(o.kind, o.off, int16(o.val.N))
		case 2:
			b.PutAny(o.kind, o.off, uint16(o.val.N))
		case 3:
			b.PutAny(o.kind, o.off, int16(o.val.N))
		default:
			b.PutUint16(o.kind, o.off, uint16(o.val.N))
		}
	case 4:
		nan := o.val.N&0x7f800000 == 0x7f800000
		switch via % 5 {
		case 1:
			b.PutInt32(o.kind, o.off, int32(o.val.N))
		case 2:
			b.PutAny(o.kind, o.off, int32(o.val.N))
		case 3:
			if nan {
				b.PutUint32(o.kind, o.off, uint32(o.val.N))
			} else {
				b.PutFloat32(o.kind, o.off, math.Float32frombits(uint32(o.val.N)))
			}
		case 4:
			b.PutAny(o.kind, o.off, uint32(o.val.N))
		default:
			b.PutUint32(o.kind, o.off, uint32(o.val.N))
		}
	case 8:
		nan := o.val.N&0x7ff0000000000000 == 0x7ff0000000000000
		switch via % 7 {
		case 1:
			b.PutInt64(o.kind, o.off, int64(o.val.N))
		case 2:
			b.PutAny(o.kind, o.off, int64(o.val.N))
		case 3:
			if nan {
				b.PutUint64(o.kind, o.off, o.val.N)
			} else {
				b.PutFloat64(o.kind, o.off, math.Float64frombits(o.val.N))
			}
		case 4:
			b.PutAny(o.kind, o.off, int(o.val.N))
		case 5:
			b.PutAny(o.kind, o.off, uint(o.val.N))
		case 6:
			b.PutInt(o.kind, o.off, int(o.val.N))
		default:
			b.PutUint64(o.kind, o.off, o.val.N)
		}
	default:
		switch via % 4 {
		case 1:
			b.PutString(o.kind, o.off, string(o.val.B))
		case 2:
			b.PutAny(o.kind, o.off, string(o.val.B))
		case 3:
			b.PutAny(o.kind, o.off, append([]byte(nil), o.val.B...))
		default:
			b.PutBytes(o.kind, o.off, o.val.B)
		}
	}
}

// decode reads one chunk of a buffer; width is recovered from the value slice, strings from the
// written sequence (a reader cannot tell a 2-byte string from a uint16 without the column type)
func decodeChunk(b *commit.Buffer, chunk commit.Chunk, isStr map[uint32]bool) []cop {
	var out []cop
	r := commit.NewReader()
	r.Range(b, chunk, func(r *commit.Reader) {
		for r.Next() {
			v := r.Bytes()
			o := cop{kind: r.Type, off: r.Index()}
			if isStr != nil && r.IsString() {
				o.val = Val{W: -1, B: append([]byte(nil), v...)}
			} else {
				var n uint64
				for _, x := range v {
					n = n<<8 | uint64(x)
				}
				o.val = Val{W: len(v), N: n}
			}
			out = append(out, o)
		}
	})
	return out
}

// typedReads: what the width-generic accessors Reader.Int / Reader.Uint return for every numeric
// entry of the buffer (the int and uint columns read their puts through them)
func typedReads(b *commit.Buffer, chunks []commit.Chunk, s *codecSummary) []string {
	var out []string
	r := commit.NewReader()
	for _, ch := range chunks {
		r.Range(b, ch, func(r *commit.Reader) {
			for r.Next() {
				v := r.Bytes()
				if r.IsString() || (len(v) != 2 && len(v) != 4 && len(v) != 8) {
					continue
				}
				var n uint64
				for _, x := range v {
					n = n<<8 | uint64(x)
				}
				out = append(out, fmt.Sprintf("(%d, %d, (%d)%%Z, %d)", len(v), n, int64(r.Int()), uint64(r.Uint())))
				s.TypedReads++
			}
		})
	}
	return out
}

func sameOps(a, b []cop) bool {
	if len(a) != len(b) {
		return false
	}
	for i := range a {
		if a[i].kind != b[i].kind || a[i].off != b[i].off || !a[i].val.Equal(b[i].val) {
			return false
		}
	}
	return true
}

var hugeLeft = 48
var hugeInCase bool

func genOps(rng *Rng, n int, long bool) []cop {
	var ops []cop
	off := uint32(0)
	for i := 0; i < n; i++ {
		switch rng.Intn(12) {
		case 0: // same
		case 1, 2, 3:
			off++
		case 4:
			off += uint32(2 + rng.Intn(126))
		case 5:
			off += uint32(128 + rng.Intn(16256))
		case 6:
			off += uint32(16384 + rng.Intn(3000000))
		case 7:
			off = uint32(rng.Intn(4)) << 14 // block jump to a block start
		case 8:
			off -= uint32(rng.Intn(int(off%70000) + 1)) // backwards
		case 9:
			off = uint32(rng.Intn(20)) // back to block 0
		case 10:
			off = []uint32{0, 16383, 16384, 32767, 32768, 1 << 21, 1<<28 - 1, 1 << 28, 1<<31 - 1, 1 << 31, 1<<32 - 1}[rng.Intn(11)]
		case 11:
			off += 16384
		}
		kinds := []commit.OpType{commit.Delete, commit.Insert, commit.Put, commit.Put, commit.Merge, commit.Merge}
		o := cop{kind: kinds[rng.Intn(len(kinds))], off: off, via: rng.Intn(420)}
		switch rng.Intn(6) {
		case 0:
			o.val = Val{W: 0}
		case 1:
			o.val = Val{W: 2, N: rng.U64() & 0xffff}
		case 2:
			o.val = Val{W: 4, N: rng.U64() & 0xffffffff}
			if rng.Chance(30) {
				o.val.N = boundaryVal(rng) & 0xffffffff
			}
		case 3:
			o.val = Val{W: 8, N: rng.U64()}
			if rng.Chance(40) {
				o.val.N = boundaryVal(rng)
			}
		default:
			ln := rng.Intn(6)
			if rng.Chance(10) {
				ln = []int{127, 128, 255, 256, 300}[rng.Intn(5)]
			}
			if long && hugeLeft > 0 && !hugeInCase && rng.Chance(2) {
				// each of these costs about a megabyte of Gallina text: a fixed budget per run
				ln = []int{65535, 40000}[rng.Intn(2)]
				hugeLeft--
				hugeInCase = true
			}
			b := make([]byte, ln)
			for j := range b {
				b[j] = byte(rng.U64())
			}
			o.val = Val{W: -1, B: b}
		}
		ops = append(ops, o)
	}
	return ops
}

// boundaryVal: values around the powers of two where a narrower encoding of the same number would
// stop being exact (2^7, 2^8, 2^15, 2^16, 2^31, 2^32, 2^63), and small ones
func boundaryVal(rng *Rng) uint64 {
	k := []uint{7, 8, 15, 16, 31, 32, 63}[rng.Intn(7)]
	base := uint64(1) << k
	switch rng.Intn(6) {
	case 0:
		return base - 1
	case 1:
		return base
	case 2:
		return base + 1
	case 3:
		return base + rng.U64()%base
	case 4:
		return ^base + 1
	}
	return uint64(rng.Intn(300))
}

type codecSummary struct {
	Engine     string         `json:"engine"`
	Cases      int            `json:"cases"`
	Shards     []string       `json:"shards"`
	TypedReads int            `json:"typed_reads"`
	Failures   []string       `json:"failures"` // wire / rewrite checks done here
	Ops        int            `json:"ops"`
	Kinds      map[string]int `json:"op_kinds"`
	Widths     map[string]int `json:"value_widths"`
	Deltas     map[string]int `json:"delta_classes"`
	MaxLen     int            `json:"longest_sequence"`
	Samples    []string       `json:"samples"`
	Rewrites   int            `json:"rewrite_checks"`
	K2         int            `json:"k2_instances"`
	WireTrips  int            `json:"wire_round_trips"`
}

func deltaClass(prev, cur uint32) string {
	d := cur - prev
	switch {
	case prev>>14 != cur>>14:
		return "block-jump"
	case d == 0:
		return "same"
	case d == 1:
		return "+1"
	case int32(d) < 0:
		return "negative"
	case d < 1<<7:
		return "1-byte"
	case d < 1<<14:
		return "2-byte"
	default:
		return "3+byte"
	}
}

// checkWire: Buffer.WriteTo/ReadFrom, Commit.WriteTo/ReadFrom per chunk, Log.Append/Range
func checkWire(ops []cop, b *commit.Buffer, chunks []commit.Chunk, isStr map[uint32]bool) string {
	var w bytes.Buffer
	if _, err := b.WriteTo(&w); err != nil {
		return "Buffer.WriteTo: " + err.Error()
	}
	b2 := commit.NewBuffer(8)
	if _, err := b2.ReadFrom(bytes.NewReader(w.Bytes())); err != nil {
		return "Buffer.ReadFrom: " + err.Error()
	}
	l1, c1, y1, h1 := b.VerifState()
	l2, c2, y2, h2 := b2.VerifState()
	if l1 != l2 || (len(h1) > 0 && c1 != c2) || !bytes.Equal(y1, y2) || fmt.Sprint(h1) != fmt.Sprint(h2) || b.Column != b2.Column {
		return "Buffer round trip changed the buffer state"
	}
	// commits for every chunk, through a log
	file := &rwBuffer{}
	lg := commit.Open(file)
	for i, ch := range chunks {
		if err := lg.Append(commit.Commit{ID: uint64(100 + i), Chunk: ch, Updates: []*commit.Buffer{b}}); err != nil {
			return "Log.Append: " + err.Error()
		}
	}
	i := 0
	var bad string
	err := commit.Open(bytes.NewReader(file.Bytes())).Range(func(c commit.Commit) error {
		if i >= len(chunks) || c.ID != uint64(100+i) || c.Chunk != chunks[i] || len(c.Updates) != 1 {
			bad = fmt.Sprintf("Log.Range delivered commit %d wrongly (id %d chunk %d)", i, c.ID, c.Chunk)
			return nil
		}
		got := decodeChunk(c.Updates[0], c.Chunk, isStr)
		want := decodeChunk(b, c.Chunk, isStr)
		if !sameOps(got, want) {
			bad = fmt.Sprintf("commit for chunk %d decodes differently after Log round trip", c.Chunk)
		}
		// a consumer of the log applies the commit: the rewrite must work on the decoded buffer too
		var mine []cop
		for _, o := range ops {
			if commit.Chunk(o.off>>14) == c.Chunk {
				mine = append(mine, o)
			}
		}
		if f := checkRewrite(mine, c.Updates[0], []commit.Chunk{c.Chunk}, isStr); f != "" && bad == "" {
			bad = "on the commit read back from the log: " + f
		}
		i++
		return nil
	})
	if err != nil {
		return "Log.Range: " + err.Error()
	}
	if bad == "" && i != len(chunks) {
		bad = fmt.Sprintf("Log.Range delivered %d of %d commits", i, len(chunks))
	}
	if bad != "" {
		return bad
	}
	// a consumer that KEEPS the commits it is handed (a batching replica): every commit carries its
	// own buffer - the operations of its chunk only - and must still decode to them after Range returned
	file2 := &rwBuffer{}
	lg2 := commit.Open(file2)
	perChunk := map[commit.Chunk][]cop{}
	for _, o := range ops {
		perChunk[commit.Chunk(o.off>>14)] = append(perChunk[commit.Chunk(o.off>>14)], o)
	}
	for i, ch := range chunks {
		bi := commit.NewBuffer(16)
		bi.Reset("c")
		for _, o := range perChunk[ch] {
			writeOp(bi, o)
		}
		if err := lg2.Append(commit.Commit{ID: uint64(500 + i), Chunk: ch, Updates: []*commit.Buffer{bi}}); err != nil {
			return "Log.Append: " + err.Error()
		}
	}
	var kept []commit.Commit
	if err := commit.Open(bytes.NewReader(file2.Bytes())).Range(func(c commit.Commit) error { kept = append(kept, c); return nil }); err != nil {
		return "Log.Range: " + err.Error()
	}
	if len(kept) != len(chunks) {
		return fmt.Sprintf("Log.Range delivered %d of %d commits", len(kept), len(chunks))
	}
	// a decoded buffer is a buffer: writing on after a WriteTo / ReadFrom round trip (of the empty
	// buffer, of a prefix ending in any block) must give the buffer that was written in one go
	for _, k := range []int{0, 1, len(ops) / 2, len(ops) - 1} {
		if k < 0 || k > len(ops) {
			continue
		}
		pre := commit.NewBuffer(16)
		pre.Reset(b.Column)
		for _, o := range ops[:k] {
			writeOp(pre, o)
		}
		var pw bytes.Buffer
		if _, err := pre.WriteTo(&pw); err != nil {
			return "Buffer.WriteTo: " + err.Error()
		}
		cont := commit.NewBuffer(8)
		if _, err := cont.ReadFrom(bytes.NewReader(pw.Bytes())); err != nil {
			return "Buffer.ReadFrom: " + err.Error()
		}
		for _, o := range ops[k:] {
			writeOp(cont, o)
		}
		for _, ch := range chunks {
			if !sameOps(decodeChunk(cont, ch, isStr), decodeChunk(b, ch, isStr)) {
				return fmt.Sprintf("a buffer decoded after its first %d operations and written on reads block %d differently from the buffer written in one go", k, ch)
			}
		}
		var seen []commit.Chunk
		cont.RangeChunks(func(ch commit.Chunk) { seen = append(seen, ch) })
		var want []commit.Chunk
		b.RangeChunks(func(ch commit.Chunk) { want = append(want, ch) })
		if fmt.Sprint(seen) != fmt.Sprint(want) {
			return fmt.Sprintf("a buffer decoded after its first %d operations and written on reports blocks %v, the buffer written in one go %v", k, seen, want)
		}
	}
	for i, c := range kept {
		if c.ID != uint64(500+i) || c.Chunk != chunks[i] || len(c.Updates) != 1 {
			return fmt.Sprintf("commit %d kept from Log.Range has id %d chunk %d and %d buffers", i, c.ID, c.Chunk, len(c.Updates))
		}
		if got := decodeChunk(c.Updates[0], c.Chunk, isStr); !sameOps(got, perChunk[c.Chunk]) {
			return fmt.Sprintf("commit %d (chunk %d) kept from Log.Range no longer decodes to its own operations once Range has returned", i, c.Chunk)
		}
	}
	return ""
}

// checkRewrite: a first reader replaces every merge by "old ++ delta" / "old + delta" through Swap*;
// a second reader must then see, per offset, the written sequence with merges turned into puts
var k2Seen int

func checkRewrite(ops []cop, b *commit.Buffer, chunks []commit.Chunk, isStr map[uint32]bool) string {
	want := map[uint32][]cop{}
	for _, o := range ops {
		x := o
		if o.kind == commit.Merge && o.val.W != 0 {
			x.kind = commit.Put
			if o.val.W == -1 {
				x.val = Val{W: -1, B: append([]byte("m:"), o.val.B...)} // length-changing
				if len(x.val.B) > 65535 {
					x.val.B = x.val.B[:len(o.val.B)]
				}
			} else {
				x.val = Val{W: o.val.W, N: (o.val.N + 1) & (^uint64(0) >> (64 - 8*uint(o.val.W)))}
			}
		}
		want[o.off] = append(want[o.off], x)
	}
	r := commit.NewReader()
	for _, ch := range chunks {
		r.Range(b, ch, func(r *commit.Reader) {
			for r.Next() {
				if r.Type != commit.Merge {
					continue
				}
				v := r.Bytes()
				switch {
				case r.IsString():
					nv := append([]byte("m:"), v...)
					if len(nv) > 65535 {
						nv = nv[:len(v)]
					}
					r.SwapBytes(nv)
				case len(v) == 2:
					r.SwapUint16(r.Uint16() + 1)
				case len(v) == 4:
					r.SwapUint32(r.Uint32() + 1)
				case len(v) == 8:
					r.SwapUint64(r.Uint64() + 1)
				}
			}
		})
	}
	got := map[uint32][]cop{}
	// chunks may have gained runs: collect again
	seen := map[commit.Chunk]bool{}
	b.RangeChunks(func(c commit.Chunk) { seen[c] = true })
	for ch := range seen {
		for _, o := range decodeChunk(b, ch, isStr) {
			if o.kind == commit.Skip {
				continue
			}
			got[o.off] = append(got[o.off], o)
		}
	}
	for off, w := range want {
		// finding K2: a length-changing string merge is re-appended at the end of the buffer, so
		// it moves behind every later operation on the same offset
		k2 := false
		seenStrMerge := false
		for _, o := range ops {
			if o.off != off {
				continue
			}
			if seenStrMerge {
				k2 = true
			}
			if o.kind == commit.Merge && o.val.W == -1 {
				seenStrMerge = true
			}
		}
		if k2 {
			if !sameOps(got[off], w) {
				k2Seen++
			}
			continue
		}
		if !sameOps(got[off], w) {
			return fmt.Sprintf("after the rewrite offset %d reads %d ops, want %d with merges as puts", off, len(got[off]), len(w))
		}
	}
	return ""
}

func cmdCodec(args []string) {
	fs := flag.NewFlagSet("codec", flag.ExitOnError)
	seed := fs.Uint64("seed", 1, "seed")
	n := fs.Int("n", 200, "cases")
	out := fs.String("out", "", "output directory")
	per := fs.Int("per-shard", 40, "cases per shard")
	long := fs.Bool("long", false, "include very long strings and sequences")
	fs.Parse(args)
	os.MkdirAll(*out, 0o755)
	rng := NewRng(*seed)
	s := codecSummary{Engine: "codec", Kinds: map[string]int{}, Widths: map[string]int{}, Deltas: map[string]int{}}
	var cases, reads []string
	shardNo, firstCase, shardBytes := 0, 0, 0
	flush := func() {
		if len(cases) == 0 {
			return
		}
		name := filepath.Join(*out, fmt.Sprintf("codec_%05d.v", shardNo))
		txt := "From Coq Require Import NArith ZArith List.\nFrom ColumnV Require Import Bytes Ops Buffer CodecCheck ReadInt.\nImport ListNotations.\nLocal Open Scope N_scope.\n" +
			fmt.Sprintf("Definition M := Eval vm_compute in check_ccases %d [\n %s].\nPrint M.\n", firstCase, strings.Join(cases, ";\n ")) +
			fmt.Sprintf("Definition R := Eval vm_compute in check_reads %d [\n %s].\nPrint R.\n", firstCase, strings.Join(reads, ";\n "))
		os.WriteFile(name, []byte(txt), 0o644)
		s.Shards = append(s.Shards, name)
		firstCase += len(cases)
		cases, reads, shardBytes = nil, nil, 0
		shardNo++
	}
	for i := 0; i < *n; i++ {
		ln := 1 + rng.Intn(12)
		if rng.Chance(15) {
			ln = 40 + rng.Intn(160)
		}
		if *long && rng.Chance(2) {
			ln = 500 + rng.Intn(1500)
		}
		hugeInCase = false
		ops := genOps(rng.Fork(uint64(i)), ln, *long)
		if ln > s.MaxLen {
			s.MaxLen = ln
		}
		b := commit.NewBuffer(64)
		b.Reset("c")
		isStr := map[uint32]bool{}
		prev := uint32(0)
		for _, o := range ops {
			writeOp(b, o)
			s.Ops++
			s.Kinds[kindCoq[o.kind]]++
			s.Widths[fmt.Sprint(o.val.W)]++
			s.Deltas[deltaClass(prev, o.off)]++
			prev = o.off
			if o.val.W == -1 {
				isStr[o.off] = true
			}
		}
		last, _, raw, hdrs := b.VerifState()
		chset := map[commit.Chunk]bool{}
		b.RangeChunks(func(c commit.Chunk) { chset[c] = true })
		var chunks []commit.Chunk
		for c := range chset {
			chunks = append(chunks, c)
		}
		sort.Slice(chunks, func(a, b int) bool { return chunks[a] < chunks[b] })
		var ranges []string
		for _, ch := range chunks {
			dec := decodeChunk(b, ch, isStr)
			var os_ []string
			for _, o := range dec {
				os_ = append(os_, o.Coq())
			}
			ranges = append(ranges, fmt.Sprintf("(%d, [%s])", ch, strings.Join(os_, "; ")))
		}
		var opsS, hs []string
		for _, o := range ops {
			opsS = append(opsS, o.Coq())
		}
		for _, h := range hdrs {
			hs = append(hs, fmt.Sprintf("(%d, %d, %d)", h.Chunk, h.Start, h.Value))
		}
		c := fmt.Sprintf("mkcc [%s]\n   %s [%s] %d\n   [%s]", strings.Join(opsS, "; "), coqBytes(raw), strings.Join(hs, "; "), uint32(last), strings.Join(ranges, "; "))
		cases = append(cases, c)
		reads = append(reads, "["+strings.Join(typedReads(b, chunks, &s), "; ")+"]")
		shardBytes += len(c)
		if len(s.Samples) < 2 && len(c) < 1500 {
			s.Samples = append(s.Samples, c)
		}
		if f := checkWire(ops, b, chunks, isStr); f != "" {
			s.Failures = append(s.Failures, fmt.Sprintf("case %d: %s", i, f))
		}
		s.WireTrips++
		if f := checkRewrite(ops, b, chunks, isStr); f != "" {
			s.Failures = append(s.Failures, fmt.Sprintf("case %d: %s", i, f))
		}
		s.Rewrites++
		if len(cases) >= *per || shardBytes > 1200000 { // coqc's parser overflows its stack on multi-megabyte terms
			flush()
		}
	}
	flush()
	s.Cases = *n
	s.K2 = k2Seen
	js, _ := json.MarshalIndent(s, "", " ")
	os.WriteFile(filepath.Join(*out, "summary.json"), js, 0o644)
}
