package main

import "runtime"

// runtimeGC gives finalizers (os.File) their chance before descriptors are counted
func runtimeGC() {
	runtime.GC()
	runtime.GC()
}
