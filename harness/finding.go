package main

// Known findings (KNOWN_FINDINGS.txt): small deterministic scenarios that tell whether a listed
// defect still reproduces on the tree under test.  bin/check prints a KNOWN-FINDING line for
// every class that does.

import (
	"encoding/json"
	"flag"
	"fmt"
	"os"
	"path/filepath"
	"strings"
	"sync"
	"time"

	"github.com/kelindar/column"
)

func findingColl(keyed bool) *column.Collection {
	c := column.NewCollection(column.Options{Vacuum: time.Hour, Capacity: 64})
	c.CreateColumn("v", column.ForInt64())
	c.CreateColumn("s", column.ForString())
	c.CreateColumn("e", column.ForEnum())
	if keyed {
		c.CreateColumn("k", column.ForKey())
	}
	return c
}

func cmdFinding(args []string) {
	fs := flag.NewFlagSet("finding", flag.ExitOnError)
	out := fs.String("out", "", "output directory")
	fs.Parse(args)
	os.MkdirAll(*out, 0o755)
	res := map[string]string{}
	try := func(name string, f func() string) {
		defer func() {
			if r := recover(); r != nil {
				res[name] = fmt.Sprintf("panic: %v @ %s", r, shortStack())
			}
		}()
		if d := f(); d != "" {
			res[name] = d
		}
	}
	// K1: the offset of an in-flight insert is visible (Count, an empty row) before the commit
	try("K1", func() string {
		c := findingColl(false)
		defer c.Close()
		c.Insert(func(r column.Row) error { r.SetInt64("v", 1); return nil })
		seen, rows := 0, 0
		c.Insert(func(r column.Row) error {
			seen = c.Count() // what any other reader observes while this insert is in flight
			c.Query(func(txn *column.Txn) error { rows = txn.Count(); return nil })
			r.SetInt64("v", 2)
			return nil
		})
		if seen == 2 || rows == 2 {
			return fmt.Sprintf("while one insert is in flight Count()=%d and a new transaction selects %d rows (1 committed)", seen, rows)
		}
		return ""
	})
	// K3: two enum strings whose xxh3 hashes agree in the low 32 bits read back as one
	try("K3", func() string {
		c := findingColl(false)
		defer c.Close()
		a, _ := c.Insert(func(r column.Row) error { r.SetEnum("e", "k9870"); return nil })
		b, _ := c.Insert(func(r column.Row) error { r.SetEnum("e", "k53003"); return nil })
		var va, vb string
		c.QueryAt(a, func(r column.Row) error { va, _ = r.Enum("e"); return nil })
		c.QueryAt(b, func(r column.Row) error { vb, _ = r.Enum("e"); return nil })
		_ = va
		if vb != "k53003" {
			return fmt.Sprintf("SetEnum k9870 on row %d and k53003 on row %d: row %d reads %q", a, b, b, vb)
		}
		return ""
	})
	// K4: a 65536-byte string does not fit the 2-byte length field
	try("K4", func() string {
		c := findingColl(false)
		defer c.Close()
		big := strings.Repeat("x", 65536)
		var got string
		func() {
			defer func() {
				if r := recover(); r != nil {
					got = fmt.Sprintf("panic: %v", r)
				}
			}()
			off, _ := c.Insert(func(r column.Row) error { r.SetString("s", big); return nil })
			c.QueryAt(off, func(r column.Row) error {
				v, _ := r.String("s")
				if v != big {
					got = fmt.Sprintf("a 65536-byte string reads back with length %d", len(v))
				}
				return nil
			})
		}()
		return got
	})
	// K5: two inserts of one new key inside one transaction both succeed
	try("K5", func() string {
		c := findingColl(true)
		defer c.Close()
		var e1, e2 error
		c.Query(func(txn *column.Txn) error {
			e1 = txn.InsertKey("a", func(r column.Row) error { r.SetInt64("v", 1); return nil })
			e2 = txn.InsertKey("a", func(r column.Row) error { r.SetInt64("v", 2); return nil })
			return nil
		})
		if e1 == nil && e2 == nil && c.Count() == 2 {
			return "InsertKey(\"a\") twice in one transaction: both succeed, Count()=2, two live rows hold key a"
		}
		return ""
	})
	// K6: two concurrent upserts of one new key, the second between the first one's check and insert
	try("K6", func() string {
		c := findingColl(true)
		defer c.Close()
		paused, resume := make(chan struct{}), make(chan struct{})
		var once sync.Once
		column.VerifHook.Store(func(p string, _ uint32) {
			if p == "k.check" {
				first := false
				once.Do(func() { first = true })
				if first {
					close(paused)
					<-resume
				}
			}
		})
		defer removeHook()
		var wg sync.WaitGroup
		wg.Add(1)
		go func() { defer wg.Done(); c.UpsertKey("x", func(r column.Row) error { r.SetInt64("v", 1); return nil }) }()
		<-paused
		c.UpsertKey("x", func(r column.Row) error { r.SetInt64("v", 2); return nil })
		close(resume)
		wg.Wait()
		if c.Count() == 2 {
			return "two concurrent UpsertKey(\"x\") of a new key, the second scheduled between the first one's lookup and insert: Count()=2"
		}
		return ""
	})
	// K7: an insert whose callback fails, the error swallowed, then another insert in the same transaction
	try("K7", func() string {
		c := findingColl(false)
		defer c.Close()
		var o1, o2 uint32
		c.Query(func(txn *column.Txn) error {
			o1, _ = txn.Insert(func(r column.Row) error { r.SetString("s", "from the failed insert"); return errFail })
			o2, _ = txn.Insert(func(r column.Row) error { r.SetInt64("v", 7); return nil })
			return nil
		})
		var s string
		var has bool
		c.QueryAt(o2, func(r column.Row) error { s, has = r.String("s"); return nil })
		if o1 == o2 && has {
			return fmt.Sprintf("a failed insert (error swallowed) and the next insert of the transaction both got offset %d; the committed row reads s=%q", o1, s)
		}
		return ""
	})
	b, _ := json.MarshalIndent(res, "", " ")
	os.WriteFile(filepath.Join(*out, "findings.json"), b, 0o644)
}
