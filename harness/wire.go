package main

// wire engine (C13 / C05 sentence 2): Commit.WriteTo's bytes against coq/WireCommit.v commit_enc, and
// Commit.ReadFrom's verdict on prefixes against commit_dec.

import (
	"bytes"
	"encoding/json"
	"flag"
	"fmt"
	"os"
	"path/filepath"
	"strings"

	"github.com/kelindar/column/commit"
)

func cmdWire(args []string) {
	fs := flag.NewFlagSet("wire", flag.ExitOnError)
	seed := fs.Uint64("seed", 1, "seed")
	n := fs.Int("n", 120, "commits")
	out := fs.String("out", "", "output directory")
	fs.Parse(args)
	os.MkdirAll(*out, 0o755)
	rng := NewRng(*seed)
	type sum struct {
		Engine  string   `json:"engine"`
		Cases   int      `json:"cases"`
		Cuts    int      `json:"cuts"`
		Shards  []string `json:"shards"`
		Samples []string `json:"samples"`
		Bytes   int      `json:"bytes"`
		Buffers int      `json:"buffers"`
	}
	s := sum{Engine: "wire"}
	var cases []string
	for i := 0; i < *n; i++ {
		nb := 1 + rng.Intn(3)
		chunk := commit.Chunk(rng.Intn(3))
		var ups []*commit.Buffer
		var upsCoq []string
		for u := 0; u < nb; u++ {
			b := commit.NewBuffer(32)
			name := []string{"a", "row", "col_with_a_longer_name", ""}[rng.Intn(4)]
			b.Reset(name)
			for _, o := range genOps(rng.Fork(uint64(i*10+u)), 1+rng.Intn(14), false) {
				if rng.Chance(60) {
					o.off = uint32(chunk)<<14 | (o.off & 16383) // most ops in the commit's chunk
				}
				writeOp(b, o)
			}
			ups = append(ups, b)
			_, _, raw, hdrs := b.VerifState()
			var shards []string
			var payload []byte
			for h, hd := range hdrs {
				if commit.Chunk(hd.Chunk) != chunk {
					continue
				}
				end := len(raw)
				if h+1 < len(hdrs) {
					end = int(hdrs[h+1].Start)
				}
				shards = append(shards, fmt.Sprintf("(%d, %d)", hd.Value, len(payload)))
				payload = append(payload, raw[hd.Start:end]...)
			}
			upsCoq = append(upsCoq, fmt.Sprintf("(%s, ([%s], %s))", coqBytes([]byte(name)), strings.Join(shards, "; "), coqBytes(payload)))
		}
		id := rng.U64() >> uint(rng.Intn(60))
		c := commit.Commit{ID: id, Chunk: chunk, Updates: ups}
		var w bytes.Buffer
		if _, err := c.WriteTo(&w); err != nil {
			continue
		}
		data := w.Bytes()
		s.Bytes += len(data)
		var cuts []string
		for _, k := range []int{0, 1, 2, len(data) / 3, len(data) / 2, len(data) - 2, len(data) - 1, len(data), rng.Intn(len(data) + 1), rng.Intn(len(data) + 1)} {
			if k < 0 || k > len(data) {
				continue
			}
			var rc commit.Commit
			ok := func() (ok bool) {
				defer func() {
					if recover() != nil {
						ok = false
					}
				}()
				_, err := rc.ReadFrom(bytes.NewReader(data[:k]))
				return err == nil
			}()
			cuts = append(cuts, fmt.Sprintf("(%d%%nat, %v)", k, ok))
			s.Cuts++
		}
		cs := fmt.Sprintf("((%d, (%d, [%s])), %s, [%s])", chunk, id, strings.Join(upsCoq, "; "), coqBytes(data), strings.Join(cuts, "; "))
		cases = append(cases, cs)
		if len(s.Samples) < 1 && len(cs) < 900 {
			s.Samples = append(s.Samples, cs)
		}
	}
	per := 60
	for i := 0; i < len(cases); i += per {
		j := i + per
		if j > len(cases) {
			j = len(cases)
		}
		name := filepath.Join(*out, fmt.Sprintf("wire_%05d.v", i))
		txt := "From Coq Require Import NArith List.\nFrom ColumnV Require Import Wire WireCommit.\nImport ListNotations.\nLocal Open Scope N_scope.\n" +
			fmt.Sprintf("Definition M := Eval vm_compute in wire_mismatches %d [\n %s].\nPrint M.\n", i, strings.Join(cases[i:j], ";\n "))
		os.WriteFile(name, []byte(txt), 0o644)
		s.Shards = append(s.Shards, name)
	}
	// whole buffers through Buffer.WriteTo
	var bcases []string
	for i := 0; i < *n; i++ {
		b := commit.NewBuffer(32)
		name := []string{"a", "row", "x_long_column_name", ""}[rng.Intn(4)]
		b.Reset(name)
		for _, o := range genOps(rng.Fork(uint64(1000000+i)), rng.Intn(16), false) {
			writeOp(b, o)
		}
		var w bytes.Buffer
		if _, err := b.WriteTo(&w); err != nil {
			continue
		}
		last, _, raw, hdrs := b.VerifState()
		var hs []string
		for _, h := range hdrs {
			hs = append(hs, fmt.Sprintf("(%d, (%d, %d))", h.Chunk, h.Start, h.Value))
		}
		bcases = append(bcases, fmt.Sprintf("((%s, (%d, ([%s], %s))), %s)", coqBytes([]byte(name)), uint32(last), strings.Join(hs, "; "), coqBytes(raw), coqBytes(w.Bytes())))
		s.Bytes += w.Len()
	}
	for i := 0; i < len(bcases); i += per {
		j := i + per
		if j > len(bcases) {
			j = len(bcases)
		}
		name := filepath.Join(*out, fmt.Sprintf("wbuf_%05d.v", i))
		txt := "From Coq Require Import NArith List.\nFrom ColumnV Require Import Wire WireCommit.\nImport ListNotations.\nLocal Open Scope N_scope.\n" +
			fmt.Sprintf("Definition M := Eval vm_compute in wbuffer_mismatches %d [\n %s].\nPrint M.\n", 100000+i, strings.Join(bcases[i:j], ";\n "))
		os.WriteFile(name, []byte(txt), 0o644)
		s.Shards = append(s.Shards, name)
	}
	s.Buffers = len(bcases)
	s.Cases = len(cases)
	b, _ := json.MarshalIndent(s, "", " ")
	os.WriteFile(filepath.Join(*out, "summary.json"), b, 0o644)
}
