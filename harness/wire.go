package main

// wire engine (C13 / C05 sentence 2): Commit.WriteTo's bytes against coq/WireCommit.v commit_enc, and
// Commit.ReadFrom's verdict on prefixes against commit_dec.

import (
	"bytes"
	"encoding/json"
	"flag"
	"fmt"
	"io"
	"os"
	"path/filepath"
	"strings"

	"github.com/kelindar/column/commit"
	"github.com/kelindar/iostream"
	"github.com/klauspost/compress/s2"
)

// coqUpdate renders the part of a buffer that belongs to one block the way WireCommit.update lays it out
func coqUpdate(b *commit.Buffer, chunk commit.Chunk) string {
	_, _, raw, hdrs := b.VerifState()
	var shards []string
	var payload []byte
	for h, hd := range hdrs {
		if commit.Chunk(hd.Chunk) != chunk {
			continue
		}
		end := len(raw)
		if h+1 < len(hdrs) {
			end = int(hdrs[h+1].Start)
		}
		shards = append(shards, fmt.Sprintf("(%d, %d)", hd.Value, len(payload)))
		payload = append(payload, raw[hd.Start:end]...)
	}
	return fmt.Sprintf("(%s, ([%s], %s))", coqBytes([]byte(b.Column)), strings.Join(shards, "; "), coqBytes(payload))
}

func coqCommit(c commit.Commit) string {
	var ups []string
	for _, u := range c.Updates {
		ups = append(ups, coqUpdate(u, c.Chunk))
	}
	return fmt.Sprintf("(%d, (%d, [%s]))", c.Chunk, c.ID, strings.Join(ups, "; "))
}

func coqWBuffer(b *commit.Buffer) string {
	last, _, raw, hdrs := b.VerifState()
	var hs []string
	for _, h := range hdrs {
		hs = append(hs, fmt.Sprintf("(%d, (%d, %d))", h.Chunk, h.Start, h.Value))
	}
	return fmt.Sprintf("(%s, (%d, ([%s], %s)))", coqBytes([]byte(b.Column)), uint32(last), strings.Join(hs, "; "), coqBytes(raw))
}

// stateCases: real snapshots (state stream + recorded commits) with the s2 layer removed, parsed by the
// real readers, against coq/WireState.v (state_enc / state_dec / restore_bytes)
func stateCases(seed uint64, n int, out string) (shards []string, cases, total int, failures, samples []string) {
	stats := newStats()
	var cs, s2cs []string
	for i := 0; i < n; i++ {
		w := newWorld(seed+7777, i, persistProfile, stats, false)
		for t := 0; t < 2+w.rng.Intn(5); t++ {
			w.runTxn()
		}
		ids := w.coll.VerifCommits()
		file, stateLen, _, err := w.snapshotWithTail(w.rng.Intn(3))
		w.close()
		if err != nil || stateLen > len(file) {
			failures = append(failures, fmt.Sprintf("state case %d: snapshot failed: %v", i, err))
			continue
		}
		sbytes, err1 := io.ReadAll(s2.NewReader(bytes.NewReader(file[:stateLen])))
		lbytes, err2 := io.ReadAll(s2.NewReader(bytes.NewReader(file[stateLen:])))
		if err1 != nil || err2 != nil {
			failures = append(failures, fmt.Sprintf("state case %d: s2 decoding of a complete snapshot failed: %v %v", i, err1, err2))
			continue
		}
		if len(sbytes)+len(lbytes) > 60000 {
			continue
		}
		// parse the state with the real readers
		r := iostream.NewReader(bytes.NewReader(sbytes))
		version, e0 := r.ReadUvarint()
		cols, e1 := r.ReadUvarint()
		nchunks, e2 := r.ReadUvarint()
		if e0 != nil || e1 != nil || e2 != nil || version != 1 {
			failures = append(failures, fmt.Sprintf("state case %d: header unreadable (version %d)", i, version))
			continue
		}
		var chunks []string
		bad := false
		for c := uint64(0); c < nchunks && !bad; c++ {
			id, e := r.ReadUvarint()
			if e != nil {
				bad = true
				break
			}
			if int(c) < len(ids) && ids[c] != id {
				failures = append(failures, fmt.Sprintf("state case %d: block %d stores commit id %d, the collection held %d when the snapshot began", i, c, id, ids[c]))
			}
			var bufs []string
			for k := uint64(0); k < cols; k++ {
				b := commit.NewBuffer(8)
				if _, e := b.ReadFrom(r); e != nil {
					bad = true
					break
				}
				bufs = append(bufs, coqWBuffer(b))
			}
			chunks = append(chunks, fmt.Sprintf("(%d, [%s])", id, strings.Join(bufs, "; ")))
		}
		if rest, _ := io.ReadAll(r); bad || len(rest) != 0 {
			failures = append(failures, fmt.Sprintf("state case %d: the real readers do not consume the state stream exactly (bad=%v, %d bytes left)", i, bad, len(rest)))
			continue
		}
		// the recorded commits
		var commits []string
		lr := bytes.NewReader(lbytes)
		for lr.Len() > 0 {
			var c commit.Commit
			if _, e := c.ReadFrom(lr); e != nil {
				bad = true
				break
			}
			commits = append(commits, coqCommit(c))
		}
		if bad {
			failures = append(failures, fmt.Sprintf("state case %d: the recorded commits are unreadable", i))
			continue
		}
		tot := len(sbytes) + len(lbytes)
		var cuts []string
		for _, k := range []int{0, 1, 2, 3, len(sbytes) / 2, len(sbytes) - 1, len(sbytes), len(sbytes) + 1, len(sbytes) + len(lbytes)/2, tot - 1, tot,
			w.rng.Intn(tot + 1), w.rng.Intn(tot + 1), w.rng.Intn(len(sbytes) + 1), len(sbytes) + w.rng.Intn(len(lbytes)+1)} {
			if k >= 0 && k <= tot {
				cuts = append(cuts, fmt.Sprintf("%d%%nat", k))
			}
		}
		total += tot
		txt := fmt.Sprintf("((%d, [%s]), [%s], %s, %s, [%s])", cols, strings.Join(chunks, "; "), strings.Join(commits, "; "), coqBytes(sbytes), coqBytes(lbytes), strings.Join(cuts, "; "))
		cs = append(cs, txt)
		if len(file) <= 4000 {
			if c := s2Case(w.rng, file, append(append([]byte(nil), sbytes...), lbytes...)); c != "" {
				s2cs = append(s2cs, c)
			} else {
				failures = append(failures, fmt.Sprintf("state case %d: the snapshot file is not a sequence of s2 chunks the harness can parse", i))
			}
		}
		if len(samples) < 1 {
			samples = append(samples, fmt.Sprintf("snapshot %d: %d buffers per block, %d blocks, %d recorded commits, state %d bytes, log %d bytes", i, cols, nchunks, len(commits), len(sbytes), len(lbytes)))
		}
	}
	per := 8
	for i := 0; i < len(cs); i += per {
		j := i + per
		if j > len(cs) {
			j = len(cs)
		}
		name := filepath.Join(out, fmt.Sprintf("state_%05d.v", i))
		txt := "From Coq Require Import NArith List.\nFrom ColumnV Require Import Wire WireCommit WireState.\nImport ListNotations.\nLocal Open Scope N_scope.\n" +
			fmt.Sprintf("Definition M := Eval vm_compute in state_mismatches %d [\n %s].\nPrint M.\n", 200000+i, strings.Join(cs[i:j], ";\n "))
		os.WriteFile(name, []byte(txt), 0o644)
		shards = append(shards, name)
	}
	for i := 0; i < len(s2cs); i += per {
		j := i + per
		if j > len(s2cs) {
			j = len(s2cs)
		}
		name := filepath.Join(out, fmt.Sprintf("s2_%05d.v", i))
		txt := "From Coq Require Import NArith List.\nFrom ColumnV Require Import Wire WireCommit WireState S2Frame.\nImport ListNotations.\nLocal Open Scope N_scope.\n" +
			fmt.Sprintf("Definition M := Eval vm_compute in s2_mismatches %d [\n %s].\nPrint M.\n", 300000+i, strings.Join(s2cs[i:j], ";\n "))
		os.WriteFile(name, []byte(txt), 0o644)
		shards = append(shards, name)
	}
	return shards, len(cs), total, failures, samples
}

// s2Case: a real snapshot file as a sequence of s2 chunks (type, body, what the real reader delivers for
// the chunk alone) and the real reader's result on prefixes (bytes delivered, 0 = clean end / 1 = error)
func s2Case(rng *Rng, file, full []byte) string {
	magic := []byte("\xff\x06\x00\x00S2sTwO")
	var table []string
	var bounds []int
	for pos := 0; pos < len(file); {
		if pos+4 > len(file) {
			return ""
		}
		l := int(file[pos+1]) | int(file[pos+2])<<8 | int(file[pos+3])<<16
		if pos+4+l > len(file) {
			return ""
		}
		ty, body := file[pos], file[pos+4:pos+4+l]
		var pl []byte
		if ty == 0 || ty == 1 {
			one := append(append([]byte(nil), magic...), file[pos:pos+4+l]...)
			var err error
			if pl, err = io.ReadAll(s2.NewReader(bytes.NewReader(one))); err != nil {
				return ""
			}
		}
		table = append(table, fmt.Sprintf("(%d, %s, %s)", ty, coqBytes(body), coqBytes(pl)))
		pos += 4 + l
		bounds = append(bounds, pos)
	}
	ks := []int{0, 1, 2, 3, 4, 5, 9, 10, 11, 12, 13, 14, len(file) - 1, len(file), rng.Intn(len(file) + 1), rng.Intn(len(file) + 1), rng.Intn(len(file) + 1)}
	for _, b := range bounds {
		ks = append(ks, b-1, b, b+1, b+3, b+4, b+5)
	}
	var cuts []string
	seen := map[int]bool{}
	for _, k := range ks {
		if k < 0 || k > len(file) || seen[k] {
			continue
		}
		seen[k] = true
		got, err := io.ReadAll(s2.NewReader(bytes.NewReader(file[:k])))
		st := 0
		if err != nil {
			st = 1
		}
		if !bytes.Equal(got, full[:len(got)]) {
			return ""
		}
		cuts = append(cuts, fmt.Sprintf("(%d%%nat, (%d%%nat, %d))", k, len(got), st))
	}
	return fmt.Sprintf("(%s, [%s], %s, [%s])", coqBytes(file), strings.Join(table, "; "), coqBytes(full), strings.Join(cuts, "; "))
}

func cmdWire(args []string) {
	fs := flag.NewFlagSet("wire", flag.ExitOnError)
	seed := fs.Uint64("seed", 1, "seed")
	n := fs.Int("n", 120, "commits")
	out := fs.String("out", "", "output directory")
	states := fs.Int("states", 0, "snapshots compared with WireState.v")
	fs.Parse(args)
	os.MkdirAll(*out, 0o755)
	rng := NewRng(*seed)
	type sum struct {
		Engine  string   `json:"engine"`
		Cases   int      `json:"cases"`
		Cuts    int      `json:"cuts"`
		Shards  []string `json:"shards"`
		Samples []string `json:"samples"`
		Bytes   int      `json:"bytes"`
		Buffers int      `json:"buffers"`
		States  int      `json:"states"`
		StateBytes int   `json:"state_bytes"`
		Failures []string `json:"failures"`
	}
	s := sum{Engine: "wire"}
	var cases []string
	for i := 0; i < *n; i++ {
		nb := 1 + rng.Intn(3)
		chunk := commit.Chunk(rng.Intn(3))
		var ups []*commit.Buffer
		var upsCoq []string
		for u := 0; u < nb; u++ {
			b := commit.NewBuffer(32)
			name := []string{"a", "row", "col_with_a_longer_name", ""}[rng.Intn(4)]
			b.Reset(name)
			for _, o := range genOps(rng.Fork(uint64(i*10+u)), 1+rng.Intn(14), false) {
				if rng.Chance(60) {
					o.off = uint32(chunk)<<14 | (o.off & 16383) // most ops in the commit's chunk
				}
				writeOp(b, o)
			}
			ups = append(ups, b)
			_, _, raw, hdrs := b.VerifState()
			var shards []string
			var payload []byte
			for h, hd := range hdrs {
				if commit.Chunk(hd.Chunk) != chunk {
					continue
				}
				end := len(raw)
				if h+1 < len(hdrs) {
					end = int(hdrs[h+1].Start)
				}
				shards = append(shards, fmt.Sprintf("(%d, %d)", hd.Value, len(payload)))
				payload = append(payload, raw[hd.Start:end]...)
			}
			upsCoq = append(upsCoq, fmt.Sprintf("(%s, ([%s], %s))", coqBytes([]byte(name)), strings.Join(shards, "; "), coqBytes(payload)))
		}
		id := rng.U64() >> uint(rng.Intn(60))
		c := commit.Commit{ID: id, Chunk: chunk, Updates: ups}
		var w bytes.Buffer
		if _, err := c.WriteTo(&w); err != nil {
			continue
		}
		data := w.Bytes()
		s.Bytes += len(data)
		var cuts []string
		for _, k := range []int{0, 1, 2, len(data) / 3, len(data) / 2, len(data) - 2, len(data) - 1, len(data), rng.Intn(len(data) + 1), rng.Intn(len(data) + 1)} {
			if k < 0 || k > len(data) {
				continue
			}
			var rc commit.Commit
			ok := func() (ok bool) {
				defer func() {
					if recover() != nil {
						ok = false
					}
				}()
				_, err := rc.ReadFrom(bytes.NewReader(data[:k]))
				return err == nil
			}()
			cuts = append(cuts, fmt.Sprintf("(%d%%nat, %v)", k, ok))
			s.Cuts++
		}
		cs := fmt.Sprintf("((%d, (%d, [%s])), %s, [%s])", chunk, id, strings.Join(upsCoq, "; "), coqBytes(data), strings.Join(cuts, "; "))
		cases = append(cases, cs)
		if len(s.Samples) < 1 && len(cs) < 900 {
			s.Samples = append(s.Samples, cs)
		}
	}
	per := 60
	for i := 0; i < len(cases); i += per {
		j := i + per
		if j > len(cases) {
			j = len(cases)
		}
		name := filepath.Join(*out, fmt.Sprintf("wire_%05d.v", i))
		txt := "From Coq Require Import NArith List.\nFrom ColumnV Require Import Wire WireCommit.\nImport ListNotations.\nLocal Open Scope N_scope.\n" +
			fmt.Sprintf("Definition M := Eval vm_compute in wire_mismatches %d [\n %s].\nPrint M.\n", i, strings.Join(cases[i:j], ";\n "))
		os.WriteFile(name, []byte(txt), 0o644)
		s.Shards = append(s.Shards, name)
	}
	// whole buffers through Buffer.WriteTo
	var bcases []string
	for i := 0; i < *n; i++ {
		b := commit.NewBuffer(32)
		name := []string{"a", "row", "x_long_column_name", ""}[rng.Intn(4)]
		b.Reset(name)
		for _, o := range genOps(rng.Fork(uint64(1000000+i)), rng.Intn(16), false) {
			writeOp(b, o)
		}
		var w bytes.Buffer
		if _, err := b.WriteTo(&w); err != nil {
			continue
		}
		last, _, raw, hdrs := b.VerifState()
		var hs []string
		for _, h := range hdrs {
			hs = append(hs, fmt.Sprintf("(%d, (%d, %d))", h.Chunk, h.Start, h.Value))
		}
		bcases = append(bcases, fmt.Sprintf("((%s, (%d, ([%s], %s))), %s)", coqBytes([]byte(name)), uint32(last), strings.Join(hs, "; "), coqBytes(raw), coqBytes(w.Bytes())))
		s.Bytes += w.Len()
	}
	for i := 0; i < len(bcases); i += per {
		j := i + per
		if j > len(bcases) {
			j = len(bcases)
		}
		name := filepath.Join(*out, fmt.Sprintf("wbuf_%05d.v", i))
		txt := "From Coq Require Import NArith List.\nFrom ColumnV Require Import Wire WireCommit.\nImport ListNotations.\nLocal Open Scope N_scope.\n" +
			fmt.Sprintf("Definition M := Eval vm_compute in wbuffer_mismatches %d [\n %s].\nPrint M.\n", 100000+i, strings.Join(bcases[i:j], ";\n "))
		os.WriteFile(name, []byte(txt), 0o644)
		s.Shards = append(s.Shards, name)
	}
	s.Buffers = len(bcases)
	s.Cases = len(cases)
	if *states > 0 {
		sh, nst, tot, fails, smp := stateCases(*seed, *states, *out)
		s.Shards = append(s.Shards, sh...)
		s.States, s.StateBytes, s.Failures = nst, tot, fails
		s.Samples = append(s.Samples, smp...)
	}
	b, _ := json.MarshalIndent(s, "", " ")
	os.WriteFile(filepath.Join(*out, "summary.json"), b, 0o644)
}
