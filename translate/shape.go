package main

// Structural facts the hand-written model relies on, re-derived from the source on every run
// (coq/GenShape.v).  Each is a boolean; coq/ShapeFacts.v proves them all true, so a change of the
// source that invalidates one breaks a named lemma.

import (
	"fmt"
	"go/ast"
	"go/parser"
	"go/printer"
	"go/token"
	"path/filepath"
	"regexp"
	"strings"
)

func callName(c *ast.CallExpr) string {
	switch f := c.Fun.(type) {
	case *ast.SelectorExpr:
		return f.Sel.Name
	case *ast.Ident:
		return f.Name
	}
	return ""
}

func findFunc(f *ast.File, name string) *ast.FuncDecl {
	for _, d := range f.Decls {
		if fd, ok := d.(*ast.FuncDecl); ok && fd.Name.Name == name {
			return fd
		}
	}
	return nil
}

// positions of the calls with the given names inside a node, in source order
func callPositions(n ast.Node, names ...string) map[string][]token.Pos {
	out := map[string][]token.Pos{}
	ast.Inspect(n, func(x ast.Node) bool {
		if c, ok := x.(*ast.CallExpr); ok {
			nm := callName(c)
			for _, want := range names {
				if nm == want {
					out[nm] = append(out[nm], c.Pos())
				}
			}
		}
		return true
	})
	return out
}

func genShape(repo, out string) error {
	fset := token.NewFileSet()
	facts := map[string]bool{}
	notes := map[string]string{}

	// 1. txn.go commit(): inside the rangeWrite callback, updates are applied before markers, and both
	//    Append calls (recorder, logger) come after them, still inside the callback
	if f, err := parser.ParseFile(fset, filepath.Join(repo, "txn.go"), nil, 0); err == nil {
		if fd := findFunc(f, "commit"); fd != nil {
			var lit *ast.FuncLit
			ast.Inspect(fd.Body, func(x ast.Node) bool {
				if c, ok := x.(*ast.CallExpr); ok && callName(c) == "rangeWrite" && len(c.Args) == 1 {
					lit, _ = c.Args[0].(*ast.FuncLit)
				}
				return true
			})
			if lit != nil {
				p := callPositions(lit.Body, "commitUpdates", "commitMarkers", "Append")
				u, m, a := p["commitUpdates"], p["commitMarkers"], p["Append"]
				facts["updates_before_markers"] = len(u) == 1 && len(m) == 1 && u[0] < m[0]
				ok := len(a) == 2 && len(m) == 1
				for _, x := range a {
					ok = ok && len(m) == 1 && x > m[0]
				}
				facts["appends_after_apply_inside_latch"] = ok
			}
		}
	} else {
		return err
	}
	// 2. txn_lock.go rangeWrite(): the commit id is drawn between Lock and Unlock of the block latch
	if f, err := parser.ParseFile(fset, filepath.Join(repo, "txn_lock.go"), nil, 0); err == nil {
		if fd := findFunc(f, "rangeWrite"); fd != nil {
			p := callPositions(fd.Body, "Lock", "Unlock", "Next", "fn")
			l, u, n, cb := p["Lock"], p["Unlock"], p["Next"], p["fn"]
			// ... by a statement of the callback's own statement list (not under a condition: every
			// block's commit draws its own id)
			direct := false
			ast.Inspect(fd.Body, func(x ast.Node) bool {
				if lit, ok := x.(*ast.FuncLit); ok {
					for _, st := range lit.Body.List {
						if as, ok := st.(*ast.AssignStmt); ok && len(as.Rhs) == 1 {
							if c, ok := as.Rhs[0].(*ast.CallExpr); ok && callName(c) == "Next" {
								direct = true
							}
						}
					}
				}
				return true
			})
			facts["id_drawn_under_latch"] = len(l) == 1 && len(u) == 1 && len(n) == 1 && l[0] < n[0] && n[0] < u[0] && direct
			facts["callback_under_latch"] = len(l) == 1 && len(u) == 1 && len(cb) == 1 && l[0] < cb[0] && cb[0] < u[0]
		}
	} else {
		return err
	}
	// 3. column_numbers.go: the ten generated Apply loops are the same code up to the type name
	if f, err := parser.ParseFile(fset, filepath.Join(repo, "column_numbers.go"), nil, 0); err == nil {
		re := regexp.MustCompile(`(Swap|r\.)(Int16|Int32|Int64|Int|Uint16|Uint32|Uint64|Uint|Float32|Float64)\b`)
		tyre := regexp.MustCompile(`\b(int16|int32|int64|int|uint16|uint32|uint64|uint|float32|float64)\b`)
		bodies := map[string]int{}
		count := 0
		for _, d := range f.Decls {
			fd, ok := d.(*ast.FuncDecl)
			if !ok || !strings.HasPrefix(fd.Name.Name, "make") {
				continue
			}
			ast.Inspect(fd.Body, func(x ast.Node) bool {
				c, ok := x.(*ast.CallExpr)
				if !ok || callName(c) != "makeNumeric" || len(c.Args) < 2 {
					return true
				}
				if lit, ok := c.Args[1].(*ast.FuncLit); ok {
					var sb strings.Builder
					printer.Fprint(&sb, fset, lit.Body)
					txt := tyre.ReplaceAllString(re.ReplaceAllString(sb.String(), "${1}T"), "T")
					bodies[txt]++
					count++
				}
				return true
			})
		}
		facts["numeric_apply_loops_identical"] = count == 10 && len(bodies) == 1
		notes["numeric_apply_loops"] = fmt.Sprintf("%d loops, %d distinct bodies after erasing the type name", count, len(bodies))
	} else {
		return err
	}
	// 4. every lock acquired in the two packages is released on every path out of its region
	{
		var files []*ast.File
		for _, dir := range []string{repo, filepath.Join(repo, "commit")} {
			fs, err := parseNonTest(fset, dir)
			if err != nil {
				return err
			}
			files = append(files, fs...)
		}
		ok, off := lockBalance(fset, files)
		facts["locks_released_on_every_path"] = ok
		for i, o := range off {
			notes[fmt.Sprintf("lock_offender_%d", i)] = strings.ReplaceAll(o, repo, "")
		}
	}
	var b strings.Builder
	b.WriteString("(* GENERATED by /verif/translate from /repo on every run. Do not edit. *)\n")
	for _, k := range []string{"updates_before_markers", "appends_after_apply_inside_latch", "id_drawn_under_latch", "callback_under_latch", "numeric_apply_loops_identical", "locks_released_on_every_path"} {
		fmt.Fprintf(&b, "Definition shape_%s : bool := %v.\n", k, facts[k])
	}
	for k, v := range notes {
		fmt.Fprintf(&b, "(* %s: %s *)\n", k, v)
	}
	return writeIfChanged(out, b.String())
}

// ---------------------------------------------------------------------------------------
// lock balance: every Lock / RLock statement is followed, in the same statement list, by the
// matching Unlock / RUnlock (or its defer) with no way out of the region in between (return, goto,
// panic, or a break / continue that leaves the region).  Path-insensitive and syntactic; what it
// cannot match (a release in another function, in another branch) is reported as an offender too.

func exprText(fset *token.FileSet, e ast.Expr) string {
	var sb strings.Builder
	printer.Fprint(&sb, fset, e)
	return sb.String()
}

// lockCall: (receiver text + args, "Lock"|"RLock"|"Unlock"|"RUnlock") of a call expression
func lockCall(fset *token.FileSet, e ast.Expr) (string, string) {
	c, ok := e.(*ast.CallExpr)
	if !ok {
		return "", ""
	}
	sel, ok := c.Fun.(*ast.SelectorExpr)
	if !ok {
		return "", ""
	}
	switch sel.Sel.Name {
	case "Lock", "RLock", "Unlock", "RUnlock":
		var args []string
		for _, a := range c.Args {
			args = append(args, exprText(fset, a))
		}
		return exprText(fset, sel.X) + "(" + strings.Join(args, ",") + ")", sel.Sel.Name
	}
	return "", ""
}

// escapes: does the statement contain a way out of the enclosing region?
func escapes(st ast.Stmt, loopDepth, breakDepth int) bool {
	found := false
	var walk func(n ast.Node, ld, bd int)
	walk = func(n ast.Node, ld, bd int) {
		if n == nil || found {
			return
		}
		switch x := n.(type) {
		case *ast.FuncLit:
			return
		case *ast.ReturnStmt:
			found = true
			return
		case *ast.BranchStmt:
			switch x.Tok {
			case token.GOTO:
				found = true
			case token.CONTINUE:
				if ld == 0 || x.Label != nil {
					found = true
				}
			case token.BREAK:
				if bd == 0 || x.Label != nil {
					found = true
				}
			}
			return
		case *ast.ExprStmt:
			if c, ok := x.X.(*ast.CallExpr); ok {
				if id, ok := c.Fun.(*ast.Ident); ok && id.Name == "panic" {
					found = true
					return
				}
			}
		case *ast.ForStmt:
			walk(x.Body, ld+1, bd+1)
			return
		case *ast.RangeStmt:
			walk(x.Body, ld+1, bd+1)
			return
		case *ast.SwitchStmt:
			walk(x.Body, ld, bd+1)
			return
		case *ast.TypeSwitchStmt:
			walk(x.Body, ld, bd+1)
			return
		case *ast.SelectStmt:
			walk(x.Body, ld, bd+1)
			return
		}
		ast.Inspect(n, func(c ast.Node) bool {
			if c == n || c == nil {
				return true
			}
			walk(c, ld, bd)
			return false
		})
	}
	walk(st, loopDepth, breakDepth)
	return found
}

func lockBalance(fset *token.FileSet, files []*ast.File) (bool, []string) {
	var offenders []string
	release := map[string]string{"Lock": "Unlock", "RLock": "RUnlock"}
	checkList := func(list []ast.Stmt, where string) {
		for i, st := range list {
			es, ok := st.(*ast.ExprStmt)
			if !ok {
				continue
			}
			recv, m := lockCall(fset, es.X)
			rel, isAcq := release[m]
			if !isAcq {
				continue
			}
			matched := false
			for j := i + 1; j < len(list) && !matched; j++ {
				var r2, m2 string
				switch y := list[j].(type) {
				case *ast.ExprStmt:
					r2, m2 = lockCall(fset, y.X)
				case *ast.DeferStmt:
					r2, m2 = lockCall(fset, y.Call)
				}
				if r2 == recv && m2 == rel {
					matched = true
					break
				}
				if escapes(list[j], 0, 0) {
					break
				}
			}
			if !matched {
				offenders = append(offenders, fmt.Sprintf("%s: %s.%s at %s", where, recv, m, fset.Position(st.Pos())))
			}
		}
	}
	for _, f := range files {
		for _, d := range f.Decls {
			fd, ok := d.(*ast.FuncDecl)
			if !ok || fd.Body == nil {
				continue
			}
			ast.Inspect(fd.Body, func(n ast.Node) bool {
				switch x := n.(type) {
				case *ast.BlockStmt:
					checkList(x.List, fd.Name.Name)
				case *ast.CaseClause:
					checkList(x.Body, fd.Name.Name)
				case *ast.CommClause:
					checkList(x.Body, fd.Name.Name)
				}
				return true
			})
		}
	}
	return len(offenders) == 0, offenders
}

func parseNonTest(fset *token.FileSet, dir string) ([]*ast.File, error) {
	names, err := filepath.Glob(filepath.Join(dir, "*.go"))
	if err != nil {
		return nil, err
	}
	var out []*ast.File
	for _, n := range names {
		if strings.HasSuffix(n, "_test.go") || strings.HasPrefix(filepath.Base(n), "verif_") {
			continue
		}
		f, err := parser.ParseFile(fset, n, nil, 0)
		if err != nil {
			return nil, err
		}
		out = append(out, f)
	}
	return out, nil
}
