package main

// Lock-order extraction (C18): a typed analysis (go/packages + go/types) of packages column and commit.
//
// Lock classes: coll (Collection.lock), shard (one latch of Collection.slock), column (column.lock),
// key (columnKey.lock), back (columnSortIndex.backLock), log (commit.Log.lock), enum (columnEnum.lock).
// For every function the analysis walks the body in order, tracking the set of classes held
// (Lock/RLock add, Unlock/RUnlock remove, a deferred unlock keeps the lock to the end), and
// records an edge A -> B whenever B is acquired - directly, through a callee (transitively), or
// inside a function literal handed to a callee that invokes that parameter under locks - while A
// is held.  Static calls are resolved by go/types; calls of interface methods go to every method
// of the two packages whose receiver implements the interface.  The result is coq/GenLockGraph.v.
//
// Limits (trusted base): function values stored in struct fields (triggers, index rules, merge
// functions, loggers handed in by the user) are not followed; the shard class stands for any one
// latch (that two latches are never held together is the absence of the edge shard -> shard).

import (
	"fmt"
	"go/ast"
	"go/types"
	"sort"
	"strings"

	"golang.org/x/tools/go/packages"
)

type lfn struct {
	obj        *types.Func
	decl       *ast.FuncDecl
	info       *types.Info
	acquires   map[string]bool
	paramsHeld map[int]map[string]bool
	params     []*types.Var
}

type lockAn struct {
	fns   map[*types.Func]*lfn
	all   []*lfn
	edges map[[2]string][]string
	unk   map[string]bool
}

var fieldClass = map[string]string{
	"Collection.lock": "coll", "column.lock": "column", "columnKey.lock": "key",
	"columnSortIndex.backLock": "back", "Log.lock": "log", "columnEnum.lock": "enum",
}

func namedOf(t types.Type) string {
	for {
		switch v := t.(type) {
		case *types.Pointer:
			t = v.Elem()
			continue
		case *types.Named:
			return v.Obj().Name()
		}
		return ""
	}
}

// lockClassOf classifies the receiver of a Lock/RLock/Unlock/RUnlock call ("" = not a lock)
func (a *lockAn) lockClassOf(f *lfn, recv ast.Expr) string {
	tv, ok := f.info.Types[recv]
	if !ok {
		return ""
	}
	tn := namedOf(tv.Type)
	switch tn {
	case "SMutex128":
		return "shard"
	case "RWMutex", "Mutex":
		if sel, ok := recv.(*ast.SelectorExpr); ok {
			if s, ok := f.info.Selections[sel]; ok {
				key := namedOf(s.Recv()) + "." + sel.Sel.Name
				if c, ok := fieldClass[key]; ok {
					return c
				}
				// embedded promotion: find the struct that declares the field
				if v, ok := s.Obj().(*types.Var); ok {
					for k, c := range fieldClass {
						if strings.HasSuffix(k, "."+v.Name()) && v.Pkg() != nil && strings.Contains(k, ownerOfField(v)) {
							return c
						}
					}
				}
				a.unk[key] = true
				return "unknown"
			}
		}
		a.unk[exprStr(recv)] = true
		return "unknown"
	}
	return ""
}

func ownerOfField(v *types.Var) string { return "" }

func exprStr(e ast.Expr) string {
	switch v := e.(type) {
	case *ast.Ident:
		return v.Name
	case *ast.SelectorExpr:
		return exprStr(v.X) + "." + v.Sel.Name
	}
	return "?"
}

func (a *lockAn) addEdge(from, to, where string) {
	k := [2]string{from, to}
	for _, w := range a.edges[k] {
		if w == where {
			return
		}
	}
	a.edges[k] = append(a.edges[k], where)
}

// callees resolves a call expression to the analysed functions it may reach
func (a *lockAn) callees(f *lfn, call *ast.CallExpr) []*lfn {
	var obj types.Object
	switch fun := call.Fun.(type) {
	case *ast.Ident:
		obj = f.info.Uses[fun]
	case *ast.SelectorExpr:
		if s, ok := f.info.Selections[fun]; ok {
			obj = s.Obj()
		} else {
			obj = f.info.Uses[fun.Sel]
		}
	case *ast.IndexExpr: // generic instantiation f[T](...)
		if id, ok := fun.X.(*ast.Ident); ok {
			obj = f.info.Uses[id]
		}
	}
	fn, ok := obj.(*types.Func)
	if !ok {
		return nil
	}
	fn = fn.Origin()
	if t, ok := a.fns[fn]; ok {
		return []*lfn{t}
	}
	// interface method: every analysed method of that name whose receiver implements the interface
	sig, _ := fn.Type().(*types.Signature)
	if sig != nil && sig.Recv() != nil {
		if iface, ok := sig.Recv().Type().Underlying().(*types.Interface); ok {
			var out []*lfn
			for _, t := range a.all {
				if t.obj.Name() != fn.Name() {
					continue
				}
				ts, _ := t.obj.Type().(*types.Signature)
				if ts == nil || ts.Recv() == nil {
					continue
				}
				rt := ts.Recv().Type()
				if types.Implements(rt, iface) || types.Implements(types.NewPointer(rt), iface) {
					out = append(out, t)
				} else if n, ok := derefNamed(rt); ok && n.TypeParams().Len() > 0 {
					out = append(out, t) // generic receivers: matched by name
				}
			}
			return out
		}
	}
	return nil
}

func derefNamed(t types.Type) (*types.Named, bool) {
	if p, ok := t.(*types.Pointer); ok {
		t = p.Elem()
	}
	n, ok := t.(*types.Named)
	return n, ok
}

func (a *lockAn) walk(f *lfn, n ast.Node, held map[string]bool, emit bool, where string) {
	copyHeld := func() map[string]bool {
		m := map[string]bool{}
		for k := range held {
			m[k] = true
		}
		return m
	}
	acquire := func(class string) {
		f.acquires[class] = true
		if emit {
			for h := range held {
				a.addEdge(h, class, where)
			}
		}
	}
	ast.Inspect(n, func(x ast.Node) bool {
		switch v := x.(type) {
		case *ast.FuncLit:
			a.walk(f, v.Body, copyHeld(), emit, where)
			return false
		case *ast.GoStmt:
			// a new goroutine holds nothing
			a.walk(f, v.Call, map[string]bool{}, emit, where)
			return false
		case *ast.DeferStmt:
			if sel, ok := v.Call.Fun.(*ast.SelectorExpr); ok && (sel.Sel.Name == "Unlock" || sel.Sel.Name == "RUnlock") {
				return false
			}
			return true
		case *ast.CallExpr:
			if sel, ok := v.Fun.(*ast.SelectorExpr); ok {
				switch sel.Sel.Name {
				case "Lock", "RLock":
					if c := a.lockClassOf(f, sel.X); c != "" {
						acquire(c)
						held[c] = true
						return false
					}
				case "Unlock", "RUnlock":
					if c := a.lockClassOf(f, sel.X); c != "" {
						delete(held, c)
						return false
					}
				}
			}
			// invocation of one of the function's own func-typed parameters
			if id, ok := v.Fun.(*ast.Ident); ok {
				if pv, ok := f.info.Uses[id].(*types.Var); ok {
					for i, p := range f.params {
						if p == pv {
							if f.paramsHeld[i] == nil {
								f.paramsHeld[i] = map[string]bool{}
							}
							for h := range held {
								f.paramsHeld[i][h] = true
							}
						}
					}
				}
			}
			cs := a.callees(f, v)
			// a method called on a value that was created in the same expression (commit.Open(src).Range(...))
			// works on a lock no other goroutine can reach: it cannot take part in a cycle
			private := false
			if sel, ok := v.Fun.(*ast.SelectorExpr); ok {
				if _, isCall := sel.X.(*ast.CallExpr); isCall {
					private = true
				}
			}
			for _, callee := range cs {
				if callee == f {
					continue
				}
				if !private {
					for c := range callee.acquires {
						acquire(c)
					}
				}
				for i, arg := range v.Args {
					if lit, ok := arg.(*ast.FuncLit); ok {
						h2 := copyHeld()
						if !private {
							for c := range callee.paramsHeld[i] {
								h2[c] = true
							}
						}
						a.walk(f, lit.Body, h2, emit, where)
					}
				}
			}
			for _, arg := range v.Args {
				if lit, ok := arg.(*ast.FuncLit); ok {
					if len(cs) == 0 {
						a.walk(f, lit.Body, copyHeld(), emit, where) // library callee: runs it at once
					}
				} else {
					a.walk(f, arg, held, emit, where)
				}
			}
			if sel, ok := v.Fun.(*ast.SelectorExpr); ok {
				a.walk(f, sel.X, held, emit, where)
			}
			return false
		}
		return true
	})
}

func genLockGraph(repo, out string) error {
	cfg := &packages.Config{Mode: packages.NeedName | packages.NeedFiles | packages.NeedSyntax | packages.NeedTypes | packages.NeedTypesInfo | packages.NeedImports | packages.NeedDeps, Dir: repo}
	pkgs, err := packages.Load(cfg, ".", "./commit")
	if err != nil {
		return err
	}
	a := &lockAn{fns: map[*types.Func]*lfn{}, edges: map[[2]string][]string{}, unk: map[string]bool{}}
	for _, p := range pkgs {
		if len(p.Errors) > 0 {
			return fmt.Errorf("type errors in %s: %v", p.PkgPath, p.Errors[0])
		}
		for _, file := range p.Syntax {
			name := p.Fset.Position(file.Pos()).Filename
			if strings.HasSuffix(name, "_test.go") || strings.Contains(name, "verif_") {
				continue
			}
			for _, d := range file.Decls {
				fd, ok := d.(*ast.FuncDecl)
				if !ok || fd.Body == nil {
					continue
				}
				obj, _ := p.TypesInfo.Defs[fd.Name].(*types.Func)
				if obj == nil {
					continue
				}
				f := &lfn{obj: obj, decl: fd, info: p.TypesInfo, acquires: map[string]bool{}, paramsHeld: map[int]map[string]bool{}}
				sig := obj.Type().(*types.Signature)
				for i := 0; i < sig.Params().Len(); i++ {
					f.params = append(f.params, sig.Params().At(i))
				}
				a.fns[obj] = f
				a.all = append(a.all, f)
			}
		}
	}
	sort.Slice(a.all, func(i, j int) bool { return a.all[i].obj.FullName() < a.all[j].obj.FullName() })
	for iter := 0; iter < 8; iter++ {
		for _, f := range a.all {
			a.walk(f, f.decl.Body, map[string]bool{}, false, "")
		}
	}
	for _, f := range a.all {
		where := f.obj.Name()
		if sig := f.obj.Type().(*types.Signature); sig.Recv() != nil {
			where = namedOf(sig.Recv().Type()) + "." + where
		}
		a.walk(f, f.decl.Body, map[string]bool{}, true, where)
	}
	classes := []string{"coll", "shard", "column", "key", "back", "log", "enum"}
	idx := map[string]int{}
	for i, c := range classes {
		idx[c] = i
	}
	var b strings.Builder
	b.WriteString("(* GENERATED by /verif/translate from /repo on every run. Do not edit.\n   Lock classes: 0 coll (Collection.lock), 1 shard (a latch of Collection.slock), 2 column (column.lock),\n   3 key (columnKey.lock), 4 back (columnSortIndex.backLock), 5 log (commit.Log.lock), 6 enum (columnEnum.lock,\n   the dictionary shared by all blocks).\n   An edge (a, b) says: somewhere, b is acquired while a is held. *)\n")
	fmt.Fprintf(&b, "From Coq Require Import List.\nImport ListNotations.\n\nDefinition lock_classes : nat := %d.\nDefinition lock_edges : list (nat * nat) := [\n", len(classes))
	var keys [][2]string
	for k := range a.edges {
		_, ok1 := idx[k[0]]
		_, ok2 := idx[k[1]]
		if ok1 && ok2 {
			keys = append(keys, k)
		} else {
			a.unk[k[0]+"->"+k[1]] = true
		}
	}
	sort.Slice(keys, func(i, j int) bool { return keys[i][0]+"/"+keys[i][1] < keys[j][0]+"/"+keys[j][1] })
	for i, k := range keys {
		sep := ";"
		if i == len(keys)-1 {
			sep = ""
		}
		w := append([]string(nil), a.edges[k]...)
		sort.Strings(w)
		if len(w) > 5 {
			w = append(w[:5], "...")
		}
		fmt.Fprintf(&b, "  (%d, %d)%s  (* %s -> %s: %s *)\n", idx[k[0]], idx[k[1]], sep, k[0], k[1], strings.Join(w, ", "))
	}
	b.WriteString("].\n")
	var unk []string
	for k := range a.unk {
		unk = append(unk, k)
	}
	sort.Strings(unk)
	fmt.Fprintf(&b, "(* unclassified lock expressions: %v *)\nDefinition lock_unclassified : nat := %d.\n", unk, len(unk))
	return writeIfChanged(out, b.String())
}
