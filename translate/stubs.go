package main

func genLockGraph(repo, out string) error { return nil }
func genShape(repo, out string) error     { return nil }
