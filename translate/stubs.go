package main

func genShape(repo, out string) error     { return nil }
