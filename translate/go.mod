module verif/translate

go 1.19
