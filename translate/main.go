package main

import (
	"fmt"
	"os"
	"path/filepath"
)

// usage: translate <repo> <coq dir>
func main() {
	if len(os.Args) < 3 {
		fmt.Fprintln(os.Stderr, "usage: translate <repo> <coqdir>")
		os.Exit(2)
	}
	repo, out := os.Args[1], os.Args[2]
	if err := genConsts(repo, filepath.Join(out, "GenConsts.v")); err != nil {
		fmt.Fprintln(os.Stderr, "translate: consts:", err)
		os.Exit(1)
	}
	if err := genLockGraph(repo, filepath.Join(out, "GenLockGraph.v")); err != nil {
		fmt.Fprintln(os.Stderr, "translate: lockgraph:", err)
		os.Exit(1)
	}
	if err := genShape(repo, filepath.Join(out, "GenShape.v")); err != nil {
		fmt.Fprintln(os.Stderr, "translate: shape:", err)
		os.Exit(1)
	}
}
