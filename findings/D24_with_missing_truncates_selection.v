(* D24_with_missing_truncates_selection: profile=filter seed=2 case=33; recorded on repo tree 071c10e0a1975503
   first disagreement at step 19: [('RES', 3), ('VALS', 63), ('IDX', 63), ('COUNT', 17), ('EMIT', 1)] *)
From stdpp Require Import gmap.
From ColumnV Require Import Bytes Store Check.
Local Open Scope N_scope.
Definition history : list step :=
  [StCol 99 (col_num 64 merge_add) false;
  StCol 1 (col_str merge_replace) false;
  StCol 2 (col_num 16 merge_add) false;
  StCol 3 (col_str merge_concat) false;
  StCol 4 col_plain false;
  StIndex 5 2 (PUnsigned CEq 93);
  StIndex 6 1 (PLenGt 0);
  StSorted 7 4;
  StSeed (mkcrec 0 0 [mkop KInsert 0 V0; mkop KInsert 1 V0; mkop KInsert 63 V0; mkop KInsert 64 V0; mkop KInsert 127 V0; mkop KInsert 8191 V0; mkop KInsert 16383 V0] [(1, [mkop KPut 1 (VB [255;254]); mkop KPut 64 (VB [120]); mkop KPut 8191 (VB [104;101;108;108;111])]); (2, [mkop KPut 0 (V2 32767); mkop KPut 1 (V2 0); mkop KPut 63 (V2 0); mkop KPut 127 (V2 46); mkop KPut 16383 (V2 0)]); (3, [mkop KPut 0 (VB []); mkop KPut 1 (VB [97]); mkop KPut 63 (VB [120]); mkop KPut 127 (VB [97;98;99]); mkop KPut 16383 (VB [98])]); (4, [mkop KPut 0 (VB [97]); mkop KPut 63 (VB []); mkop KPut 64 (VB [98]); mkop KPut 127 (VB [107;57;56;55;48]); mkop KPut 8191 (VB [114;101;100])])]);
  StTxn [] true
    (mkobs []
      [(0, Some ([(2, (V2 32767)); (3, (VB [])); (4, (VB [97]))], [])); (1, Some ([(1, (VB [255;254])); (2, (V2 0)); (3, (VB [97]))], [6])); (63, Some ([(2, (V2 0)); (3, (VB [120])); (4, (VB []))], [])); (64, Some ([(1, (VB [120])); (4, (VB [98]))], [6])); (127, Some ([(2, (V2 46)); (3, (VB [97;98;99])); (4, (VB [107;57;56;55;48]))], [])); (8191, Some ([(1, (VB [104;101;108;108;111])); (4, (VB [114;101;100]))], [6])); (16383, Some ([(2, (V2 0)); (3, (VB [98]))], []))] 7 []
      []
      [mkcrec 0 0 [mkop KInsert 0 V0; mkop KInsert 1 V0; mkop KInsert 63 V0; mkop KInsert 64 V0; mkop KInsert 127 V0; mkop KInsert 8191 V0; mkop KInsert 16383 V0] [(1, [mkop KPut 1 (VB [255;254]); mkop KPut 64 (VB [120]); mkop KPut 8191 (VB [104;101;108;108;111])]); (2, [mkop KPut 0 (V2 32767); mkop KPut 1 (V2 0); mkop KPut 63 (V2 0); mkop KPut 127 (V2 46); mkop KPut 16383 (V2 0)]); (3, [mkop KPut 0 (VB []); mkop KPut 1 (VB [97]); mkop KPut 63 (VB [120]); mkop KPut 127 (VB [97;98;99]); mkop KPut 16383 (VB [98])]); (4, [mkop KPut 0 (VB [97]); mkop KPut 63 (VB []); mkop KPut 64 (VB [98]); mkop KPut 127 (VB [107;57;56;55;48]); mkop KPut 8191 (VB [114;101;100])])]]);
  StSeed (mkcrec 0 1 [mkop KInsert 16384 V0; mkop KInsert 16448 V0; mkop KInsert 16512 V0; mkop KInsert 32766 V0] [(1, [mkop KPut 16384 (VB [97]); mkop KPut 16448 (VB [104;101;108;108;111])]); (2, [mkop KPut 16384 (V2 19); mkop KPut 16448 (V2 32767); mkop KPut 16512 (V2 32767)]); (3, [mkop KPut 16448 (VB [98])]); (4, [mkop KPut 16384 (VB [114;101;100]); mkop KPut 16448 (VB [114;101;100]); mkop KPut 16512 (VB [98;108;117;101])])]);
  StTxn [] true
    (mkobs []
      [(16384, Some ([(1, (VB [97])); (2, (V2 19)); (4, (VB [114;101;100]))], [6])); (16448, Some ([(1, (VB [104;101;108;108;111])); (2, (V2 32767)); (3, (VB [98])); (4, (VB [114;101;100]))], [6])); (16512, Some ([(2, (V2 32767)); (4, (VB [98;108;117;101]))], [])); (32766, Some ([], []))] 11 []
      []
      [mkcrec 0 1 [mkop KInsert 16384 V0; mkop KInsert 16448 V0; mkop KInsert 16512 V0; mkop KInsert 32766 V0] [(1, [mkop KPut 16384 (VB [97]); mkop KPut 16448 (VB [104;101;108;108;111])]); (2, [mkop KPut 16384 (V2 19); mkop KPut 16448 (V2 32767); mkop KPut 16512 (V2 32767)]); (3, [mkop KPut 16448 (VB [98])]); (4, [mkop KPut 16384 (VB [114;101;100]); mkop KPut 16448 (VB [114;101;100]); mkop KPut 16512 (VB [98;108;117;101])])]]);
  StTxn [STerm (TSum 2);
      SAt 16512 [WMerge 3 (VB [255;254]); WMerge 2 (V2 56)];
      SInsert 2 [WPut 3 (VB [104;101;108;108;111]); WMerge 2 (V2 36); WMerge 2 (V2 85)] false;
      STerm (TRange [] false);
      SDelete 64;
      SInsert 3 [WMerge 3 (VB [122;122]); WPut 2 (V2 32768)] false;
      SAt 16383 [WMerge 1 (VB [97;98]); WPut 4 (VB [98])];
      SDelete 32766] true
    (mkobs [RNum 32830 true; RNone; RIns 2 false true; RList [0; 1; 63; 64; 127; 8191; 16383; 16384; 16448; 16512; 32766]; RBool true; RIns 3 false true; RNone; RBool true]
      [(2, Some ([(2, (V2 121)); (3, (VB [104;101;108;108;111]))], [])); (3, Some ([(2, (V2 32768)); (3, (VB [122;122]))], [])); (64, None); (16383, Some ([(1, (VB [97;98])); (2, (V2 0)); (3, (VB [98])); (4, (VB [98]))], [6])); (16512, Some ([(2, (V2 32823)); (3, (VB [255;254])); (4, (VB [98;108;117;101]))], [])); (32766, None)] 11 []
      []
      [mkcrec 0 0 [mkop KInsert 2 V0; mkop KDelete 64 V0; mkop KInsert 3 V0] [(1, [mkop KPut 16383 (VB [97;98])]); (2, [mkop KPut 2 (V2 36); mkop KPut 2 (V2 121); mkop KPut 3 (V2 32768)]); (3, [mkop KPut 2 (VB [104;101;108;108;111]); mkop KPut 3 (VB [122;122])]); (4, [mkop KPut 16383 (VB [98])])];
       mkcrec 0 1 [mkop KDelete 32766 V0] [(2, [mkop KPut 16512 (V2 32823)]); (3, [mkop KPut 16512 (VB [255;254])])]]);
  StTxn [SAt 8191 [WPut 4 (VB [107;57;56;55;48])]] true
    (mkobs [RNone]
      [(8191, Some ([(1, (VB [104;101;108;108;111])); (4, (VB [107;57;56;55;48]))], [6]))] 11 []
      []
      [mkcrec 0 0 [] [(4, [mkop KPut 8191 (VB [107;57;56;55;48])])]]);
  StTxn [SInsert 4 [] false;
      SInsert 5 [WPut 3 (VB [104;101;108;108;111]); WPut 1 (VB [0])] false;
      SAt 16448 [WPut 4 (VB [103;114;101;101;110]); WPut 4 (VB [122;122;122;122;122;122;122;122;122;122;122;122;122;122;122;122;122;122;122;122;122;122;122;122])];
      SAt 3 [WMerge 1 (VB [0]); WPut 4 (VB [122;122;122;122;122;122;122;122;122;122;122;122;122;122;122;122;122;122;122;122;122;122;122;122])];
      SInsert 6 [WMerge 1 (VB [0]); WMerge 3 (VB [98])] false;
      SDelete 16512;
      SInsert 7 [WPut 2 (V2 67)] false;
      SInsert 8 [WPut 1 (VB [97;98;99]); WMerge 2 (V2 35); WPut 2 (V2 59)] false;
      SInsert 9 [] false] true
    (mkobs [RIns 4 false true; RIns 5 false true; RNone; RNone; RIns 6 false true; RBool true; RIns 7 false true; RIns 8 false true; RIns 9 false true]
      [(3, Some ([(1, (VB [0])); (2, (V2 32768)); (3, (VB [122;122])); (4, (VB [122;122;122;122;122;122;122;122;122;122;122;122;122;122;122;122;122;122;122;122;122;122;122;122]))], [6])); (4, Some ([], [])); (5, Some ([(1, (VB [0])); (3, (VB [104;101;108;108;111]))], [6])); (6, Some ([(1, (VB [0])); (3, (VB [98]))], [6])); (7, Some ([(2, (V2 67))], [])); (8, Some ([(1, (VB [97;98;99])); (2, (V2 59))], [6])); (9, Some ([], [])); (16448, Some ([(1, (VB [104;101;108;108;111])); (2, (V2 32767)); (3, (VB [98])); (4, (VB [122;122;122;122;122;122;122;122;122;122;122;122;122;122;122;122;122;122;122;122;122;122;122;122]))], [6])); (16512, None)] 16 []
      []
      [mkcrec 0 0 [mkop KInsert 4 V0; mkop KInsert 5 V0; mkop KInsert 6 V0; mkop KInsert 7 V0; mkop KInsert 8 V0; mkop KInsert 9 V0] [(1, [mkop KPut 5 (VB [0]); mkop KPut 3 (VB [0]); mkop KPut 6 (VB [0]); mkop KPut 8 (VB [97;98;99])]); (2, [mkop KPut 7 (V2 67); mkop KPut 8 (V2 35); mkop KPut 8 (V2 59)]); (3, [mkop KPut 5 (VB [104;101;108;108;111]); mkop KPut 6 (VB [98])]); (4, [mkop KPut 3 (VB [122;122;122;122;122;122;122;122;122;122;122;122;122;122;122;122;122;122;122;122;122;122;122;122])])];
       mkcrec 0 1 [mkop KDelete 16512 V0] [(4, [mkop KPut 16448 (VB [103;114;101;101;110]); mkop KPut 16448 (VB [122;122;122;122;122;122;122;122;122;122;122;122;122;122;122;122;122;122;122;122;122;122;122;122])])]]);
  StTxn [SFilter (FWith 6)] true
    (mkobs [RNone]
      [] 16 []
      []
      []);
  StDrop 6;
  StTxn [SFilter (FWith 4);
      SDelete 4;
      STerm (TSum 2);
      SDelete 7055;
      SInsert 10 [] false;
      STerm TCount;
      SAt 4 [WMerge 2 (V2 65535)]] true
    (mkobs [RNone; RBool false; RNum 32831 true; RBool false; RIns 10 false true; RCount 8; RNone]
      [(1, Some ([(1, (VB [255;254])); (2, (V2 0)); (3, (VB [97]))], [])); (3, Some ([(1, (VB [0])); (2, (V2 32768)); (3, (VB [122;122])); (4, (VB [122;122;122;122;122;122;122;122;122;122;122;122;122;122;122;122;122;122;122;122;122;122;122;122]))], [])); (4, Some ([(2, (V2 65535))], [])); (5, Some ([(1, (VB [0])); (3, (VB [104;101;108;108;111]))], [])); (6, Some ([(1, (VB [0])); (3, (VB [98]))], [])); (8, Some ([(1, (VB [97;98;99])); (2, (V2 59))], [])); (10, Some ([], [])); (8191, Some ([(1, (VB [104;101;108;108;111])); (4, (VB [107;57;56;55;48]))], [])); (16383, Some ([(1, (VB [97;98])); (2, (V2 0)); (3, (VB [98])); (4, (VB [98]))], [])); (16384, Some ([(1, (VB [97])); (2, (V2 19)); (4, (VB [114;101;100]))], [])); (16448, Some ([(1, (VB [104;101;108;108;111])); (2, (V2 32767)); (3, (VB [98])); (4, (VB [122;122;122;122;122;122;122;122;122;122;122;122;122;122;122;122;122;122;122;122;122;122;122;122]))], []))] 17 []
      []
      [mkcrec 0 0 [mkop KInsert 10 V0] [(2, [mkop KPut 4 (V2 65535)])]]);
  StTxn [SDelete 2;
      SDelete 16448] true
    (mkobs [RBool true; RBool true]
      [(2, None); (16448, None)] 15 []
      []
      [mkcrec 0 0 [mkop KDelete 2 V0] [];
       mkcrec 0 1 [mkop KDelete 16448 V0] []]);
  StTxn [SFilter (FWith 9999);
      SInsert 2 [WMerge 3 (VB [120])] false;
      SFilter (FWithUnion [4]);
      SDelete 63;
      SFilter (FWithUnion [9999; 9999]);
      SInsert 11 [] false;
      SInsert 12 [WMerge 1 (VB [255;254])] false;
      SAt 9 [WPut 1 (VB []); WPut 2 (V2 105); WPut 1 (VB [104;101;108;108;111])]] true
    (mkobs [RNone; RIns 2 false true; RNone; RBool false; RNone; RIns 11 false true; RIns 12 false true; RNone]
      [(2, Some ([(3, (VB [120]))], [])); (9, Some ([(1, (VB [104;101;108;108;111])); (2, (V2 105))], [])); (11, Some ([], [])); (12, Some ([(1, (VB [255;254]))], []))] 18 []
      []
      [mkcrec 0 0 [mkop KInsert 2 V0; mkop KInsert 11 V0; mkop KInsert 12 V0] [(1, [mkop KPut 12 (VB [255;254]); mkop KPut 9 (VB []); mkop KPut 9 (VB [104;101;108;108;111])]); (2, [mkop KPut 9 (V2 105)]); (3, [mkop KPut 2 (VB [120])])]])].
Definition M := Eval vm_compute in check_all 0 [history].
Print M.
