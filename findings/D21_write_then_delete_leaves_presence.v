(* D21_write_then_delete_leaves_presence: profile=mix seed=1 case=3; recorded on repo tree d2554cf4bb885c92
   first disagreement at step 8: [('VALS', 1)] *)
From stdpp Require Import gmap.
From ColumnV Require Import Bytes Store Check.
Local Open Scope N_scope.
Definition history : list step :=
  [StCol 99 (col_num 64 merge_add) false;
  StCol 1 (col_str merge_concat) false;
  StCol 2 (col_num 64 merge_add) false;
  StIndex 3 1 (PStrEq [98]);
  StIndex 4 2 (PUnsigned CEq 0);
  StTxn [SInsert 0 [WMerge 1 (VB [0])] false;
      SInsert 1 [WPut 2 (V8 9223372036854775807); WPut 2 (V8 18446744073709551615); WPut 2 (V8 114)] false;
      SInsert 2 [] false;
      SRead 0 1;
      SDelete 1;
      SInsert 3 [WPut 2 (V8 8); WMerge 1 (VB [97;98;99])] false] true
    (mkobs [RIns 0 false true; RIns 1 false true; RIns 2 false true; RVal None; RBool true; RIns 3 false true]
      [(0, Some ([(1, (VB [0]))], [])); (2, Some ([], [])); (3, Some ([(1, (VB [97;98;99])); (2, (V8 8))], []))] 3 []
      []
      [mkcrec 0 0 [mkop KInsert 0 V0; mkop KInsert 1 V0; mkop KInsert 2 V0; mkop KDelete 1 V0; mkop KInsert 3 V0] [(1, [mkop KPut 0 (VB [0]); mkop KPut 3 (VB [97;98;99])]); (2, [mkop KPut 1 (V8 9223372036854775807); mkop KPut 1 (V8 18446744073709551615); mkop KPut 1 (V8 114); mkop KPut 3 (V8 8)])]]);
  StTxn [SInsert 1 [WPut 1 (VB [97;98]); WPut 1 (VB [98])] true] false
    (mkobs [RIns 1 true true]
      [] 3 []
      []
      []);
  StReplica (mkobs [] [] 3 [] [] []);
  StTxn [SAt 0 [WPut 2 (V8 85); WPut 1 (VB [97])];
      SAt 0 [WPut 1 (VB [120]); WMerge 2 (V8 9223372036854775808); WPut 2 (V8 106)];
      SInsert 1 [] false;
      SInsert 4 [] false;
      SDelete 12913;
      SRead 0 2] true
    (mkobs [RNone; RNone; RIns 1 false true; RIns 4 false true; RBool false; RVal None]
      [(0, Some ([(1, (VB [120])); (2, (V8 106))], [])); (1, Some ([(2, (V8 114))], [])); (4, Some ([], []))] 5 []
      []
      [mkcrec 0 0 [mkop KInsert 1 V0; mkop KInsert 4 V0] [(1, [mkop KPut 0 (VB [97]); mkop KPut 0 (VB [120])]); (2, [mkop KPut 0 (V8 85); mkop KPut 0 (V8 9223372036854775893); mkop KPut 0 (V8 106)])]])].
Definition M := Eval vm_compute in check_all 0 [history].
Print M.
