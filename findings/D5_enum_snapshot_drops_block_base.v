(* D5_enum_snapshot_drops_block_base: profile=restore seed=2 case=30; recorded on repo tree 071c10e0a1975503
   first disagreement at step 12: [('VALS', 64)] *)
From stdpp Require Import gmap.
From ColumnV Require Import Bytes Store Check.
Local Open Scope N_scope.
Definition history : list step :=
  [StCol 99 (col_num 64 merge_add) false;
  StCol 1 col_plain false;
  StCol 2 (col_str merge_replace) false;
  StIndex 3 2 (PStrEq [97;98;99]);
  StIndex 4 2 (PStrEq [255;254]);
  StTrigger 5 2;
  StSorted 6 1;
  StSeed (mkcrec 0 0 [mkop KInsert 64 V0; mkop KInsert 65 V0; mkop KInsert 127 V0; mkop KInsert 128 V0; mkop KInsert 4095 V0; mkop KInsert 16382 V0] [(1, [mkop KPut 64 (VB [98]); mkop KPut 127 (VB [107;57;56;55;48]); mkop KPut 128 (VB [114;101;100]); mkop KPut 16382 (VB [97])]); (2, [mkop KPut 64 (VB [104;101;108;108;111]); mkop KPut 65 (VB [122;122]); mkop KPut 127 (VB [255;254]); mkop KPut 128 (VB []); mkop KPut 16382 (VB [])])]);
  StTxn [] true
    (mkobs []
      [(64, Some ([(1, (VB [98])); (2, (VB [104;101;108;108;111]))], [])); (65, Some ([(2, (VB [122;122]))], [])); (127, Some ([(1, (VB [107;57;56;55;48])); (2, (VB [255;254]))], [4])); (128, Some ([(1, (VB [114;101;100])); (2, (VB []))], [])); (4095, Some ([], [])); (16382, Some ([(1, (VB [97])); (2, (VB []))], []))] 6 []
      [(5, [TStored 64 (VB [104;101;108;108;111]); TStored 65 (VB [122;122]); TStored 127 (VB [255;254]); TStored 128 (VB []); TStored 16382 (VB [])])]
      [mkcrec 0 0 [mkop KInsert 64 V0; mkop KInsert 65 V0; mkop KInsert 127 V0; mkop KInsert 128 V0; mkop KInsert 4095 V0; mkop KInsert 16382 V0] [(1, [mkop KPut 64 (VB [98]); mkop KPut 127 (VB [107;57;56;55;48]); mkop KPut 128 (VB [114;101;100]); mkop KPut 16382 (VB [97])]); (2, [mkop KPut 64 (VB [104;101;108;108;111]); mkop KPut 65 (VB [122;122]); mkop KPut 127 (VB [255;254]); mkop KPut 128 (VB []); mkop KPut 16382 (VB [])])]]);
  StSeed (mkcrec 0 1 [mkop KInsert 16384 V0; mkop KInsert 16385 V0; mkop KInsert 16448 V0; mkop KInsert 16511 V0; mkop KInsert 16512 V0; mkop KInsert 24575 V0; mkop KInsert 32766 V0] [(1, [mkop KPut 16384 (VB [97]); mkop KPut 16385 (VB [97]); mkop KPut 16448 (VB [122;122;122;122;122;122;122;122;122;122;122;122;122;122;122;122;122;122;122;122;122;122;122;122]); mkop KPut 16511 (VB [98]); mkop KPut 24575 (VB [98;108;117;101]); mkop KPut 32766 (VB [122;122;122;122;122;122;122;122;122;122;122;122;122;122;122;122;122;122;122;122;122;122;122;122])]); (2, [mkop KPut 16384 (VB [255;254]); mkop KPut 16448 (VB []); mkop KPut 16511 (VB [97;98]); mkop KPut 16512 (VB [97]); mkop KPut 32766 (VB [97])])]);
  StTxn [] true
    (mkobs []
      [(16384, Some ([(1, (VB [97])); (2, (VB [255;254]))], [4])); (16385, Some ([(1, (VB [97]))], [])); (16448, Some ([(1, (VB [122;122;122;122;122;122;122;122;122;122;122;122;122;122;122;122;122;122;122;122;122;122;122;122])); (2, (VB []))], [])); (16511, Some ([(1, (VB [98])); (2, (VB [97;98]))], [])); (16512, Some ([(2, (VB [97]))], [])); (24575, Some ([(1, (VB [98;108;117;101]))], [])); (32766, Some ([(1, (VB [122;122;122;122;122;122;122;122;122;122;122;122;122;122;122;122;122;122;122;122;122;122;122;122])); (2, (VB [97]))], []))] 13 []
      [(5, [TStored 16384 (VB [255;254]); TStored 16448 (VB []); TStored 16511 (VB [97;98]); TStored 16512 (VB [97]); TStored 32766 (VB [97])])]
      [mkcrec 0 1 [mkop KInsert 16384 V0; mkop KInsert 16385 V0; mkop KInsert 16448 V0; mkop KInsert 16511 V0; mkop KInsert 16512 V0; mkop KInsert 24575 V0; mkop KInsert 32766 V0] [(1, [mkop KPut 16384 (VB [97]); mkop KPut 16385 (VB [97]); mkop KPut 16448 (VB [122;122;122;122;122;122;122;122;122;122;122;122;122;122;122;122;122;122;122;122;122;122;122;122]); mkop KPut 16511 (VB [98]); mkop KPut 24575 (VB [98;108;117;101]); mkop KPut 32766 (VB [122;122;122;122;122;122;122;122;122;122;122;122;122;122;122;122;122;122;122;122;122;122;122;122])]); (2, [mkop KPut 16384 (VB [255;254]); mkop KPut 16448 (VB []); mkop KPut 16511 (VB [97;98]); mkop KPut 16512 (VB [97]); mkop KPut 32766 (VB [97])])]]);
  StTxn [SAt 65 [WPut 1 (VB [114;101;100]); WPut 2 (VB [])]] true
    (mkobs [RNone]
      [(65, Some ([(1, (VB [114;101;100])); (2, (VB []))], []))] 13 []
      [(5, [TStored 65 (VB [])])]
      [mkcrec 0 0 [] [(1, [mkop KPut 65 (VB [114;101;100])]); (2, [mkop KPut 65 (VB [])])]]);
  StRestore (mkobs [] [(64, Some ([(1, (VB [122;122;122;122;122;122;122;122;122;122;122;122;122;122;122;122;122;122;122;122;122;122;122;122])); (2, (VB [104;101;108;108;111]))], [])); (127, Some ([(1, (VB [98])); (2, (VB [255;254]))], [4])); (16382, Some ([(1, (VB [122;122;122;122;122;122;122;122;122;122;122;122;122;122;122;122;122;122;122;122;122;122;122;122])); (2, (VB []))], [])); (16384, Some ([(2, (VB [255;254]))], [4])); (16385, Some ([], [])); (16448, Some ([(2, (VB []))], [])); (16511, Some ([(2, (VB [97;98]))], [])); (24575, Some ([], [])); (32766, Some ([(2, (VB [97]))], []))] 13 [] [] [])].
Definition M := Eval vm_compute in check_all 0 [history].
Print M.
