(* D10_reader_int_zero_extends: profile=mix seed=1 case=13; recorded on repo tree b6fdced038179b77
   first disagreement at step 9: [('IDX', 0)] *)
From stdpp Require Import gmap.
From ColumnV Require Import Bytes Store Check.
Local Open Scope N_scope.
Definition history : list step :=
  [StCol 99 (col_num 64 merge_add) false;
  StCol 1 col_plain false;
  StCol 2 (col_num 16 merge_add) false;
  StCol 3 col_plain false;
  StCol 4 col_plain true;
  StIndex 5 3 PTrue;
  StIndex 6 2 (PSigned CLt (9)%Z);
  StSorted 7 4;
  StTxn [SFilter (FWith 4);
      SUpsertKey [107;49] 0 [WBool 3 false] false;
      SAt 0 [WSetKey [107;53]]] true
    (mkobs [RNone; RIns 0 false true; RNone]
      [(0, Some ([(4, (VB [107;53]))], []))] 1 [([107;53], Some 0)]
      []
      [mkcrec 0 0 [mkop KInsert 0 V0] [(3, [mkop KDelete 0 V0]); (4, [mkop KPut 0 (VB [107;49]); mkop KPut 0 (VB [107;53])])]]);
  StTxn [SUpsertKey [107;53] 0 [WPut 2 (V2 32768); WBool 3 true] false;
      SInsertKey [107;52] 1 [WMerge 2 (V2 79)] false;
      SUpsertKey [107;51] 2 [] false;
      STerm (TRange [WBool 3 false; WBool 3 true] false);
      SDelete 2;
      SAt 0 [WBool 3 false];
      SDelete 1] true
    (mkobs [RErr false; RIns 1 false true; RIns 2 false true; RList [0; 1; 2]; RBool true; RNone; RBool true]
      [(0, Some ([(2, (V2 32768)); (4, (VB [107;53]))], []))] 1 []
      []
      [mkcrec 0 0 [mkop KInsert 1 V0; mkop KInsert 2 V0; mkop KDelete 2 V0; mkop KDelete 1 V0] [(2, [mkop KPut 0 (V2 32768); mkop KPut 1 (V2 79)]); (3, [mkop KPut 0 V0; mkop KDelete 0 V0; mkop KPut 0 V0; mkop KDelete 1 V0; mkop KPut 1 V0; mkop KDelete 2 V0; mkop KPut 2 V0; mkop KDelete 0 V0]); (4, [mkop KPut 1 (VB [107;52]); mkop KPut 2 (VB [107;51])])]])].
Definition M := Eval vm_compute in check_all 0 [history].
Print M.
