(* D3_D7_merge_on_reused_offset_and_sorted_duplicates: profile=mix seed=1 case=1; recorded on repo tree d2554cf4bb885c92
   first disagreement at step 22: [('RES', 0), ('VALS', 3), ('EMIT', 2)] *)
From stdpp Require Import gmap.
From ColumnV Require Import Bytes Store Check.
Local Open Scope N_scope.
Definition history : list step :=
  [StCol 99 (col_num 64 merge_add) false;
  StCol 1 (col_num 32 merge_add) false;
  StCol 2 (col_str merge_concat) false;
  StCol 3 (col_num 16 merge_add) false;
  StSorted 4 2;
  StSeed (mkcrec 0 0 [mkop KInsert 65 V0; mkop KInsert 4095 V0; mkop KInsert 8191 V0] [(1, [mkop KPut 65 (V4 4290847557)]); (2, [mkop KPut 65 (VB [97]); mkop KPut 8191 (VB [122;122])]); (3, [mkop KPut 4095 (V2 98); mkop KPut 8191 (V2 65535)])]);
  StTxn [] true
    (mkobs []
      [(65, Some ([(1, (V4 4290847557)); (2, (VB [97]))], [])); (4095, Some ([(3, (V2 98))], [])); (8191, Some ([(2, (VB [122;122])); (3, (V2 65535))], []))] 3 []
      []
      [mkcrec 0 0 [mkop KInsert 65 V0; mkop KInsert 4095 V0; mkop KInsert 8191 V0] [(1, [mkop KPut 65 (V4 4290847557)]); (2, [mkop KPut 65 (VB [97]); mkop KPut 8191 (VB [122;122])]); (3, [mkop KPut 4095 (V2 98); mkop KPut 8191 (V2 65535)])]]);
  StSeed (mkcrec 0 1 [mkop KInsert 16385 V0; mkop KInsert 16447 V0; mkop KInsert 16512 V0; mkop KInsert 20479 V0] [(1, [mkop KPut 16385 (V4 0); mkop KPut 16447 (V4 2147483648); mkop KPut 16512 (V4 0); mkop KPut 20479 (V4 4290847557)]); (2, [mkop KPut 16385 (VB []); mkop KPut 16447 (VB []); mkop KPut 20479 (VB [122;122])]); (3, [mkop KPut 16385 (V2 32768); mkop KPut 16447 (V2 65535); mkop KPut 16512 (V2 0)])]);
  StTxn [] true
    (mkobs []
      [(16385, Some ([(1, (V4 0)); (2, (VB [])); (3, (V2 32768))], [])); (16447, Some ([(1, (V4 2147483648)); (2, (VB [])); (3, (V2 65535))], [])); (16512, Some ([(1, (V4 0)); (3, (V2 0))], [])); (20479, Some ([(1, (V4 4290847557)); (2, (VB [122;122]))], []))] 7 []
      []
      [mkcrec 0 1 [mkop KInsert 16385 V0; mkop KInsert 16447 V0; mkop KInsert 16512 V0; mkop KInsert 20479 V0] [(1, [mkop KPut 16385 (V4 0); mkop KPut 16447 (V4 2147483648); mkop KPut 16512 (V4 0); mkop KPut 20479 (V4 4290847557)]); (2, [mkop KPut 16385 (VB []); mkop KPut 16447 (VB []); mkop KPut 20479 (VB [122;122])]); (3, [mkop KPut 16385 (V2 32768); mkop KPut 16447 (V2 65535); mkop KPut 16512 (V2 0)])]]);
  StSeed (mkcrec 0 2 [mkop KInsert 32831 V0; mkop KInsert 32896 V0; mkop KInsert 40959 V0; mkop KInsert 49150 V0; mkop KInsert 49151 V0] [(1, [mkop KPut 32831 (V4 1065353216); mkop KPut 49150 (V4 2139095040)]); (2, [mkop KPut 32896 (VB [120]); mkop KPut 40959 (VB [97]); mkop KPut 49150 (VB [122;122]); mkop KPut 49151 (VB [120])]); (3, [mkop KPut 32831 (V2 62506); mkop KPut 40959 (V2 32767); mkop KPut 49150 (V2 0); mkop KPut 49151 (V2 32768)])]);
  StTxn [] true
    (mkobs []
      [(32831, Some ([(1, (V4 1065353216)); (3, (V2 62506))], [])); (32896, Some ([(2, (VB [120]))], [])); (40959, Some ([(2, (VB [97])); (3, (V2 32767))], [])); (49150, Some ([(1, (V4 2139095040)); (2, (VB [122;122])); (3, (V2 0))], [])); (49151, Some ([(2, (VB [120])); (3, (V2 32768))], []))] 12 []
      []
      [mkcrec 0 2 [mkop KInsert 32831 V0; mkop KInsert 32896 V0; mkop KInsert 40959 V0; mkop KInsert 49150 V0; mkop KInsert 49151 V0] [(1, [mkop KPut 32831 (V4 1065353216); mkop KPut 49150 (V4 2139095040)]); (2, [mkop KPut 32896 (VB [120]); mkop KPut 40959 (VB [97]); mkop KPut 49150 (VB [122;122]); mkop KPut 49151 (VB [120])]); (3, [mkop KPut 32831 (V2 62506); mkop KPut 40959 (V2 32767); mkop KPut 49150 (V2 0); mkop KPut 49151 (V2 32768)])]]);
  StTxn [SInsert 0 [WPut 1 (V4 1092616192); WPut 3 (V2 20416)] false;
      SInsert 1 [] false;
      SInsert 2 [] false;
      SAt 0 [WPut 1 (V4 2143289344); WPut 2 (VB [98])];
      SDelete 16385] true
    (mkobs [RIns 0 false true; RIns 1 false true; RIns 2 false true; RNone; RBool true]
      [(0, Some ([(1, (V4 2143289344)); (2, (VB [98])); (3, (V2 20416))], [])); (1, Some ([], [])); (2, Some ([], [])); (16385, None)] 14 []
      []
      [mkcrec 0 0 [mkop KInsert 0 V0; mkop KInsert 1 V0; mkop KInsert 2 V0] [(1, [mkop KPut 0 (V4 1092616192); mkop KPut 0 (V4 2143289344)]); (2, [mkop KPut 0 (VB [98])]); (3, [mkop KPut 0 (V2 20416)])];
       mkcrec 0 1 [mkop KDelete 16385 V0] []]);
  StTxn [SInsert 3 [WMerge 3 (V2 58616); WPut 1 (V4 1092616192); WMerge 3 (V2 32768)] false;
      SFilter (FUnion 2);
      SRead 16447 2] true
    (mkobs [RIns 3 false true; RNone; RVal (Some (VB []))]
      [(3, Some ([(1, (V4 1092616192)); (3, (V2 25848))], []))] 15 []
      []
      [mkcrec 0 0 [mkop KInsert 3 V0] [(1, [mkop KPut 3 (V4 1092616192)]); (3, [mkop KPut 3 (V2 58616); mkop KPut 3 (V2 25848)])]]);
  StTxn [SDelete 1;
      SInsert 4 [WPut 2 (VB [122;122]); WPut 3 (V2 32767)] false;
      SInsert 5 [WPut 1 (V4 8388608)] false;
      SAt 32896 [WPut 2 (VB [98])];
      SDelete 8191] false
    (mkobs [RBool true; RIns 4 false true; RIns 5 false true; RNone; RBool true]
      [] 15 []
      []
      []);
  StTxn [SInsert 4 [WPut 1 (V4 2143289344); WPut 3 (V2 0); WPut 3 (V2 100)] false;
      SAt 40959 [WMerge 2 (VB [120]); WPut 3 (V2 32768)];
      SInsert 5 [] false;
      SRead 3 1;
      SInsert 6 [WMerge 2 (VB [97])] false] true
    (mkobs [RIns 4 false true; RNone; RIns 5 false true; RVal (Some (V4 1092616192)); RIns 6 false true]
      [(4, Some ([(1, (V4 2143289344)); (3, (V2 100))], [])); (5, Some ([], [])); (6, Some ([(2, (VB [97]))], [])); (40959, Some ([(2, (VB [97;120])); (3, (V2 32768))], []))] 18 []
      []
      [mkcrec 0 0 [mkop KInsert 4 V0; mkop KInsert 5 V0; mkop KInsert 6 V0] [(1, [mkop KPut 4 (V4 2143289344)]); (2, [mkop KPut 6 (VB [97])]); (3, [mkop KPut 4 (V2 0); mkop KPut 4 (V2 100)])];
       mkcrec 0 2 [] [(2, [mkop KPut 40959 (VB [97;120])]); (3, [mkop KPut 40959 (V2 32768)])]]);
  StTxn [SInsert 7 [WMerge 3 (V2 65509); WPut 1 (V4 2139095040)] false;
      SDelete 8191;
      SAt 8191 [WPut 1 (V4 1065353216); WPut 1 (V4 2139095040); WPut 1 (V4 2139095040)];
      SAt 20479 [WPut 2 (VB [97;98])];
      SDelete 1] true
    (mkobs [RIns 7 false true; RBool true; RNone; RNone; RBool true]
      [(1, None); (7, Some ([(1, (V4 2139095040)); (3, (V2 65509))], [])); (8191, None); (20479, Some ([(1, (V4 4290847557)); (2, (VB [97;98]))], []))] 17 []
      []
      [mkcrec 0 0 [mkop KInsert 7 V0; mkop KDelete 8191 V0; mkop KDelete 1 V0] [(1, [mkop KPut 7 (V4 2139095040); mkop KPut 8191 (V4 1065353216); mkop KPut 8191 (V4 2139095040); mkop KPut 8191 (V4 2139095040)]); (3, [mkop KPut 7 (V2 65509)])];
       mkcrec 0 1 [] [(2, [mkop KPut 20479 (VB [97;98])])]]);
  StTxn [SAt 49150 [WPut 3 (V2 0); WPut 3 (V2 65484); WMerge 3 (V2 65535)];
      SAt 16512 [WPut 1 (V4 2143289345); WPut 1 (V4 8388608)]] true
    (mkobs [RNone; RNone]
      [(16512, Some ([(1, (V4 8388608)); (3, (V2 0))], [])); (49150, Some ([(1, (V4 2139095040)); (2, (VB [122;122])); (3, (V2 65483))], []))] 17 []
      []
      [mkcrec 0 1 [] [(1, [mkop KPut 16512 (V4 2143289345); mkop KPut 16512 (V4 8388608)])];
       mkcrec 0 2 [] [(3, [mkop KPut 49150 (V2 0); mkop KPut 49150 (V2 65484); mkop KPut 49150 (V2 65483)])]]);
  StRestore (mkobs [] [] 17 [] [] []);
  StTxn [SInsert 1 [WPut 3 (V2 81); WPut 3 (V2 0); WPut 1 (V4 8388608)] false;
      SAt 16447 [WMerge 2 (VB [120]); WPut 1 (V4 1065353216)];
      STerm (TRange [WPut 1 (V4 2143289345)] false)] true
    (mkobs [RIns 1 false true; RNone; RList [0; 1; 2; 3; 4; 5; 6; 7; 65; 4095; 16447; 16512; 20479; 32831; 32896; 40959; 49150; 49151]]
      [(0, Some ([(1, (V4 2143289345)); (2, (VB [98])); (3, (V2 20416))], [])); (1, Some ([(1, (V4 2143289345)); (3, (V2 0))], [])); (2, Some ([(1, (V4 2143289345))], [])); (3, Some ([(1, (V4 2143289345)); (3, (V2 25848))], [])); (4, Some ([(1, (V4 2143289345)); (3, (V2 100))], [])); (5, Some ([(1, (V4 2143289345))], [])); (6, Some ([(1, (V4 2143289345)); (2, (VB [97]))], [])); (7, Some ([(1, (V4 2143289345)); (3, (V2 65509))], [])); (65, Some ([(1, (V4 2143289345)); (2, (VB [97]))], [])); (4095, Some ([(1, (V4 2143289345)); (3, (V2 98))], [])); (16447, Some ([(1, (V4 2143289345)); (2, (VB [120])); (3, (V2 65535))], [])); (16512, Some ([(1, (V4 2143289345)); (3, (V2 0))], [])); (20479, Some ([(1, (V4 2143289345)); (2, (VB [97;98]))], [])); (32831, Some ([(1, (V4 2143289345)); (3, (V2 62506))], [])); (32896, Some ([(1, (V4 2143289345)); (2, (VB [120]))], [])); (40959, Some ([(1, (V4 2143289345)); (2, (VB [97;120])); (3, (V2 32768))], [])); (49150, Some ([(1, (V4 2143289345)); (2, (VB [122;122])); (3, (V2 65483))], [])); (49151, Some ([(1, (V4 2143289345)); (2, (VB [120])); (3, (V2 32768))], []))] 18 []
      []
      [mkcrec 0 0 [mkop KInsert 1 V0] [(1, [mkop KPut 1 (V4 8388608); mkop KPut 0 (V4 2143289345); mkop KPut 1 (V4 2143289345); mkop KPut 2 (V4 2143289345); mkop KPut 3 (V4 2143289345); mkop KPut 4 (V4 2143289345); mkop KPut 5 (V4 2143289345); mkop KPut 6 (V4 2143289345); mkop KPut 7 (V4 2143289345); mkop KPut 65 (V4 2143289345); mkop KPut 4095 (V4 2143289345)]); (3, [mkop KPut 1 (V2 81); mkop KPut 1 (V2 0)])];
       mkcrec 0 1 [] [(1, [mkop KPut 16447 (V4 1065353216); mkop KPut 16447 (V4 2143289345); mkop KPut 16512 (V4 2143289345); mkop KPut 20479 (V4 2143289345)]); (2, [mkop KPut 16447 (VB [120])])];
       mkcrec 0 2 [] [(1, [mkop KPut 32831 (V4 2143289345); mkop KPut 32896 (V4 2143289345); mkop KPut 40959 (V4 2143289345); mkop KPut 49150 (V4 2143289345); mkop KPut 49151 (V4 2143289345)])]]);
  StRestore (mkobs [] [] 18 [] [] []);
  StTxn [SInsert 8 [WMerge 2 (VB []); WPut 1 (V4 1065353216)] false] true
    (mkobs [RIns 8 false true]
      [(8, Some ([(1, (V4 1065353216)); (2, (VB []))], []))] 19 []
      []
      [mkcrec 0 0 [mkop KInsert 8 V0] [(1, [mkop KPut 8 (V4 1065353216)]); (2, [mkop KPut 8 (VB [])])]]);
  StTxn [STerm TCount;
      STerm (TSum 3);
      SInsert 9 [WPut 1 (V4 1); WPut 3 (V2 0); WPut 1 (V4 2143289344)] false;
      SInsert 10 [WPut 3 (V2 21); WPut 1 (V4 4290847557)] false;
      SDelete 3;
      SInsert 11 [WPut 1 (V4 2143289344)] false] true
    (mkobs [RCount 19; RNum 43351 true; RIns 9 false true; RIns 10 false true; RBool true; RIns 11 false true]
      [(3, None); (9, Some ([(1, (V4 2143289344)); (3, (V2 0))], [])); (10, Some ([(1, (V4 4290847557)); (3, (V2 21))], [])); (11, Some ([(1, (V4 2143289344))], []))] 21 []
      []
      [mkcrec 0 0 [mkop KInsert 9 V0; mkop KInsert 10 V0; mkop KDelete 3 V0; mkop KInsert 11 V0] [(1, [mkop KPut 9 (V4 1); mkop KPut 9 (V4 2143289344); mkop KPut 10 (V4 4290847557); mkop KPut 11 (V4 2143289344)]); (3, [mkop KPut 9 (V2 0); mkop KPut 10 (V2 21)])]]);
  StTxn [STerm (TAscend 4);
      SDelete 2;
      STerm (TMin 3 true);
      SInsert 3 [WPut 1 (V4 4290847557); WMerge 3 (V2 65514); WPut 2 (VB [104;101;108;108;111])] false;
      SAt 49150 [WPut 3 (V2 107); WPut 1 (V4 2143289344); WMerge 3 (V2 32767)];
      SFilter (FPred 3 (PSigned CLt (8)%Z));
      SInsert 12 [WMerge 3 (V2 26)] false] true
    (mkobs [RList [65; 20479; 40959; 0; 49151; 49150]; RBool true; RNum 32768 true; RIns 3 false true; RNone; RNone; RIns 12 false true]
      [(2, None); (3, Some ([(1, (V4 4290847557)); (2, (VB [104;101;108;108;111])); (3, (V2 25826))], [])); (12, Some ([(3, (V2 26))], [])); (49150, Some ([(1, (V4 2143289344)); (2, (VB [122;122])); (3, (V2 32874))], []))] 22 []
      []
      [mkcrec 0 0 [mkop KDelete 2 V0; mkop KInsert 3 V0; mkop KInsert 12 V0] [(1, [mkop KPut 3 (V4 4290847557)]); (2, [mkop KPut 3 (VB [104;101;108;108;111])]); (3, [mkop KPut 3 (V2 25826); mkop KPut 12 (V2 26)])];
       mkcrec 0 2 [] [(1, [mkop KPut 49150 (V4 2143289344)]); (3, [mkop KPut 49150 (V2 107); mkop KPut 49150 (V2 32874)])]])].
Definition M := Eval vm_compute in check_all 0 [history].
Print M.
