(* D6_rekey_keeps_old_key: profile=mix seed=1 case=5; recorded on repo tree 227e15bb13dc1c61
   first disagreement at step 9: [('KEYS', 0)] *)
From stdpp Require Import gmap.
From ColumnV Require Import Bytes Store Check.
Local Open Scope N_scope.
Definition history : list step :=
  [StCol 99 (col_num 64 merge_add) false;
  StCol 1 (col_num 64 merge_add) false;
  StCol 2 (col_num 16 merge_add) false;
  StCol 3 (col_num 32 merge_add) false;
  StCol 4 col_plain false;
  StCol 5 (col_num 64 merge_add) false;
  StCol 6 col_plain true;
  StTrigger 7 2;
  StTxn [SUpsertKey [107;54] 0 [WMerge 2 (V2 0)] false;
      SInsertKey [107;49] 1 [] false;
      SFilter (FPred 5 (PUnsigned CEq 69))] true
    (mkobs [RIns 0 false true; RIns 1 false true; RNone]
      [(0, Some ([(2, (V2 0)); (6, (VB [107;54]))], [])); (1, Some ([(6, (VB [107;49]))], []))] 2 [([107;49], Some 1); ([107;54], Some 0)]
      [(7, [TStored 0 (V2 0)])]
      [mkcrec 0 0 [mkop KInsert 0 V0; mkop KInsert 1 V0] [(2, [mkop KPut 0 (V2 0)]); (6, [mkop KPut 0 (VB [107;54]); mkop KPut 1 (VB [107;49])])]]);
  StTxn [SDelete 21549;
      SAt 1 [WPut 4 (VB [103;114;101;101;110]); WPut 5 (V8 18446744073709551615); WPut 2 (V2 22)];
      SInsertKey [107;49] 0 [] false;
      SRead 1 6;
      SQueryKey [107;49] [WSetKey [107;50]]] true
    (mkobs [RBool false; RNone; RErr true; RVal (Some (VB [107;49])); RErr false]
      [(1, Some ([(2, (V2 22)); (4, (VB [103;114;101;101;110])); (5, (V8 18446744073709551615)); (6, (VB [107;50]))], []))] 2 [([107;50], Some 1)]
      [(7, [TStored 1 (V2 22)])]
      [mkcrec 0 0 [] [(2, [mkop KPut 1 (V2 22)]); (4, [mkop KPut 1 (VB [103;114;101;101;110])]); (5, [mkop KPut 1 (V8 18446744073709551615)]); (6, [mkop KPut 1 (VB [107;50])])]])].
Definition M := Eval vm_compute in check_all 0 [history].
Print M.
