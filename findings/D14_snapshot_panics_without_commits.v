(* D14_snapshot_panics_without_commits: profile=mix seed=1 case=8; recorded on repo tree 6b0ec0ff35493165
   the implementation PANICKED in the step following this history: runtime error: index out of range [0] with length 0 @ .(*Collection).readChunk < .(*Collection).writeState.func1 < .(*Collection).writeState < .(*Collection).Snapshot *)
From stdpp Require Import gmap.
From ColumnV Require Import Bytes Store Check.
Local Open Scope N_scope.
Definition history : list step :=
  [StCol 99 (col_num 64 merge_add) false;
  StCol 1 (col_num 64 merge_add) false;
  StCol 2 col_plain false;
  StCol 3 (col_num 16 merge_add) false;
  StIndex 4 3 (PUnsigned CLt 33);
  StTrigger 5 2;
  StIndex 6 1 (PSigned CLt (66)%Z);
  StTxn [SInsert 0 [WBool 2 false] true] false
    (mkobs [RIns 0 true true]
      [] 0 []
      [(5, [])]
      [])].
Definition M := Eval vm_compute in check_all 0 [history].
Print M.
