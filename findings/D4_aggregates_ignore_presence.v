(* D4_aggregates_ignore_presence: profile=mix seed=1 case=6; recorded on repo tree b6fdced038179b77
   first disagreement at step 11: [('RES', 0)] *)
From stdpp Require Import gmap.
From ColumnV Require Import Bytes Store Check.
Local Open Scope N_scope.
Definition history : list step :=
  [StCol 99 (col_num 64 merge_add) false;
  StCol 1 (col_str merge_concat) false;
  StCol 2 (col_num 16 merge_add) false;
  StCol 3 (col_str merge_replace) false;
  StTxn [SInsert 0 [] false;
      STerm (TRange [] false);
      SFilter (FPred 3 (PLenGt 0));
      SAt 0 [WPut 3 (VB [0]); WPut 3 (VB [97;98;99]); WMerge 2 (V2 0)]] true
    (mkobs [RIns 0 false true; RList [0]; RNone; RNone]
      [(0, Some ([(2, (V2 0)); (3, (VB [97;98;99]))], []))] 1 []
      []
      [mkcrec 0 0 [mkop KInsert 0 V0] [(2, [mkop KPut 0 (V2 0)]); (3, [mkop KPut 0 (VB [0]); mkop KPut 0 (VB [97;98;99])])]]);
  StIndex 4 2 (PUnsigned CGe 92);
  StTxn [SInsert 1 [WPut 3 (VB [255;254])] false;
      SAt 0 [WMerge 2 (V2 14589)]] true
    (mkobs [RIns 1 false true; RNone]
      [(0, Some ([(2, (V2 14589)); (3, (VB [97;98;99]))], [4])); (1, Some ([(3, (VB [255;254]))], []))] 2 []
      []
      [mkcrec 0 0 [mkop KInsert 1 V0] [(2, [mkop KPut 0 (V2 14589)]); (3, [mkop KPut 1 (VB [255;254])])]]);
  StTxn [SFilter (FPred 1 (PStrEq [0]))] true
    (mkobs [RNone]
      [] 2 []
      []
      []);
  StTxn [SAt 1 [WMerge 3 (VB [97;98])];
      SInsert 2 [WPut 1 (VB [0]); WPut 3 (VB [122;122])] false;
      SDelete 27629;
      STerm TCount;
      SRead 2 1] false
    (mkobs [RNone; RIns 2 false true; RBool false; RCount 3; RVal None]
      [] 2 []
      []
      []);
  StTxn [SInsert 2 [WPut 2 (V2 32767); WPut 1 (VB [97;98]); WPut 1 (VB [255;254])] false] true
    (mkobs [RIns 2 false true]
      [(2, Some ([(1, (VB [255;254])); (2, (V2 32767))], [4]))] 3 []
      []
      [mkcrec 0 0 [mkop KInsert 2 V0] [(1, [mkop KPut 2 (VB [97;98]); mkop KPut 2 (VB [255;254])]); (2, [mkop KPut 2 (V2 32767)])]]);
  StTxn [SAt 2 [WPut 1 (VB [])];
      SFilter (FPred 3 (PStrEq [97;98;99]));
      SInsert 3 [WPut 1 (VB [120]); WPut 3 (VB [97])] false] true
    (mkobs [RNone; RNone; RIns 3 false true]
      [(2, Some ([(1, (VB [])); (2, (V2 32767))], [4])); (3, Some ([(1, (VB [120])); (3, (VB [97]))], []))] 4 []
      []
      [mkcrec 0 0 [mkop KInsert 3 V0] [(1, [mkop KPut 2 (VB []); mkop KPut 3 (VB [120])]); (3, [mkop KPut 3 (VB [97])])]]);
  StTxn [STerm (TMin 2 false);
      SInsert 4 [] false;
      SInsert 5 [WPut 2 (V2 65535); WMerge 3 (VB [0])] false;
      SInsert 6 [WPut 3 (VB [120]); WPut 3 (VB [122;122]); WMerge 2 (V2 116)] false] true
    (mkobs [RNum 0 true; RIns 4 false true; RIns 5 false true; RIns 6 false true]
      [(4, Some ([], [])); (5, Some ([(2, (V2 65535)); (3, (VB [0]))], [4])); (6, Some ([(2, (V2 116)); (3, (VB [122;122]))], [4]))] 7 []
      []
      [mkcrec 0 0 [mkop KInsert 4 V0; mkop KInsert 5 V0; mkop KInsert 6 V0] [(2, [mkop KPut 5 (V2 65535); mkop KPut 6 (V2 116)]); (3, [mkop KPut 5 (VB [0]); mkop KPut 6 (VB [120]); mkop KPut 6 (VB [122;122])])]])].
Definition M := Eval vm_compute in check_all 0 [history].
Print M.
