(* D15_create_column_on_sparse_collection_panics: profile=mix seed=1 case=20; recorded on repo tree 6b0ec0ff35493165
   the implementation PANICKED in the step following this history: runtime error: index out of range [1] with length 1 @ .chunks[...].chunkAt < .(*numericColumn[...]).Apply < .(*column).Apply < .(*Txn).commitUpdates.func1 *)
From stdpp Require Import gmap.
From ColumnV Require Import Bytes Store Check.
Local Open Scope N_scope.
Definition history : list step :=
  [StCol 99 (col_num 64 merge_add) false;
  StCol 1 col_plain false;
  StCol 2 (col_str merge_concat) false;
  StCol 3 (col_num 32 merge_add) false;
  StCol 4 (col_num 64 merge_add) false;
  StIndex 5 3 (PUnsigned CEq 94);
  StIndex 6 4 (PSigned CEq (58)%Z);
  StSeed (mkcrec 0 0 [mkop KInsert 128 V0; mkop KInsert 4095 V0; mkop KInsert 8191 V0] [(1, [mkop KDelete 8191 V0]); (2, [mkop KPut 4095 (VB [97]); mkop KPut 8191 (VB [104;101;108;108;111])]); (4, [mkop KPut 8191 (V8 18446744073709551615)])]);
  StTxn [] true
    (mkobs []
      [(128, Some ([], [])); (4095, Some ([(2, (VB [97]))], [])); (8191, Some ([(2, (VB [104;101;108;108;111])); (4, (V8 18446744073709551615))], []))] 3 []
      []
      [mkcrec 0 0 [mkop KInsert 128 V0; mkop KInsert 4095 V0; mkop KInsert 8191 V0] [(1, [mkop KDelete 8191 V0]); (2, [mkop KPut 4095 (VB [97]); mkop KPut 8191 (VB [104;101;108;108;111])]); (4, [mkop KPut 8191 (V8 18446744073709551615)])]]);
  StSeed (mkcrec 0 1 [mkop KInsert 16384 V0; mkop KInsert 16385 V0; mkop KInsert 16449 V0; mkop KInsert 16511 V0; mkop KInsert 32766 V0; mkop KInsert 32767 V0] [(1, [mkop KDelete 16384 V0; mkop KDelete 16385 V0; mkop KDelete 16449 V0; mkop KPut 16511 V0]); (2, [mkop KPut 16384 (VB [97;98]); mkop KPut 16385 (VB [97]); mkop KPut 16511 (VB [122;122]); mkop KPut 32766 (VB [97])]); (3, [mkop KPut 16385 (V4 4286578688); mkop KPut 16511 (V4 3212836864); mkop KPut 32766 (V4 1092616192)]); (4, [mkop KPut 16384 (V8 18446744073709551604); mkop KPut 16449 (V8 6); mkop KPut 32766 (V8 18446744073709551609); mkop KPut 32767 (V8 20)])]);
  StTxn [] true
    (mkobs []
      [(16384, Some ([(2, (VB [97;98])); (4, (V8 18446744073709551604))], [])); (16385, Some ([(2, (VB [97])); (3, (V4 4286578688))], [])); (16449, Some ([(4, (V8 6))], [])); (16511, Some ([(1, V0); (2, (VB [122;122])); (3, (V4 3212836864))], [])); (32766, Some ([(2, (VB [97])); (3, (V4 1092616192)); (4, (V8 18446744073709551609))], [])); (32767, Some ([(4, (V8 20))], []))] 9 []
      []
      [mkcrec 0 1 [mkop KInsert 16384 V0; mkop KInsert 16385 V0; mkop KInsert 16449 V0; mkop KInsert 16511 V0; mkop KInsert 32766 V0; mkop KInsert 32767 V0] [(1, [mkop KDelete 16384 V0; mkop KDelete 16385 V0; mkop KDelete 16449 V0; mkop KPut 16511 V0]); (2, [mkop KPut 16384 (VB [97;98]); mkop KPut 16385 (VB [97]); mkop KPut 16511 (VB [122;122]); mkop KPut 32766 (VB [97])]); (3, [mkop KPut 16385 (V4 4286578688); mkop KPut 16511 (V4 3212836864); mkop KPut 32766 (V4 1092616192)]); (4, [mkop KPut 16384 (V8 18446744073709551604); mkop KPut 16449 (V8 6); mkop KPut 32766 (V8 18446744073709551609); mkop KPut 32767 (V8 20)])]]);
  StTxn [SAt 16384 [WPut 4 (V8 18446744073709551615); WPut 3 (V4 2143289345); WBool 1 true]] true
    (mkobs [RNone]
      [(16384, Some ([(1, V0); (2, (VB [97;98])); (3, (V4 2143289345)); (4, (V8 18446744073709551615))], []))] 9 []
      []
      [mkcrec 0 1 [] [(1, [mkop KPut 16384 V0]); (3, [mkop KPut 16384 (V4 2143289345)]); (4, [mkop KPut 16384 (V8 18446744073709551615)])]]);
  StRestore (mkobs [] [] 9 [] [] []);
  StIndex 7 2 (PStrEq [97;98]);
  StTxn [SAt 32767 [WPut 3 (V4 2143289345); WPut 2 (VB [97])];
      SInsert 0 [WPut 3 (V4 2147483648); WBool 1 true; WPut 4 (V8 18446744073709551615)] false;
      SAt 16385 [WMerge 2 (VB [97]); WPut 3 (V4 2139095040)];
      SInsert 1 [] false;
      SInsert 2 [WPut 4 (V8 9223372036854775807); WPut 4 (V8 118); WPut 4 (V8 100)] false;
      SRead 4095 1;
      SAt 128 [WPut 4 (V8 18446744073709551615); WBool 1 true; WMerge 4 (V8 18446744073709551615)]] true
    (mkobs [RNone; RIns 0 false true; RNone; RIns 1 false true; RIns 2 false true; RVal None; RNone]
      [(0, Some ([(1, V0); (3, (V4 2147483648)); (4, (V8 18446744073709551615))], [])); (1, Some ([], [])); (2, Some ([(4, (V8 100))], [])); (128, Some ([(1, V0); (4, (V8 18446744073709551614))], [])); (16384, Some ([(1, V0); (2, (VB [97;98])); (3, (V4 2143289345)); (4, (V8 18446744073709551615))], [7])); (16385, Some ([(2, (VB [97;97])); (3, (V4 2139095040))], [])); (32767, Some ([(2, (VB [97])); (3, (V4 2143289345)); (4, (V8 20))], []))] 12 []
      []
      [mkcrec 0 0 [mkop KInsert 0 V0; mkop KInsert 1 V0; mkop KInsert 2 V0] [(1, [mkop KPut 0 V0; mkop KPut 128 V0]); (3, [mkop KPut 0 (V4 2147483648)]); (4, [mkop KPut 0 (V8 18446744073709551615); mkop KPut 2 (V8 9223372036854775807); mkop KPut 2 (V8 118); mkop KPut 2 (V8 100); mkop KPut 128 (V8 18446744073709551615); mkop KPut 128 (V8 18446744073709551614)])];
       mkcrec 0 1 [] [(2, [mkop KPut 32767 (VB [97]); mkop KPut 16385 (VB [97;97])]); (3, [mkop KPut 32767 (V4 2143289345); mkop KPut 16385 (V4 2139095040)])]]);
  StTxn [SInsert 3 [WPut 3 (V4 2143289345); WPut 3 (V4 4290847557); WMerge 4 (V8 15700380989974567751)] false;
      SAt 16385 [WPut 3 (V4 4286578688); WBool 1 true];
      SAt 3 [WBool 1 false; WBool 1 false];
      SFilter (FWithout 4);
      SFilter (FWithout 7);
      SDelete 16384] true
    (mkobs [RIns 3 false true; RNone; RNone; RNone; RNone; RBool false]
      [(3, Some ([(3, (V4 4290847557)); (4, (V8 15700380989974567751))], [])); (16385, Some ([(1, V0); (2, (VB [97;97])); (3, (V4 4286578688))], []))] 13 []
      []
      [mkcrec 0 0 [mkop KInsert 3 V0] [(1, [mkop KDelete 3 V0; mkop KDelete 3 V0]); (3, [mkop KPut 3 (V4 2143289345); mkop KPut 3 (V4 4290847557)]); (4, [mkop KPut 3 (V8 15700380989974567751)])];
       mkcrec 0 1 [] [(1, [mkop KPut 16385 V0]); (3, [mkop KPut 16385 (V4 4286578688)])]]);
  StReplica (mkobs [] [] 13 [] [] []);
  StTxn [SFilter (FUnion 6);
      SInsert 4 [WMerge 4 (V8 3962217650667971403)] false;
      SInsert 5 [WPut 4 (V8 9223372036854775808); WMerge 2 (VB [97;98;99])] false;
      SDelete 32767;
      SAt 32766 [WPut 3 (V4 8388608); WPut 4 (V8 9223372036854775807)];
      SInsert 6 [WPut 4 (V8 59); WPut 3 (V4 2143289344)] false;
      SAt 8191 [WMerge 2 (VB [0]); WPut 4 (V8 15854889378621288242)]] true
    (mkobs [RNone; RIns 4 false true; RIns 5 false true; RBool false; RNone; RIns 6 false true; RNone]
      [(4, Some ([(4, (V8 3962217650667971403))], [])); (5, Some ([(2, (VB [97;98;99])); (4, (V8 9223372036854775808))], [])); (6, Some ([(3, (V4 2143289344)); (4, (V8 59))], [])); (8191, Some ([(2, (VB [104;101;108;108;111;0])); (4, (V8 15854889378621288242))], [])); (32766, Some ([(2, (VB [97])); (3, (V4 8388608)); (4, (V8 9223372036854775807))], []))] 16 []
      []
      [mkcrec 0 0 [mkop KInsert 4 V0; mkop KInsert 5 V0; mkop KInsert 6 V0] [(2, [mkop KPut 5 (VB [97;98;99]); mkop KPut 8191 (VB [104;101;108;108;111;0])]); (3, [mkop KPut 6 (V4 2143289344)]); (4, [mkop KPut 4 (V8 3962217650667971403); mkop KPut 5 (V8 9223372036854775808); mkop KPut 6 (V8 59); mkop KPut 8191 (V8 15854889378621288242)])];
       mkcrec 0 1 [] [(3, [mkop KPut 32766 (V4 8388608)]); (4, [mkop KPut 32766 (V8 9223372036854775807)])]]);
  StTxn [SAt 5 [WPut 3 (V4 1); WPut 3 (V4 8388608); WPut 2 (VB [122;122])];
      SAt 128 [WMerge 4 (V8 5)];
      SRead 32767 3;
      SAt 16384 [WBool 1 true];
      SAt 2 [WPut 3 (V4 4286578688)]] false
    (mkobs [RNone; RNone; RVal (Some (V4 2143289345)); RNone; RNone]
      [] 16 []
      []
      []);
  StTxn [SInsert 7 [WMerge 4 (V8 9223372036854775808); WBool 1 false] false] true
    (mkobs [RIns 7 false true]
      [(7, Some ([(4, (V8 9223372036854775808))], []))] 17 []
      []
      [mkcrec 0 0 [mkop KInsert 7 V0] [(1, [mkop KDelete 7 V0]); (4, [mkop KPut 7 (V8 9223372036854775808)])]]);
  StTxn [STerm (TRange [WBool 1 true] false)] true
    (mkobs [RList [0; 1; 2; 3; 4; 5; 6; 7; 128; 4095; 8191; 16384; 16385; 16449; 16511; 32766; 32767]]
      [(1, Some ([(1, V0)], [])); (2, Some ([(1, V0); (4, (V8 100))], [])); (3, Some ([(1, V0); (3, (V4 4290847557)); (4, (V8 15700380989974567751))], [])); (4, Some ([(1, V0); (4, (V8 3962217650667971403))], [])); (5, Some ([(1, V0); (2, (VB [97;98;99])); (4, (V8 9223372036854775808))], [])); (6, Some ([(1, V0); (3, (V4 2143289344)); (4, (V8 59))], [])); (7, Some ([(1, V0); (4, (V8 9223372036854775808))], [])); (4095, Some ([(1, V0); (2, (VB [97]))], [])); (8191, Some ([(1, V0); (2, (VB [104;101;108;108;111;0])); (4, (V8 15854889378621288242))], [])); (16449, Some ([(1, V0); (4, (V8 6))], [])); (32766, Some ([(1, V0); (2, (VB [97])); (3, (V4 8388608)); (4, (V8 9223372036854775807))], [])); (32767, Some ([(1, V0); (2, (VB [97])); (3, (V4 2143289345)); (4, (V8 20))], []))] 17 []
      []
      [mkcrec 0 0 [] [(1, [mkop KPut 0 V0; mkop KPut 1 V0; mkop KPut 2 V0; mkop KPut 3 V0; mkop KPut 4 V0; mkop KPut 5 V0; mkop KPut 6 V0; mkop KPut 7 V0; mkop KPut 128 V0; mkop KPut 4095 V0; mkop KPut 8191 V0])];
       mkcrec 0 1 [] [(1, [mkop KPut 16384 V0; mkop KPut 16385 V0; mkop KPut 16449 V0; mkop KPut 16511 V0; mkop KPut 32766 V0; mkop KPut 32767 V0])]]);
  StTxn [SDelete 2;
      SInsert 8 [WPut 3 (V4 3212836864); WPut 3 (V4 1065353216)] false;
      SFilter (FWithout 6);
      SInsert 9 [WPut 3 (V4 2143289344); WPut 4 (V8 18446744073709551510)] false;
      SInsert 10 [] false] true
    (mkobs [RBool true; RIns 8 false true; RNone; RIns 9 false true; RIns 10 false true]
      [(2, None); (8, Some ([(3, (V4 1065353216))], [])); (9, Some ([(3, (V4 2143289344)); (4, (V8 18446744073709551510))], [])); (10, Some ([], []))] 19 []
      []
      [mkcrec 0 0 [mkop KDelete 2 V0; mkop KInsert 8 V0; mkop KInsert 9 V0; mkop KInsert 10 V0] [(3, [mkop KPut 8 (V4 3212836864); mkop KPut 8 (V4 1065353216); mkop KPut 9 (V4 2143289344)]); (4, [mkop KPut 9 (V8 18446744073709551510)])]]);
  StDrop 5;
  StTxn [SAt 32766 [WPut 3 (V4 4286578688)];
      SDelete 9;
      SAt 5 [WPut 2 (VB [0])];
      SAt 8 [WPut 2 (VB [])];
      SAt 10 [WBool 1 false; WPut 3 (V4 2147483648); WBool 1 false]] true
    (mkobs [RNone; RBool true; RNone; RNone; RNone]
      [(5, Some ([(1, V0); (2, (VB [0])); (4, (V8 9223372036854775808))], [])); (8, Some ([(2, (VB [])); (3, (V4 1065353216))], [])); (9, None); (10, Some ([(3, (V4 2147483648))], [])); (32766, Some ([(1, V0); (2, (VB [97])); (3, (V4 4286578688)); (4, (V8 9223372036854775807))], []))] 18 []
      []
      [mkcrec 0 0 [mkop KDelete 9 V0] [(1, [mkop KDelete 10 V0; mkop KDelete 10 V0]); (2, [mkop KPut 5 (VB [0]); mkop KPut 8 (VB [])]); (3, [mkop KPut 10 (V4 2147483648)])];
       mkcrec 0 1 [] [(3, [mkop KPut 32766 (V4 4286578688)])]]);
  StTxn [SRead 7 4;
      SInsert 2 [WMerge 2 (VB [0]); WBool 1 true] false;
      SInsert 9 [] true] false
    (mkobs [RVal (Some (V8 9223372036854775808)); RIns 2 false true; RIns 9 true true]
      [] 18 []
      []
      []);
  StTxn [SInsert 2 [WPut 4 (V8 116); WMerge 4 (V8 9223372036854775807); WBool 1 true] false;
      SAt 1 [WPut 3 (V4 3212836864); WMerge 4 (V8 61); WBool 1 false];
      SInsert 9 [WPut 3 (V4 4290847557); WBool 1 false; WMerge 2 (VB [97;98])] false;
      SAt 16384 [WPut 2 (VB [120]); WBool 1 true];
      SInsert 11 [WPut 2 (VB [97;98;99])] false;
      SInsert 12 [] false] true
    (mkobs [RIns 2 false true; RNone; RIns 9 false true; RNone; RIns 11 false true; RIns 12 false true]
      [(1, Some ([(3, (V4 3212836864)); (4, (V8 61))], [])); (2, Some ([(1, V0); (4, (V8 9223372036854775923))], [])); (9, Some ([(2, (VB [97;98])); (3, (V4 4290847557))], [7])); (11, Some ([(2, (VB [97;98;99]))], [])); (12, Some ([], [])); (16384, Some ([(1, V0); (2, (VB [120])); (3, (V4 2143289345)); (4, (V8 18446744073709551615))], []))] 22 []
      []
      [mkcrec 0 0 [mkop KInsert 2 V0; mkop KInsert 9 V0; mkop KInsert 11 V0; mkop KInsert 12 V0] [(1, [mkop KPut 2 V0; mkop KDelete 1 V0; mkop KDelete 9 V0]); (2, [mkop KPut 9 (VB [97;98]); mkop KPut 11 (VB [97;98;99])]); (3, [mkop KPut 1 (V4 3212836864); mkop KPut 9 (V4 4290847557)]); (4, [mkop KPut 2 (V8 116); mkop KPut 2 (V8 9223372036854775923); mkop KPut 1 (V8 61)])];
       mkcrec 0 1 [] [(1, [mkop KPut 16384 V0]); (2, [mkop KPut 16384 (VB [120])])]]);
  StTxn [SAt 16449 [WBool 1 false; WMerge 4 (V8 18446744073709551515); WBool 1 false];
      SAt 4 [WPut 2 (VB []); WBool 1 false; WPut 3 (V4 1092616192)];
      SAt 32767 [WPut 2 (VB [120]); WBool 1 false; WPut 4 (V8 104)]] true
    (mkobs [RNone; RNone; RNone]
      [(4, Some ([(2, (VB [])); (3, (V4 1092616192)); (4, (V8 3962217650667971403))], [])); (16449, Some ([(4, (V8 18446744073709551521))], [])); (32767, Some ([(2, (VB [120])); (3, (V4 2143289345)); (4, (V8 104))], []))] 22 []
      []
      [mkcrec 0 0 [] [(1, [mkop KDelete 4 V0]); (2, [mkop KPut 4 (VB [])]); (3, [mkop KPut 4 (V4 1092616192)])];
       mkcrec 0 1 [] [(1, [mkop KDelete 16449 V0; mkop KDelete 16449 V0; mkop KDelete 32767 V0]); (2, [mkop KPut 32767 (VB [120])]); (4, [mkop KPut 16449 (V8 18446744073709551521); mkop KPut 32767 (V8 104)])]]);
  StTxn [SAt 12 [WPut 4 (V8 18446744073709551606); WPut 4 (V8 9223372036854775807)];
      SInsert 13 [WPut 3 (V4 8388608); WPut 4 (V8 0)] false;
      SAt 4 [WPut 3 (V4 4290847557)];
      SInsert 14 [] false;
      SAt 4 [WPut 3 (V4 4290847557); WMerge 2 (VB [])];
      SAt 16384 [WMerge 4 (V8 18446744073709551543); WBool 1 true; WMerge 4 (V8 109)];
      SInsert 15 [WPut 2 (VB [98])] false] true
    (mkobs [RNone; RIns 13 false true; RNone; RIns 14 false true; RNone; RNone; RIns 15 false true]
      [(4, Some ([(2, (VB [])); (3, (V4 4290847557)); (4, (V8 3962217650667971403))], [])); (12, Some ([(4, (V8 9223372036854775807))], [])); (13, Some ([(3, (V4 8388608)); (4, (V8 0))], [])); (14, Some ([], [])); (15, Some ([(2, (VB [98]))], [])); (16384, Some ([(1, V0); (2, (VB [120])); (3, (V4 2143289345)); (4, (V8 35))], []))] 25 []
      []
      [mkcrec 0 0 [mkop KInsert 13 V0; mkop KInsert 14 V0; mkop KInsert 15 V0] [(2, [mkop KPut 4 (VB []); mkop KPut 15 (VB [98])]); (3, [mkop KPut 13 (V4 8388608); mkop KPut 4 (V4 4290847557); mkop KPut 4 (V4 4290847557)]); (4, [mkop KPut 12 (V8 18446744073709551606); mkop KPut 12 (V8 9223372036854775807); mkop KPut 13 (V8 0)])];
       mkcrec 0 1 [] [(1, [mkop KPut 16384 V0]); (4, [mkop KPut 16384 (V8 18446744073709551542); mkop KPut 16384 (V8 35)])]]);
  StCol 8 (col_num 64 merge_add) false].
Definition M := Eval vm_compute in check_all 0 [history].
Print M.
