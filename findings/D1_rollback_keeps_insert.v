(* D1_rollback_keeps_insert: profile=mix seed=1 case=2; recorded on repo tree e73c6b4f6396c309
   first disagreement at step 7: [('VALS', 0), ('IDX', 0), ('COUNT', 0)] *)
From stdpp Require Import gmap.
From ColumnV Require Import Bytes Store Check.
Local Open Scope N_scope.
Definition history : list step :=
  [StCol 99 (col_num 64 merge_add) false;
  StCol 1 (col_num 32 merge_add) false;
  StCol 2 (col_num 64 merge_add) false;
  StCol 3 (col_num 64 merge_affine) false;
  StCol 4 (col_num 64 merge_add) false;
  StTxn [] true
    (mkobs []
      [] 0 []
      []
      []);
  StTxn [STerm TCount] true
    (mkobs [RCount 0]
      [] 0 []
      []
      []);
  StTxn [SInsert 0 [WPut 1 (V4 2147483648)] false] false
    (mkobs [RIns 0 false true]
      [(0, Some ([], []))] 1 []
      []
      [])].
Definition M := Eval vm_compute in check_all 0 [history].
Print M.
