(* L3 over L2: concurrent writers on the real store model.

   Conc.v shows, for one block and any number of threads, that the block's write latch makes
   (draw id; apply columns and markers; append to recorder and logger) one indivisible step for
   every other thread.  THIS file takes that step as atomic - it IS Store.commit_block, which
   applies a transaction's operations on one block, draws the id and appends the record - and
   lets ANY number of writer threads, each committing its own transaction over ANY number of
   blocks (ascending, one latch at a time: txn.go commit / txn_lock.go rangeWrite), interleave in
   ANY way over ONE shared collection.  A thread: for every dirty block b, in ascending order:
       Lock b  ->  Apply (st := commit_block st txn b)  ->  Unlock b.
   Proved for every reachable state (no bound on threads, blocks, operations or steps):
   [store_is_fold]          the collection is the fold of the block commits in the order they
                            were applied ([trace]);
   [latch_exclusive]        a block's latch has at most one holder, and a block commit happens
                            only under the latch of its block;
   [thread_progress]        every thread applied exactly a prefix of its dirty blocks, each once,
                            in ascending order - nothing is lost, nothing applied twice (C09, C15);
   [cell_is_fold_of_trace]  every cell holds the fold, over the transactions applied to ITS block
                            in apply order, of the operations they queued for it (C09 with data:
                            initial value combined with every committed delta once, in the order
                            the commits were applied to the row's block; C01 under concurrency);
   [stream_is_trace]        the change stream is exactly one record per applied block commit, in
                            apply order, with strictly increasing ids (C15);
   [replica_converges]      a replica that held the same data at the start and is fed the stream
                            in emission order holds the same data as the primary - in EVERY
                            reachable state, hence at every quiescent one (C06, any interleaving).
   Not in this LTS: the reservation of insert offsets before the commit (finding K1: the fill
   list is shared), readers (Conc.v), the snapshot recorder (SnapCut.v). *)
From stdpp Require Import gmap list sorting.
From ColumnV Require Import Bytes Store StoreProofs StoreProofs2 StoreProofs5.
Local Open Scope N_scope.

Record wth := mkw { wtxn : txn; wtodo : list N; whold : option N; wapplied : bool }.

Definition entry := (nat * txn * N)%type.          (* thread, its transaction, block *)
Definition etxn (e : entry) : txn := snd (fst e).
Definition eblk (e : entry) : N := snd e.
Definition etid (e : entry) : nat := fst (fst e).

Record sys := mksys { st : coll; latch : gmap N nat; ths : gmap nat wth; trace : list entry }.

Inductive step : sys → sys → Prop :=
| s_lock s t w b bs :
    ths s !! t = Some w → wtodo w = b :: bs → whold w = None → latch s !! b = None →
    step s (mksys (st s) (<[b := t]> (latch s)) (<[t := mkw (wtxn w) (wtodo w) (Some b) false]> (ths s)) (trace s))
| s_apply s t w b :
    ths s !! t = Some w → whold w = Some b → wapplied w = false →
    step s (mksys (commit_block (st s) (wtxn w) b) (latch s)
                  (<[t := mkw (wtxn w) (wtodo w) (Some b) true]> (ths s)) (trace s ++ [(t, wtxn w, b)]))
| s_unlock s t w b :
    ths s !! t = Some w → whold w = Some b → wapplied w = true →
    step s (mksys (st s) (delete b (latch s)) (<[t := mkw (wtxn w) (tail (wtodo w)) None false]> (ths s)) (trace s)).

Inductive reach (s : sys) : sys → Prop :=
| r_refl : reach s s
| r_step s1 s2 : reach s s1 → step s1 s2 → reach s s2.

Definition init (s0 : coll) (txns : gmap nat txn) : sys :=
  mksys s0 ∅ ((λ t, mkw t (dirty_blocks t) None false) <$> txns) [].

Definition apply_entry (a : coll) (e : entry) : coll := commit_block a (etxn e) (eblk e).

(* ------------------------------------------------------------------------------------- *)
Theorem store_is_fold s0 txns s : reach (init s0 txns) s → st s = foldl apply_entry s0 (trace s).
Proof.
  induction 1 as [|s1 s2 R IH S]; [done|].
  destruct S; cbn [st trace]; try exact IH.
  rewrite foldl_app. cbn [foldl]. rewrite <- IH. reflexivity.
Qed.

(* ------------------------------------------------------------------------------------- *)
(* what a thread has applied so far *)
Definition done_of (w : wth) : list N :=
  take (length (dirty_blocks (wtxn w)) - length (wtodo w)) (dirty_blocks (wtxn w)) ++
  (if wapplied w then match whold w with Some b => [b] | None => [] end else []).

Record Inv (txns : gmap nat txn) (s : sys) : Prop := {
  i_dom : ∀ t, is_Some (ths s !! t) ↔ is_Some (txns !! t);
  i_txn : ∀ t w, ths s !! t = Some w → txns !! t = Some (wtxn w);
  i_suffix : ∀ t w, ths s !! t = Some w → wtodo w `suffix_of` dirty_blocks (wtxn w);
  i_hold : ∀ t w b, ths s !! t = Some w → whold w = Some b → head (wtodo w) = Some b ∧ latch s !! b = Some t;
  i_idle : ∀ t w, ths s !! t = Some w → whold w = None → wapplied w = false;
  i_latch : ∀ b t, latch s !! b = Some t → ∃ w, ths s !! t = Some w ∧ whold w = Some b;
  i_trace : ∀ t w, ths s !! t = Some w →
              filter (λ e, etid e = t) (trace s) = (λ b, (t, wtxn w, b)) <$> done_of w;
  i_foreign : ∀ e, e ∈ trace s → is_Some (txns !! etid e);
}.

Lemma suffix_tail {A} (l k : list A) : l `suffix_of` k → tail l `suffix_of` k.
Proof. intros [p ->]. destruct l as [|x l]; [by exists p|]. exists (p ++ [x]). by rewrite <- app_assoc. Qed.

Lemma take_suffix_snoc {A} (k : list A) b bs :
  (b :: bs) `suffix_of` k → take (length k - length bs) k = take (length k - length (b :: bs)) k ++ [b].
Proof.
  intros [p ->]. rewrite !app_length. cbn [length].
  replace (length p + S (length bs) - length bs)%nat with (S (length p)) by lia.
  replace (length p + S (length bs) - S (length bs))%nat with (length p) by lia.
  rewrite take_app. change (p ++ b :: bs) with (p ++ [b] ++ bs). rewrite app_assoc.
  replace (S (length p)) with (length (p ++ [b])) by (rewrite app_length; cbn; lia).
  by rewrite take_app.
Qed.

Lemma filter_tid_same t (x : txn) (b : N) : filter (λ e : entry, etid e = t) [(t, x, b)] = [(t, x, b)].
Proof. rewrite filter_cons. cbn. by rewrite decide_True by done. Qed.
Lemma filter_tid_other u t (x : txn) (b : N) : u ≠ t → filter (λ e : entry, etid e = u) [(t, x, b)] = [].
Proof. intro H. rewrite filter_cons. cbn. by rewrite decide_False by congruence. Qed.

Lemma inv_init s0 txns : Inv txns (init s0 txns).
Proof.
  constructor; cbn [ths latch trace init].
  - intro t. rewrite lookup_fmap. destruct (txns !! t); cbn; split; intros [? ?]; eauto; done.
  - intros t w H. rewrite lookup_fmap in H. destruct (txns !! t); [|done]. cbn in H. by injection H as <-.
  - intros t w H. rewrite lookup_fmap in H. destruct (txns !! t); [|done]. cbn in H. by injection H as <-.
  - intros t w b H Hh. rewrite lookup_fmap in H. destruct (txns !! t); [|done]. cbn in H. injection H as <-. done.
  - intros t w H _. rewrite lookup_fmap in H. destruct (txns !! t); [|done]. cbn in H. by injection H as <-.
  - intros b t H. done.
  - intros t w H. rewrite lookup_fmap in H. destruct (txns !! t); [|done]. cbn in H. injection H as <-.
    unfold done_of. cbn. rewrite Nat.sub_diag. done.
  - intros e H. by apply elem_of_nil in H.
Qed.

Lemma inv_step txns s s' : Inv txns s → step s s' → Inv txns s'.
Proof.
  intros I S. destruct S as [s t w b bs Ht Htodo Hhold Hfree | s t w b Ht Hhold Happ | s t w b Ht Hhold Happ].
  - (* lock *)
    constructor; cbn [ths latch trace].
    + intro u. destruct (decide (u = t)) as [->|Hne]; [rewrite lookup_insert|rewrite lookup_insert_ne by done]; [|exact (i_dom _ _ I u)].
      split; [intros _|eauto]. apply (i_dom _ _ I). eauto.
    + intros u w' H. destruct (decide (u = t)) as [->|Hne]; [rewrite lookup_insert in H; injection H as <-; exact (i_txn _ _ I t w Ht)|].
      rewrite lookup_insert_ne in H by done. by apply (i_txn _ _ I).
    + intros u w' H. destruct (decide (u = t)) as [->|Hne]; [rewrite lookup_insert in H; injection H as <-; exact (i_suffix _ _ I t w Ht)|].
      rewrite lookup_insert_ne in H by done. by apply (i_suffix _ _ I u).
    + intros u w' b' H Hh. destruct (decide (u = t)) as [->|Hne].
      * rewrite lookup_insert in H. injection H as <-. cbn in Hh. injection Hh as <-. cbn. rewrite Htodo. split; [done|by rewrite lookup_insert].
      * rewrite lookup_insert_ne in H by done. destruct (i_hold _ _ I u w' b' H Hh) as [A B]. split; [done|].
        destruct (decide (b' = b)) as [->|Hb]; [congruence|]. by rewrite lookup_insert_ne.
    + intros u w' H Hn. destruct (decide (u = t)) as [->|Hne]; [rewrite lookup_insert in H; injection H as <-; done|].
      rewrite lookup_insert_ne in H by done. by apply (i_idle _ _ I u).
    + intros b' u H. destruct (decide (b' = b)) as [->|Hb].
      * rewrite lookup_insert in H. injection H as <-. eexists. rewrite lookup_insert. done.
      * rewrite lookup_insert_ne in H by done. destruct (i_latch _ _ I b' u H) as (w' & Hw & Hh).
        destruct (decide (u = t)) as [->|Hne]; [congruence|]. exists w'. by rewrite lookup_insert_ne.
    + intros u w' H. destruct (decide (u = t)) as [->|Hne].
      * rewrite lookup_insert in H. injection H as <-. rewrite (i_trace _ _ I t w Ht). unfold done_of. cbn.
        rewrite (i_idle _ _ I t w Ht Hhold). done.
      * rewrite lookup_insert_ne in H by done. by apply (i_trace _ _ I).
    + apply (i_foreign _ _ I).
  - (* apply *)
    destruct (i_hold _ _ I t w b Ht Hhold) as [Hhead Hl].
    constructor; cbn [ths latch trace].
    + intro u. destruct (decide (u = t)) as [->|Hne]; [rewrite lookup_insert|rewrite lookup_insert_ne by done]; [|exact (i_dom _ _ I u)].
      split; [intros _|eauto]. apply (i_dom _ _ I). eauto.
    + intros u w' H. destruct (decide (u = t)) as [->|Hne]; [rewrite lookup_insert in H; injection H as <-; exact (i_txn _ _ I t w Ht)|].
      rewrite lookup_insert_ne in H by done. by apply (i_txn _ _ I).
    + intros u w' H. destruct (decide (u = t)) as [->|Hne]; [rewrite lookup_insert in H; injection H as <-; exact (i_suffix _ _ I t w Ht)|].
      rewrite lookup_insert_ne in H by done. by apply (i_suffix _ _ I u).
    + intros u w' b' H Hh. destruct (decide (u = t)) as [->|Hne].
      * rewrite lookup_insert in H. injection H as <-. cbn in Hh. injection Hh as <-. done.
      * rewrite lookup_insert_ne in H by done. by apply (i_hold _ _ I u).
    + intros u w' H Hn. destruct (decide (u = t)) as [->|Hne]; [rewrite lookup_insert in H; injection H as <-; done|].
      rewrite lookup_insert_ne in H by done. by apply (i_idle _ _ I u).
    + intros b' u H. destruct (i_latch _ _ I b' u H) as (w' & Hw & Hh).
      destruct (decide (u = t)) as [->|Hne].
      * rewrite Ht in Hw. injection Hw as <-. eexists. rewrite lookup_insert. split; [done|]. cbn. congruence.
      * exists w'. by rewrite lookup_insert_ne.
    + intros u w' H. rewrite filter_app. destruct (decide (u = t)) as [->|Hne].
      * rewrite lookup_insert in H. injection H as <-. rewrite (i_trace _ _ I t w Ht).
        rewrite filter_tid_same. unfold done_of. cbn [wtxn wtodo whold wapplied]. rewrite Hhold, Happ.
        rewrite app_nil_r, fmap_app. done.
      * rewrite lookup_insert_ne in H by done. rewrite filter_tid_other by done. rewrite app_nil_r.
        by apply (i_trace _ _ I).
    + intros e H. apply elem_of_app in H as [H|H]; [by apply (i_foreign _ _ I)|].
      apply elem_of_list_singleton in H as ->. cbn. rewrite <- (i_dom _ _ I). eauto.
  - (* unlock *)
    destruct (i_hold _ _ I t w b Ht Hhold) as [Hhead Hl].
    destruct (wtodo w) as [|b0 bs] eqn:Etodo; [done|]. cbn in Hhead. injection Hhead as ->.
    constructor; cbn [ths latch trace].
    + intro u. destruct (decide (u = t)) as [->|Hne]; [rewrite lookup_insert|rewrite lookup_insert_ne by done]; [|exact (i_dom _ _ I u)].
      split; [intros _|eauto]. apply (i_dom _ _ I). eauto.
    + intros u w' H. destruct (decide (u = t)) as [->|Hne]; [rewrite lookup_insert in H; injection H as <-; exact (i_txn _ _ I t w Ht)|].
      rewrite lookup_insert_ne in H by done. by apply (i_txn _ _ I).
    + intros u w' H. destruct (decide (u = t)) as [->|Hne].
      * rewrite lookup_insert in H. injection H as <-. cbn. pose proof (i_suffix _ _ I t w Ht) as Hs. rewrite Etodo in Hs.
        by apply (suffix_tail (b :: bs)).
      * rewrite lookup_insert_ne in H by done. by apply (i_suffix _ _ I u).
    + intros u w' b' H Hh. destruct (decide (u = t)) as [->|Hne]; [rewrite lookup_insert in H; injection H as <-; done|].
      rewrite lookup_insert_ne in H by done. destruct (i_hold _ _ I u w' b' H Hh) as [A B]. split; [done|].
      destruct (decide (b' = b)) as [->|Hb]; [congruence|]. by rewrite lookup_delete_ne.
    + intros u w' H Hn. destruct (decide (u = t)) as [->|Hne]; [rewrite lookup_insert in H; injection H as <-; done|].
      rewrite lookup_insert_ne in H by done. by apply (i_idle _ _ I u).
    + intros b' u H. destruct (decide (b' = b)) as [->|Hb]; [by rewrite lookup_delete in H|].
      rewrite lookup_delete_ne in H by done. destruct (i_latch _ _ I b' u H) as (w' & Hw & Hh).
      destruct (decide (u = t)) as [->|Hne]; [congruence|]. exists w'. by rewrite lookup_insert_ne.
    + intros u w' H. destruct (decide (u = t)) as [->|Hne].
      * rewrite lookup_insert in H. injection H as <-. rewrite (i_trace _ _ I t w Ht). unfold done_of. cbn.
        rewrite Hhold, Happ, Etodo. cbn [tail]. rewrite app_nil_r. f_equal.
        pose proof (i_suffix _ _ I t w Ht) as Hs. rewrite Etodo in Hs. symmetry. by apply take_suffix_snoc.
      * rewrite lookup_insert_ne in H by done. by apply (i_trace _ _ I).
    + apply (i_foreign _ _ I).
Qed.

Theorem inv_reach s0 txns s : reach (init s0 txns) s → Inv txns s.
Proof. induction 1 as [|s1 s2 R IH S]; [apply inv_init|by eapply inv_step]. Qed.

(* the latch of a block has at most one holder (it is a map), its holder is a thread that is at
   that block, and two threads never hold the same block *)
Theorem latch_exclusive s0 txns s t1 t2 w1 w2 b :
  reach (init s0 txns) s → ths s !! t1 = Some w1 → ths s !! t2 = Some w2 →
  whold w1 = Some b → whold w2 = Some b → t1 = t2.
Proof.
  intros R H1 H2 A B. pose proof (inv_reach _ _ _ R) as I.
  destruct (i_hold _ _ I t1 w1 b H1 A) as [_ L1]. destruct (i_hold _ _ I t2 w2 b H2 B) as [_ L2]. congruence.
Qed.

(* every thread applied exactly a prefix of its dirty blocks, each once, in ascending order *)
Theorem thread_progress s0 txns s t w :
  reach (init s0 txns) s → ths s !! t = Some w →
  ∃ k, eblk <$> filter (λ e, etid e = t) (trace s) = take k (dirty_blocks (wtxn w)) ∧
       Forall (λ e, etxn e = wtxn w) (filter (λ e, etid e = t) (trace s)) ∧
       NoDup (eblk <$> filter (λ e, etid e = t) (trace s)) ∧
       (wtodo w = [] → whold w = None → k = length (dirty_blocks (wtxn w))).
Proof.
  intros R H. pose proof (inv_reach _ _ _ R) as I. rewrite (i_trace _ _ I t w H).
  pose proof (i_suffix _ _ I t w H) as [p Hp].
  assert (Hd : ∃ k, done_of w = take k (dirty_blocks (wtxn w)) ∧ (wtodo w = [] → whold w = None → k = length (dirty_blocks (wtxn w)))).
  { unfold done_of. destruct (wapplied w) eqn:Ea; [|eexists; rewrite app_nil_r; split; [done|]; intros -> _; cbn; lia].
    destruct (whold w) as [b|] eqn:Eh; [|by rewrite (i_idle _ _ I t w H Eh) in Ea].
    destruct (i_hold _ _ I t w b H Eh) as [Hhead _]. destruct (wtodo w) as [|b0 bs] eqn:Et; [done|]. cbn in Hhead. injection Hhead as ->.
    exists (length (dirty_blocks (wtxn w)) - length bs)%nat. split; [|done].
    symmetry. apply take_suffix_snoc. by exists p. }
  destruct Hd as (k & -> & Hk). exists k. rewrite <- list_fmap_compose.
  assert (E : (eblk ∘ (λ b : N, (t, wtxn w, b))) <$> take k (dirty_blocks (wtxn w)) = take k (dirty_blocks (wtxn w))).
  { rewrite <- (list_fmap_id (take k _)) at 2. by apply list_fmap_ext. }
  rewrite E. split; [done|]. split; [apply Forall_fmap, Forall_forall; by intros|]. split; [|exact Hk].
  pose proof (dirty_blocks_spec (wtxn w)) as [Hnd _].
  rewrite <- (take_drop k (dirty_blocks (wtxn w))) in Hnd. by apply NoDup_app in Hnd as [? _].
Qed.

(* ------------------------------------------------------------------------------------- *)
(* C09 / C01 with data: a cell is the fold of the operations queued for it by the transactions
   applied to its block, in apply order *)
Definition block_txns (b : N) (tr : list entry) : list txn := etxn <$> filter (λ e, eblk e = b) tr.

Lemma apply_entries_read tr : ∀ a c col i,
  cols a !! c = Some col →
  read (foldl apply_entry a tr) c i = hist_cell col (read a c i) c i (block_txns (blk i) tr).
Proof.
  induction tr as [|e tr IH]; intros a c col i Hc; [done|].
  cbn [foldl]. unfold apply_entry at 2.
  destruct (commit_block_cols a (etxn e) (eblk e) c col Hc) as (col' & H' & A & B & C & D & Hcell).
  rewrite (IH _ c col' i H'). unfold block_txns. rewrite filter_cons.
  assert (Hr : read (commit_block a (etxn e) (eblk e)) c i = cells col' !! i) by (unfold read; by rewrite H').
  assert (Hr0 : read a c i = cells col !! i) by (unfold read; by rewrite Hc).
  rewrite Hr, Hcell.
  assert (P : ∀ ts v, hist_cell col' v c i ts = hist_cell col v c i ts).
  { induction ts as [|t2 ts IHt]; intro v; [done|]. cbn [hist_cell]. rewrite (cell_final_params col' col) by done. apply IHt. }
  rewrite P. destruct (decide (eblk e = blk i)) as [E|E].
  - rewrite decide_True by done. cbn [fmap list_fmap hist_cell]. by rewrite Hr0.
  - rewrite decide_False by done. by rewrite Hr0.
Qed.

Theorem cell_is_fold_of_trace s0 txns s c col i :
  reach (init s0 txns) s → cols s0 !! c = Some col →
  read (st s) c i = hist_cell col (read s0 c i) c i (block_txns (blk i) (trace s)).
Proof. intros R Hc. rewrite (store_is_fold _ _ _ R). by apply apply_entries_read. Qed.

(* ------------------------------------------------------------------------------------- *)
(* C15 / C06: the stream and the replica *)
Definition all_emit (s0 : coll) (txns : gmap nat txn) : Prop := ∀ t x, txns !! t = Some x → emits s0 x = true.

Fixpoint trace_recs (a : coll) (tr : list entry) : list crec :=
  match tr with [] => [] | e :: r => block_rec a (etxn e) (eblk e) :: trace_recs (apply_entry a e) r end.

Lemma emits_other s t b x : emits (commit_block s t b) x = emits s x.
Proof. unfold emits, has_updates. by rewrite commit_block_dom. Qed.

Lemma emits_fold tr : ∀ a x, emits (foldl apply_entry a tr) x = emits a x.
Proof. induction tr as [|e tr IH]; intros a x; [done|]. cbn [foldl]. rewrite IH. apply emits_other. Qed.

Lemma emitted_fold tr : ∀ a, Forall (λ e, emits a (etxn e) = true) tr →
  emitted (foldl apply_entry a tr) = emitted a ++ trace_recs a tr.
Proof.
  induction tr as [|e tr IH]; intros a Hf; [by rewrite app_nil_r|]. inversion Hf as [|? ? He Hr]; subst.
  cbn [foldl trace_recs]. rewrite IH.
  - unfold apply_entry at 1. rewrite commit_block_emitted, He. by rewrite <- app_assoc.
  - eapply Forall_impl; [exact Hr|]. intros x Hx. cbn in Hx. unfold apply_entry. by rewrite emits_other.
Qed.

Lemma nextid_fold tr : ∀ a, nextid (foldl apply_entry a tr) = nextid a + N.of_nat (length tr).
Proof. induction tr as [|e tr IH]; intro a; [cbn; lia|]. cbn [foldl length]. rewrite IH. unfold apply_entry. cbn [nextid commit_block]. lia. Qed.

Lemma trace_recs_ids tr : ∀ a, rid <$> trace_recs a tr = (λ k, nextid a + N.of_nat k) <$> seq 0 (length tr).
Proof.
  induction tr as [|e tr IH]; intro a; [done|]. cbn [trace_recs length seq fmap list_fmap]. f_equal; [cbn; lia|].
  rewrite IH. rewrite <- (fmap_S_seq 0), <- list_fmap_compose. apply list_fmap_ext. intros _ k _. cbn. unfold apply_entry. cbn [nextid commit_block]. lia.
Qed.

Lemma trace_recs_blocks tr : ∀ a, rblk <$> trace_recs a tr = eblk <$> tr.
Proof. induction tr as [|e tr IH]; intro a; [done|]. cbn. by rewrite IH. Qed.

Lemma trace_emits s0 txns s : all_emit s0 txns → reach (init s0 txns) s → Forall (λ e, emits s0 (etxn e) = true) (trace s).
Proof.
  intros Ha R. pose proof (inv_reach _ _ _ R) as I. clear I.
  induction R as [|s1 s2 R IH S]; [constructor|]. destruct S; cbn [trace]; try exact IH.
  apply Forall_app. split; [exact IH|]. constructor; [|constructor]. cbn.
  pose proof (inv_reach _ _ _ R) as I. eapply Ha. by apply (i_txn _ _ I).
Qed.

(* C15 under any interleaving: one record per applied block commit, in apply order, for the block
   it was applied to, with consecutive - hence distinct and strictly increasing - ids *)
Theorem stream_is_trace s0 txns s :
  all_emit s0 txns → reach (init s0 txns) s →
  ∃ recs, emitted (st s) = emitted s0 ++ recs ∧ recs = trace_recs s0 (trace s) ∧
          rblk <$> recs = eblk <$> trace s ∧
          rid <$> recs = (λ k, nextid s0 + N.of_nat k) <$> seq 0 (length (trace s)).
Proof.
  intros Ha R. exists (trace_recs s0 (trace s)). rewrite (store_is_fold _ _ _ R).
  split; [apply emitted_fold; by eapply trace_emits|]. split; [done|]. split; [apply trace_recs_blocks|apply trace_recs_ids].
Qed.

Lemma quiescent_fold tr : ∀ a, Quiescent a → Quiescent (foldl apply_entry a tr).
Proof. induction tr as [|e tr IH]; intros a Q; [done|]. cbn [foldl]. apply IH. by apply commit_block_quiescent. Qed.

Lemma pk_plain_fold tr : ∀ a, pk_plain a → pk_plain (foldl apply_entry a tr).
Proof. induction tr as [|e tr IH]; intros a Q; [done|]. cbn [foldl]. apply IH. by apply commit_block_pk_plain. Qed.

Lemma replay_trace tr : ∀ r a, same_data r a → Quiescent a → pk_plain a →
  same_data (foldl replay r (trace_recs a tr)) (foldl apply_entry a tr).
Proof.
  induction tr as [|e tr IH]; intros r a Hd Q Hp; [exact Hd|]. cbn [trace_recs foldl].
  apply IH; [by apply replay_block_same_data|by apply commit_block_quiescent|by apply commit_block_pk_plain].
Qed.

(* C06 for any interleaving of concurrent writers: in EVERY reachable state the replica that
   replayed the stream emitted so far, in emission order, holds the primary's data *)
Theorem replica_converges s0 txns r0 s :
  all_emit s0 txns → same_data r0 s0 → Quiescent s0 → pk_plain s0 →
  reach (init s0 txns) s →
  same_data (foldl replay r0 (drop (length (emitted s0)) (emitted (st s)))) (st s).
Proof.
  intros Ha Hd Q Hp R. destruct (stream_is_trace _ _ _ Ha R) as (recs & He & -> & _).
  rewrite He, drop_app. rewrite (store_is_fold _ _ _ R). by apply replay_trace.
Qed.

(* Count stays exact and the key column plain, whatever the interleaving *)
Theorem reach_quiescent s0 txns s : Quiescent s0 → reach (init s0 txns) s → Quiescent (st s).
Proof. intros Q R. rewrite (store_is_fold _ _ _ R). by apply quiescent_fold. Qed.

(* when every thread is finished, every transaction contributed each of its dirty blocks exactly once *)
Definition finished (s : sys) : Prop := ∀ t w, ths s !! t = Some w → wtodo w = [] ∧ whold w = None.

Theorem finished_all_applied s0 txns s t x :
  reach (init s0 txns) s → finished s → txns !! t = Some x →
  eblk <$> filter (λ e, etid e = t) (trace s) = dirty_blocks x.
Proof.
  intros R F Hx. pose proof (inv_reach _ _ _ R) as I.
  destruct (proj2 (i_dom _ _ I t) (ex_intro _ x Hx)) as [w Hw].
  pose proof (i_txn _ _ I t w Hw) as Ht. rewrite Hx in Ht. injection Ht as ->.
  destruct (F t w Hw) as [A B]. destruct (thread_progress _ _ _ t w R Hw) as (k & Hk & _ & _ & Hlen).
  rewrite Hk, (Hlen A B). apply firstn_all.
Qed.

(* ------------------------------------------------------------------------------------- *)
(* the LTS as a function: the next step of thread t, if it has one (schedules are lists of
   thread ids); sound for [step], and some thread can always move until all are finished *)
Definition do_step (s : sys) (t : nat) : option sys :=
  match ths s !! t with
  | None => None
  | Some w =>
    match whold w with
    | None =>
        match wtodo w with
        | [] => None
        | b :: _ => match latch s !! b with
                    | Some _ => None
                    | None => Some (mksys (st s) (<[b := t]> (latch s)) (<[t := mkw (wtxn w) (wtodo w) (Some b) false]> (ths s)) (trace s))
                    end
        end
    | Some b =>
        if wapplied w
        then Some (mksys (st s) (delete b (latch s)) (<[t := mkw (wtxn w) (tail (wtodo w)) None false]> (ths s)) (trace s))
        else Some (mksys (commit_block (st s) (wtxn w) b) (latch s)
                         (<[t := mkw (wtxn w) (wtodo w) (Some b) true]> (ths s)) (trace s ++ [(t, wtxn w, b)]))
    end
  end.

Lemma do_step_sound s t s' : do_step s t = Some s' → step s s'.
Proof.
  unfold do_step. destruct (ths s !! t) as [w|] eqn:Ht; [|done].
  destruct (whold w) as [b|] eqn:Hh.
  - destruct (wapplied w) eqn:Ha; intro E; injection E as <-; [by eapply s_unlock|by eapply s_apply].
  - destruct (wtodo w) as [|b bs] eqn:Et; [done|]. destruct (latch s !! b) eqn:El; [done|].
    intro E. injection E as <-. rewrite <- Et. by eapply s_lock.
Qed.

Fixpoint run (s : sys) (sched : list nat) : option sys :=
  match sched with [] => Some s | t :: r => match do_step s t with Some s' => run s' r | None => None end end.

Lemma run_reach sched : ∀ s0 s s', reach s0 s → run s sched = Some s' → reach s0 s'.
Proof.
  induction sched as [|t r IH]; intros s0 s s' R H; cbn in H; [by injection H as <-|].
  destruct (do_step s t) as [s1|] eqn:E; [|done]. eapply IH; [|exact H]. eapply r_step; [exact R|by eapply do_step_sound].
Qed.

(* no deadlock: while some thread is unfinished, some thread has a step - the holder of a latch
   never waits for anything (one latch at a time), so whoever is blocked is blocked by a thread
   that can move *)
Theorem some_thread_moves s0 txns s t w :
  reach (init s0 txns) s → ths s !! t = Some w → ¬ (wtodo w = [] ∧ whold w = None) →
  ∃ u s', do_step s u = Some s'.
Proof.
  intros R Ht Hn. pose proof (inv_reach _ _ _ R) as I.
  assert (Hholder : ∀ u wu b, ths s !! u = Some wu → whold wu = Some b → ∃ s', do_step s u = Some s').
  { intros u wu b Hu Hb. unfold do_step. rewrite Hu, Hb. destruct (wapplied wu); eauto. }
  destruct (whold w) as [b|] eqn:Hh; [destruct (Hholder t w b Ht Hh) as [s' E]; eauto|].
  destruct (wtodo w) as [|b bs] eqn:Et; [by destruct Hn|].
  destruct (latch s !! b) as [u|] eqn:El.
  - destruct (i_latch _ _ I b u El) as (wu & Hu & Hb). destruct (Hholder u wu b Hu Hb) as [s' E]. eauto.
  - exists t. eexists. unfold do_step. by rewrite Ht, Hh, Et, El.
Qed.
