(* L1: the framing of the s2 / snappy stream format around the state stream and the commit log
   (klauspost/compress s2, framing_format.txt): a stream is a sequence of chunks, each
       type byte, 3-byte little-endian body length, body
   the first being the stream identifier (type 0xff).  What a body decodes to - the block
   decompressor and the CRC of data chunks (types 0x00, 0x01), "nothing" for the identifier,
   padding and skippable chunks, "corrupt" otherwise - is NOT modelled: it is the Section
   variable [body_dec], an arbitrary function of the chunk's own type and body.  The reader
   ([unframe]) consumes chunk after chunk: a clean end at a chunk boundary is [End] (io.EOF), a
   header or body cut short is [Cut] (io.ErrUnexpectedEOF).
   [unframe_prefix]: for EVERY prefix of a well-formed stream the reader delivers the payloads of
   the chunks wholly contained in the prefix, in order, nothing of the chunk that was cut, and
   reports End exactly when the cut is on a chunk boundary.
   [file_prefix_restores] (C13 with the framing inside): for every prefix of a snapshot FILE whose
   chunks carry state stream ++ commit log, restoring what the reader delivers fails or yields the
   complete state and a prefix of the commits.
   The framing model is diffed against the real s2 reader on real snapshot files: chunk
   boundaries, bytes delivered and verdict for cuts (engine wire, tag S2). *)
From Coq Require Import NArith ZArith List Lia Bool.
From Coq Require Import ZifyN ZifyNat ZifyBool.
From ColumnV Require Import Wire WireCommit WireState.
Import ListNotations.
Local Open Scope N_scope.
Ltac Zify.zify_post_hook ::= Z.div_mod_to_equations.

Definition le24 (n : N) : list N := [n mod 256; (n / 256) mod 256; (n / 65536) mod 256].

Lemma le24_value n : n < 2^24 -> n mod 256 + 256 * ((n / 256) mod 256) + 65536 * ((n / 65536) mod 256) = n.
Proof. intro H. change (2^24) with 16777216 in H. lia. Qed.

Inductive status := End | Cut | Corrupt.

Definition wchunk := (N * list N)%type.          (* type byte, body *)
Definition chunk_enc (c : wchunk) : list N := fst c :: le24 (N.of_nat (length (snd c))) ++ snd c.
Definition stream_enc (cs : list wchunk) : list N := concat (map chunk_enc cs).

Section s2.
  Variable body_dec : N -> list N -> option (list N).

  Definition payload (c : wchunk) : list N := match body_dec (fst c) (snd c) with Some p => p | None => [] end.
  Definition payloads (cs : list wchunk) : list N := concat (map payload cs).
  Definition chunk_ok (c : wchunk) : Prop :=
    N.of_nat (length (snd c)) < 2^24 /\ body_dec (fst c) (snd c) <> None.
  (* a reader that has not yet seen the stream identifier refuses anything else *)
  Definition starts_ok (hdr : bool) (cs : list wchunk) : Prop :=
    match cs with [] => True | c :: _ => hdr = true \/ fst c = 255 end.

  Fixpoint unframe (fuel : nat) (hdr : bool) (l : list N) : list N * status :=
    match fuel with
    | O => ([], match l with [] => End | _ => Cut end)
    | S f =>
      match l with
      | [] => ([], End)
      | ty :: l0 :: l1 :: l2 :: rest =>
          if negb hdr && negb (ty =? 255) then ([], Corrupt) else
          match take (N.to_nat (l0 + 256 * l1 + 65536 * l2)) rest with
          | None => ([], Cut)
          | Some (body, rest') =>
              match body_dec ty body with
              | None => ([], Corrupt)
              | Some p => let r := unframe f true rest' in (p ++ fst r, snd r)
              end
          end
      | _ => ([], Cut)
      end
    end.

  Lemma chunk_enc_length c : length (chunk_enc c) = (4 + length (snd c))%nat.
  Proof. unfold chunk_enc, le24. cbn. reflexivity. Qed.

  (* a strict prefix of one chunk: nothing is delivered; End only for the empty prefix *)
  Lemma unframe_short c p fuel hdr :
    chunk_ok c -> (hdr = true \/ fst c = 255) -> strict_prefix p (chunk_enc c) -> (length p <= fuel)%nat ->
    unframe fuel hdr p = ([], if match p with [] => true | _ => false end then End else Cut).
  Proof.
    intros [Hl Hb] Hh (s & Hs & E) Hf. destruct c as [ty body]. unfold chunk_enc, le24 in E. cbn [fst snd app] in *.
    destruct p as [|a p]; [destruct fuel; reflexivity|].
    destruct fuel as [|f]; [cbn in Hf; lia|]. cbn [unframe].
    destruct p as [|b p]; [reflexivity|]. destruct p as [|c p]; [reflexivity|]. destruct p as [|d p]; [reflexivity|].
    cbn in E. injection E as <- <- <- <- E.
    assert (Hty : negb hdr && negb (ty =? 255) = false).
    { destruct Hh as [->| ->]; [reflexivity|]. rewrite N.eqb_refl. now rewrite andb_false_r. }
    rewrite Hty. rewrite le24_value by exact Hl. rewrite Nat2N.id.
    rewrite take_short; [reflexivity|]. rewrite E, app_length. destruct s; [congruence|cbn; lia].
  Qed.

  Theorem unframe_prefix cs : forall p fuel hdr,
    Forall chunk_ok cs -> starts_ok hdr cs -> prefix_of p (stream_enc cs) -> (length p <= fuel)%nat ->
    exists k st, unframe fuel hdr p = (payloads (firstn k cs), st) /\ st <> Corrupt /\
                 (st = End <-> p = stream_enc (firstn k cs)).
  Proof.
    induction cs as [|c cs IH]; intros p fuel hdr Hok Hst Hp Hf.
    - destruct Hp as (s & E). cbn in E. symmetry in E. apply app_eq_nil in E. destruct E as [-> _].
      exists 0%nat, End. split; [destruct fuel; reflexivity|]. split; [discriminate|]. split; reflexivity.
    - inversion Hok as [|? ? Hc Hcs]; subst. cbn [stream_enc map concat] in Hp. fold (stream_enc cs) in Hp.
      cbn [starts_ok] in Hst.
      destruct (prefix_app_cases _ _ _ Hp) as [Hs|(q & -> & Hq)].
      + exists 0%nat. rewrite (unframe_short c p fuel hdr Hc Hst Hs Hf). cbn [firstn payloads stream_enc map concat].
        destruct p as [|x p].
        * exists End. split; [reflexivity|]. split; [discriminate|]. split; reflexivity.
        * exists Cut. split; [reflexivity|]. split; [discriminate|]. split; discriminate.
      + rewrite app_length, chunk_enc_length in Hf.
        destruct fuel as [|f]; [lia|].
        destruct (IH q f true Hcs) as (k & st & Hu & Hne & Hiff).
        { destruct cs; cbn; auto. } { exact Hq. } { lia. }
        exists (S k), st. destruct c as [ty body]. destruct Hc as [Hl Hb]. cbn [fst snd] in *.
        unfold chunk_enc, le24. cbn [fst snd app unframe].
        assert (Hty : negb hdr && negb (ty =? 255) = false).
        { destruct Hst as [->| ->]; [reflexivity|]. rewrite N.eqb_refl. now rewrite andb_false_r. }
        rewrite Hty. rewrite le24_value by exact Hl. rewrite Nat2N.id. rewrite <- ?app_assoc, take_app.
        destruct (body_dec ty body) as [pl|] eqn:D; [|congruence].
        rewrite Hu. cbn [fst snd firstn payloads map concat]. unfold payload at 1. cbn [fst snd]. rewrite D.
        split; [reflexivity|]. split; [exact Hne|].
        cbn [stream_enc map concat]. fold (stream_enc (firstn k cs)). unfold chunk_enc, le24. cbn [fst snd app].
        rewrite Hiff. split; [intros ->; reflexivity|]. intro E.
        injection E as E. rewrite <- ?app_assoc in E. apply app_inv_head in E. exact E.
  Qed.

  Lemma payloads_firstn_prefix k cs : prefix_of (payloads (firstn k cs)) (payloads cs).
  Proof.
    exists (payloads (skipn k cs)). unfold payloads. rewrite <- concat_app, <- map_app. now rewrite firstn_skipn.
  Qed.

  (* the complete stream is delivered completely, with a clean end *)
  Corollary unframe_full cs :
    Forall chunk_ok cs -> starts_ok false cs ->
    unframe (length (stream_enc cs)) false (stream_enc cs) = (payloads cs, End).
  Proof.
    intros Hok Hst.
    assert (G : forall cs hdr fuel, Forall chunk_ok cs -> starts_ok hdr cs -> (length (stream_enc cs) <= fuel)%nat ->
                unframe fuel hdr (stream_enc cs) = (payloads cs, End)).
    { clear. induction cs as [|c cs IH]; intros hdr fuel Hok Hst Hf.
      - destruct fuel; reflexivity.
      - inversion Hok as [|? ? Hc Hcs]; subst. cbn [stream_enc map concat] in *. fold (stream_enc cs) in *.
        rewrite app_length, chunk_enc_length in Hf. destruct fuel as [|f]; [lia|].
        destruct c as [ty body]. destruct Hc as [Hl Hb]. cbn [fst snd starts_ok] in *.
        unfold chunk_enc, le24. cbn [fst snd app unframe].
        assert (Hty : negb hdr && negb (ty =? 255) = false).
        { destruct Hst as [->| ->]; [reflexivity|]. rewrite N.eqb_refl. now rewrite andb_false_r. }
        rewrite Hty. rewrite le24_value by exact Hl. rewrite Nat2N.id. rewrite <- ?app_assoc, take_app.
        destruct (body_dec ty body) as [pl|] eqn:D; [|congruence].
        rewrite (IH true f Hcs); [| destruct cs; cbn; auto | lia].
        cbn [fst snd payloads map concat]. unfold payload at 1. cbn [fst snd]. now rewrite D. }
    apply G; [assumption|assumption|apply le_n].
  Qed.

  (* C13 with the framing inside: a prefix of the FILE *)
  Theorem file_prefix_restores : forall (st : state) (cs : list commit) (chunks : list wchunk) p,
    state_ok st -> Forall commit_ok cs -> Forall chunk_ok chunks -> starts_ok false chunks ->
    payloads chunks = state_enc st ++ log_bytes commit_enc cs ->
    prefix_of p (stream_enc chunks) ->
    let delivered := fst (unframe (length p) false p) in
    restore_bytes state_dec commit_dec delivered = None \/
    exists k, restore_bytes state_dec commit_dec delivered = Some (st, firstn k cs).
  Proof.
    intros st cs chunks p Hst Hcs Hok Hstart Hpay Hp delivered. subst delivered.
    destruct (unframe_prefix chunks p (length p) false Hok Hstart Hp (le_n _)) as (k & s & Hu & _ & _).
    rewrite Hu. cbn [fst]. apply real_restore_prefix; [assumption|assumption|].
    rewrite <- Hpay. apply payloads_firstn_prefix.
  Qed.
End s2.

(* ---- correspondence: real s2 streams ---- *)
Definition bytes_eq (x y : list N) : bool := (length x =? length y)%nat && forallb (fun p => fst p =? snd p) (combine x y).

(* the opaque body decoder, instantiated from what the real reader delivered for each chunk *)
Definition table_dec (table : list (N * list N * list N)) (ty : N) (body : list N) : option (list N) :=
  match find (fun e => (fst (fst e) =? ty) && bytes_eq (snd (fst e)) body) table with
  | Some e => Some (snd e)
  | None => None end.

Definition status_code (s : status) : N := match s with End => 0 | Cut => 1 | Corrupt => 2 end.

(* 1 = the file is not the framing of the chunks the harness parsed; 2 = the model delivers something
   else than the real reader for the complete file (payload [full], clean end); 3 = for a cut the
   number of bytes delivered or the verdict differs from the real reader's *)
Definition s2_check (file : list N) (table : list (N * list N * list N)) (full : list N) (cuts : list (nat * (nat * N))) : list N :=
  let chunks := map fst table in
  (if bytes_eq (stream_enc chunks) file then [] else [1]) ++
  (match unframe (table_dec table) (length file) false file with
   | (pl, End) => if bytes_eq pl full then [] else [2]
   | _ => [2] end) ++
  (if forallb (fun c : nat * (nat * N) =>
       let r := unframe (table_dec table) (length file) false (firstn (fst c) file) in
       bytes_eq (fst r) (firstn (fst (snd c)) full) && (status_code (snd r) =? snd (snd c))) cuts then [] else [3]).

Fixpoint s2_mismatches (n : N) (cases : list (list N * list (N * list N * list N) * list N * list (nat * (nat * N)))) : list (N * N) :=
  match cases with
  | [] => []
  | (file, table, full, cuts) :: rest => map (fun t => (n, t)) (s2_check file table full cuts) ++ s2_mismatches (n + 1) rest
  end.
