(* Snapshot as a state machine over a destination writer that may fail (snapshot.go:60-90 after
   the D9/D22 repair): install the recorder, write the state (any number of write calls), uninstall
   the recorder, copy the recorded log (more write calls), close and remove the temporary file.
   The writer's behaviour is an arbitrary list of outcomes (true = the call fails). *)
From Coq Require Import List Bool.
Import ListNotations.

Record cstate := mkc { recording : bool; tmp_open : nat (* temporary log files open *) }.

Inductive result := ROk | RErr.

(* the sequence of write calls stops at the first failure *)
Fixpoint first_failure (outcomes : list bool) : bool :=
  match outcomes with [] => false | o :: r => o || first_failure r end.

(* Snapshot: returns the result and the collection's recorder state afterwards; [state_writes]
   are the outcomes of the calls made while writing the state, [copy_writes] while copying *)
Definition snapshot (c : cstate) (state_writes copy_writes : list bool) : result * cstate :=
  if recording c then (RErr, c)                       (* another snapshot in progress: refused, nothing changes *)
  else
    let c1 := mkc true (S (tmp_open c)) in            (* recorderOpen *)
    if first_failure state_writes
    then (RErr, mkc false (tmp_open c))               (* deferred: release recorder, close, remove *)
    else
      let c2 := mkc false (tmp_open c1) in            (* recorderClose *)
      if first_failure copy_writes
      then (RErr, mkc false (tmp_open c))
      else (ROk, mkc false (tmp_open c)).

Definition idle (c : cstate) : Prop := recording c = false.

(* C14: whatever the writer does, Snapshot reports an error exactly when a write failed, the
   recorder is uninstalled and no temporary file stays open *)
Theorem snapshot_fail_safe c sw cw :
  idle c ->
  let '(r, c') := snapshot c sw cw in
  idle c' /\ tmp_open c' = tmp_open c /\
  (r = RErr <-> first_failure sw = true \/ first_failure cw = true /\ first_failure sw = false).
Proof.
  unfold idle, snapshot. intros ->. destruct (first_failure sw) eqn:E1.
  - cbn. split; [reflexivity|]. split; [reflexivity|]. split; [intros _; now left|reflexivity].
  - destruct (first_failure cw) eqn:E2; cbn; (split; [reflexivity|]); (split; [reflexivity|]); split.
    + intros _. right. now split.
    + reflexivity.
    + intros H; discriminate.
    + intros [H|[H _]]; discriminate.
Qed.

(* by induction: any sequence of failed and successful snapshots leaves the collection idle *)
Fixpoint snapshots (c : cstate) (runs : list (list bool * list bool)) : cstate :=
  match runs with [] => c | (sw, cw) :: r => snapshots (snd (snapshot c sw cw)) r end.

Theorem snapshots_stay_idle c runs : idle c -> idle (snapshots c runs) /\ tmp_open (snapshots c runs) = tmp_open c.
Proof.
  revert c. induction runs as [|[sw cw] r IH]; intros c Hc; [now split|].
  cbn [snapshots]. pose proof (snapshot_fail_safe c sw cw Hc) as H.
  destruct (snapshot c sw cw) as [res c'] eqn:E. cbn [snd]. destruct H as (H1 & H2 & _).
  destruct (IH c' H1) as [A B]. split; [exact A|congruence].
Qed.

(* correspondence: the harness reports (a write failed, Snapshot returned an error, recorder still
   installed afterwards) for every fault plan; the model says (f, f, false) *)
Definition snap_mismatches (cases : list (bool * bool * bool)) : list nat :=
  let fix go (n : nat) (l : list (bool * bool * bool)) : list nat :=
    match l with
    | [] => []
    | (failed, err, rec) :: r =>
        let '(res, c') := snapshot (mkc false 0) [failed] [] in
        let merr := match res with RErr => true | ROk => false end in
        (if Bool.eqb merr err && Bool.eqb (recording c') rec then [] else [n]) ++ go (S n) r
    end in go 0 cases.
