(* C12 at the level of the collection: the key table stays the inverse of the key column across
   the commit of a block. *)
From stdpp Require Import gmap sorting.
From ColumnV Require Import GenConsts Bytes Store StoreProofs StoreProofs3 StoreProofs4 StoreProofs5.
Local Open Scope N_scope.

Definition KeyOK (s : coll) : Prop :=
  ∀ p col, pk s = Some p → cols s !! p = Some col →
    cmerges col = false ∧ (∀ v, ccast col v = v) ∧ KeyBij (cells col) (keys s).

(* the key table tracks the cells exactly as a non-merging column applies them *)
Lemma key_fold_cells col ops keys :
  cmerges col = false → (∀ v, ccast col v = v) →
  fst (foldl key_step (cells col, keys) ops) = cells (fst (col_apply col ops)).
Proof.
  revert col keys. induction ops as [|o r IH]; intros col keys M Hid; [done|].
  cbn [foldl col_apply]. destruct (col_step col o) as [c1 o'] eqn:E1.
  destruct (col_apply c1 r) as [c2 r'] eqn:E2. cbn [fst].
  assert (M1 : cmerges c1 = false).
  { pose proof (col_step_params col o) as P. rewrite E1 in P. cbn in P. destruct P as (-> & _). exact M. }
  assert (Hid1 : ∀ v, ccast c1 v = v).
  { pose proof (col_step_params col o) as P. rewrite E1 in P. cbn in P. destruct P as (_ & _ & _ & ->). exact Hid. }
  assert (Hc1 : fst (key_step (cells col, keys) o) = cells c1).
  { unfold col_step in E1. injection E1 as <- _. unfold key_step, cell_step; cbn [set_cells cells fst]. rewrite M, ?Hid.
    destruct (ok o); cbn [fst]; try done;
      (destruct (cells col !! ooff o) as [v|] eqn:Ev; [by rewrite insert_id|by rewrite delete_notin]). }
  destruct (key_step (cells col, keys) o) as [cs' keys'] eqn:Ek. cbn [fst] in Hc1. subst cs'.
  specialize (IH c1 keys' M1 Hid1). rewrite E2 in IH. exact IH.
Qed.

(* one block: admissible key operations (no put gives a row a key another row holds, evaluated in
   the state each operation meets) keep the bijection *)
Theorem commit_block_key_ok s t b p col :
  KeyOK s → pk s = Some p → cols s !! p = Some col →
  key_ops_ok (cells col) (keys s) (filter (λ o, in_blk b o = true) (buf t p)) →
  wf_row t →
  KeyOK (commit_block s t b).
Proof.
  intros Hk Hp Hc Hops Hr p' col' Hp' Hc'. rewrite cb_pk in Hp'. rewrite Hp in Hp'. injection Hp' as <-.
  destruct (Hk p col Hp Hc) as (M & Hid & HB).
  set (ops := filter (λ o, in_blk b o = true) (buf t p)) in *.
  (* after the column's own operations *)
  pose proof (key_apply_bij ops (cells col) (keys s) HB Hops) as HB1.
  rewrite (key_fold_cells col ops (keys s) M Hid) in HB1.
  (* the column as commit_block computes it *)
  assert (Hcol1 : ((fst <$> cb_upd s t b) : gmap N column) !! p = Some (fst (col_apply col ops))).
  { unfold cb_upd. by rewrite lookup_fmap, map_lookup_imap, Hc. }
  destruct (col_apply_params col ops) as (A1 & A2 & A3 & A4).
  (* then the markers: deletes only, always admissible *)
  assert (Hm : ∀ cs ks l, Forall (λ o, ok o = KInsert ∨ ok o = KDelete) l → key_ops_ok cs ks l).
  { intros cs ks l. revert cs ks. induction l as [|o r IH]; intros cs ks Hf; [done|]. inversion Hf as [|? ? Ho Hr']; subst.
    cbn [key_ops_ok]. split; [unfold key_op_ok; destruct Ho as [-> | ->]; done|]. by apply IH. }
  assert (Hmarks : Forall (λ o, ok o = KInsert ∨ ok o = KDelete) (marks_block t b)).
  { unfold marks_block. apply Forall_forall. intros o [_ Ho]%elem_of_list_filter. unfold wf_row in Hr. rewrite Forall_forall in Hr. by apply Hr. }
  pose proof (key_apply_bij (marks_block t b) _ _ HB1 (Hm _ _ _ Hmarks)) as HB2.
  rewrite (key_fold_cells (fst (col_apply col ops)) (marks_block t b) _ ltac:(by rewrite A1) ltac:(by rewrite A4)) in HB2.
  (* assemble *)
  rewrite cb_cols in Hc'. rewrite lookup_fmap, Hcol1 in Hc'. cbn in Hc'. injection Hc' as <-.
  destruct (col_apply_params (fst (col_apply col ops)) (marks_block t b)) as (B1 & _ & _ & B4).
  split; [by rewrite B1, A1|]. split; [by rewrite B4, A4|].
  rewrite cb_keys, Hp, Hcol1. unfold cb_keys1. rewrite Hp, Hc. exact HB2.
Qed.
