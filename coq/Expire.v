(* C17: the decision the background cleanup makes (column_expire.go vacuum), over the Store model.
   The clock is an explicit argument.  One pass = a transaction that selects the rows holding a
   value in the expire column and deletes those whose non-zero deadline lies before [now]. *)
From stdpp Require Import gmap sorting.
From ColumnV Require Import GenConsts Bytes Store StoreProofs Check.
Local Open Scope N_scope.

Definition expire_col : N := 99.

Definition deadline (s : coll) (i : N) : option Z :=
  match read s expire_col i with Some v => Some (signed_view v) | None => None end.

(* rwTTL.ExpiresAt: ok && expireAt != 0; vacuum deletes when now.After(expiresAt) *)
Definition expired (now : Z) (s : coll) (i : N) : bool :=
  match deadline s i with Some d => negb (d =? 0)%Z && (d <? now)%Z | None => false end.

Definition victims (now : Z) (s : coll) : list N :=
  filter (λ i, expired now s i = true) (sorted_elems (fill s)).

Definition vacuum_txn (now : Z) (s : coll) : txn :=
  mktxn None ∅ ((λ i, mkop KDelete i V0) <$> victims now s) [].

Definition vacuum (now : Z) (s : coll) : coll := commit s (vacuum_txn now s).

Lemma sorted_elems_spec (X : gset N) : NoDup (sorted_elems X) ∧ ∀ i, i ∈ sorted_elems X ↔ i ∈ X.
Proof.
  unfold sorted_elems. split.
  - rewrite merge_sort_Permutation. apply NoDup_elements.
  - intro i. by rewrite merge_sort_Permutation, elem_of_elements.
Qed.

Lemma marks_at (l : list N) i :
  NoDup l →
  filter (λ o, ooff o = i) ((λ j, mkop KDelete j V0) <$> l) = if decide (i ∈ l) then [mkop KDelete i V0] else [].
Proof.
  induction l as [|x l IH]; intro ND; [done|]. apply NoDup_cons in ND as [Hx ND]. cbn [fmap list_fmap].
  destruct (decide (x = i)) as [->|NE].
  - rewrite filter_cons_True by done. rewrite IH by done. rewrite decide_False by done.
    rewrite decide_True by (by left). done.
  - rewrite filter_cons_False by done. rewrite IH by done.
    destruct (decide (i ∈ l)); [rewrite decide_True by (by right)|rewrite decide_False by (intros [?|?]%elem_of_cons; done)]; done.
Qed.

(* C17, one pass: a row is removed iff it holds a non-zero deadline that lies before now *)
Theorem vacuum_fill now s i :
  i ∈ fill (vacuum now s) ↔ i ∈ fill s ∧ expired now s i = false.
Proof.
  unfold vacuum. pose proof (commit_fill s (vacuum_txn now s) i) as H. cbn [trow vacuum_txn] in H.
  destruct (sorted_elems_spec (fill s)) as [ND Hin].
  assert (NDv : NoDup (victims now s)) by (by apply NoDup_filter).
  rewrite (marks_at _ i NDv) in H.
  destruct (decide (i ∈ victims now s)) as [Hv|Hnv].
  - cbn in H. apply bool_decide_eq_false in H. apply elem_of_list_filter in Hv as [He _].
    split; [done|]. intros [_ He']. congruence.
  - cbn in H. split.
    + intro Hi. assert (Hf : i ∈ fill s).
      { destruct (decide (i ∈ fill s)); [done|]. rewrite (bool_decide_eq_false_2 _ n) in H. by apply bool_decide_eq_false in H. }
      split; [done|]. destruct (expired now s i) eqn:E; [|done]. exfalso. apply Hnv.
      apply elem_of_list_filter. split; [done|by apply Hin].
    + intros [Hf _]. rewrite (bool_decide_eq_true_2 _ Hf) in H. by apply bool_decide_eq_true in H.
Qed.

(* the values of the surviving rows, deadlines included, are untouched *)
Theorem vacuum_keeps_values now s c col i :
  cols s !! c = Some col → expired now s i = false → read (vacuum now s) c i = read s c i.
Proof.
  intros Hc He. unfold vacuum. rewrite (commit_read s _ c col i Hc).
  cbn [vacuum_txn trow]. unfold buf; cbn [tbufs vacuum_txn]. rewrite lookup_empty. cbn [default]. rewrite filter_nil. cbn [foldl cell_final].
  destruct (sorted_elems_spec (fill s)) as [ND Hin].
  assert (NDv : NoDup (victims now s)) by (by apply NoDup_filter).
  rewrite (marks_at _ i NDv).
  rewrite decide_False; [done|]. intros [He' _]%elem_of_list_filter. congruence.
Qed.

Corollary vacuum_keeps_deadline now s i :
  is_Some (cols s !! expire_col) → expired now s i = false → deadline (vacuum now s) i = deadline s i.
Proof. intros [col Hc] He. unfold deadline. by rewrite (vacuum_keeps_values now s _ col i Hc He). Qed.

(* any number of passes: rows without a deadline, with deadline 0, or with a deadline not before
   the latest pass survive all of them *)
Fixpoint passes (nows : list Z) (s : coll) : coll :=
  match nows with [] => s | n :: r => passes r (vacuum n s) end.

Theorem never_expires_early nows s i :
  is_Some (cols s !! expire_col) → i ∈ fill s →
  (∀ n, n ∈ nows → expired n s i = false) →
  i ∈ fill (passes nows s).
Proof.
  revert s. induction nows as [|n r IH]; intros s Hc Hi Hn; [done|]. cbn [passes].
  assert (He : expired n s i = false) by (apply Hn; by left).
  apply IH.
  - destruct Hc as [col Hc]. destruct (commit_col_params s (vacuum_txn n s) _ col Hc) as (c' & H' & _). by exists c'.
  - apply vacuum_fill. done.
  - intros m Hm. unfold expired. rewrite (vacuum_keeps_deadline n s i Hc He). apply Hn. by right.
Qed.

Corollary no_ttl_never_expires nows s i :
  is_Some (cols s !! expire_col) → i ∈ fill s → (deadline s i = None ∨ deadline s i = Some 0%Z) → i ∈ fill (passes nows s).
Proof.
  intros Hc Hi Hd. apply never_expires_early; [done|done|]. intros n _. unfold expired. by destruct Hd as [-> | ->].
Qed.

Corollary future_deadline_survives nows s i d :
  is_Some (cols s !! expire_col) → i ∈ fill s → deadline s i = Some d → (∀ n, n ∈ nows → (n <= d)%Z) → i ∈ fill (passes nows s).
Proof.
  intros Hc Hi Hd Hn. apply never_expires_early; [done|done|]. intros n Hin. unfold expired. rewrite Hd.
  specialize (Hn n Hin). destruct (d =? 0)%Z; cbn; [done|]. apply Z.ltb_ge. lia.
Qed.

(* and an expired row is gone after the first pass that starts after its deadline *)
Theorem expired_is_removed now s i d :
  deadline s i = Some d → d ≠ 0%Z → (d < now)%Z → i ∉ fill (vacuum now s).
Proof.
  intros Hd Hz Hlt [_ He]%vacuum_fill. unfold expired in He. rewrite Hd in He.
  apply Z.eqb_neq in Hz. apply Z.ltb_lt in Hlt. rewrite Hz, Hlt in He. done.
Qed.

(* ---- Set / Extend (column_expire.go rwTTL.Set = put of now+ttl, rwTTL.Extend = additive merge) ----
   the deadline cell after the operations one transaction issues on a row, in issue order: a Set
   replaces it, every Extend adds its delta to whatever the cell holds at that point - so two Extends
   add both deltas and an Extend after a Set adds to the new deadline *)
Inductive ttl_op := TSet (deadline : N) | TExtend (delta : N).
Definition ttl_to_op (i : N) (o : ttl_op) : op :=
  match o with TSet d => mkop KPut i (V8 d) | TExtend a => mkop KMerge i (V8 a) end.
Definition ttl_step (d : N) (o : ttl_op) : N :=
  match o with TSet x => x | TExtend a => (d + a) mod 2 ^ 64 end.
Definition ttl_col : column := col_num 64 merge_add.

Theorem ttl_ops_fold i (l : list ttl_op) (d : N) :
  foldl (cstep ttl_col) (Some (V8 d)) (ttl_to_op i <$> l) = Some (V8 (foldl ttl_step d l)).
Proof.
  revert d; induction l as [|o l IH]; intro d; [done|]. cbn [fmap list_fmap foldl].
  destruct o as [x|a]; cbn [ttl_to_op ttl_step]; unfold cstep at 2, cell_step; cbn [ok oval ttl_col col_num cmerges cmrg czero ccast default id].
  - apply IH.
  - unfold merge_add. cbn [width_bits raw mkw]. change (64 =? 16) with false. change (64 =? 32) with false. cbn iota. apply IH.
Qed.

Corollary extend_twice i d a b :
  foldl (cstep ttl_col) (Some (V8 d)) [ttl_to_op i (TExtend a); ttl_to_op i (TExtend b)] = Some (V8 (((d + a) mod 2 ^ 64 + b) mod 2 ^ 64)).
Proof. exact (ttl_ops_fold i [TExtend a; TExtend b] d). Qed.

Corollary set_then_extend i d x a :
  foldl (cstep ttl_col) (Some (V8 d)) [ttl_to_op i (TSet x); ttl_to_op i (TExtend a)] = Some (V8 ((x + a) mod 2 ^ 64)).
Proof. exact (ttl_ops_fold i [TSet x; TExtend a] d). Qed.
