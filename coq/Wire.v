(* L1: prefix-safe parsers for the on-disk formats (iostream uvarint, length-prefixed bytes,
   sequencing) and the commit-log prefix theorem. *)
From Coq Require Import NArith ZArith List Lia Bool.
From Coq Require Import ZifyN ZifyNat ZifyBool.
Import ListNotations.
Local Open Scope N_scope.
Ltac Zify.zify_post_hook ::= Z.div_mod_to_equations.

Inductive res (A : Type) := Ok (a : A) (rest : list N) | Short | Bad.
Arguments Ok {A}. Arguments Short {A}. Arguments Bad {A}.
Definition parser A := list N -> res A.

Definition prefix_of {A} (p l : list A) := exists s, l = p ++ s.
Definition strict_prefix {A} (p l : list A) := exists s, s <> [] /\ l = p ++ s.

(* an encoder/decoder pair is "prefix safe" when decoding a complete encoding followed by anything
   succeeds with the rest untouched, and decoding any strict prefix of an encoding reports Short *)
Record safe {A} (enc : A -> list N) (dec : parser A) (ok : A -> Prop) : Prop := {
  s_full  : forall x rest, ok x -> dec (enc x ++ rest) = Ok x rest;
  s_short : forall x p, ok x -> strict_prefix p (enc x) -> dec p = Short }.

(* ---- uvarint (binary.PutUvarint / ReadUvarint), values < 2^64 ---- *)
Fixpoint uv_enc (fuel : nat) (x : N) : list N :=
  match fuel with
  | O => [x mod 128]
  | S f => if x <? 128 then [x] else (x mod 128 + 128) :: uv_enc f (x / 128)
  end.
Fixpoint uv_dec (fuel : nat) (l : list N) : res N :=
  match l with
  | [] => Short
  | b :: r =>
    if b <? 128 then Ok b r
    else match fuel with
         | O => Bad
         | S f => match uv_dec f r with
                  | Ok v rest => Ok (b mod 128 + 128 * v) rest
                  | Short => Short | Bad => Bad end
         end
  end.

Lemma uv_full fuel x rest : x < 128 ^ N.of_nat (S fuel) -> uv_dec fuel (uv_enc fuel x ++ rest) = Ok x rest.
Proof.
  revert x. induction fuel as [|f IH]; intros x Hx.
  - cbn in *. replace (x mod 128) with x by lia. replace (x <? 128) with true by lia. reflexivity.
  - cbn [uv_enc]. destruct (x <? 128) eqn:E.
    + cbn. rewrite E. reflexivity.
    + cbn [app uv_dec]. replace (x mod 128 + 128 <? 128) with false by lia.
      rewrite IH.
      * f_equal. lia.
      * rewrite Nat2N.inj_succ, N.pow_succ_r' in Hx. apply N.div_lt_upper_bound; lia.
Qed.

Lemma uv_short fuel x p : x < 128 ^ N.of_nat (S fuel) -> strict_prefix p (uv_enc fuel x) -> uv_dec fuel p = Short.
Proof.
  revert x p. induction fuel as [|f IH]; intros x p Hx (s & Hs & E).
  - cbn in E. destruct p as [|a p]; [reflexivity|]. cbn in E. injection E as _ E.
    destruct p; [destruct s; [congruence|discriminate]|discriminate].
  - cbn [uv_enc] in E. destruct (x <? 128) eqn:E1.
    + destruct p as [|a p]; [reflexivity|]. cbn in E. injection E as _ E.
      destruct p; [destruct s; [congruence|discriminate]|discriminate].
    + destruct p as [|a p]; [reflexivity|]. cbn in E. injection E as Ea E. subst a.
      cbn [uv_dec]. replace (x mod 128 + 128 <? 128) with false by lia.
      rewrite (IH (x / 128) p); [reflexivity| |exists s; split; assumption].
      rewrite Nat2N.inj_succ, N.pow_succ_r' in Hx. apply N.div_lt_upper_bound; lia.
Qed.

Definition uv64_enc := uv_enc 9.
Definition uv64_dec := uv_dec 9.
Lemma uv64_safe : safe uv64_enc uv64_dec (fun x => x < 2^64).
Proof.
  split; intros; [apply uv_full|eapply uv_short; [|eassumption]];
    (eapply N.lt_le_trans; [eassumption|]); vm_compute; discriminate.
Qed.

(* ---- sequencing: a pair encoded as enc1 a ++ enc2 b ---- *)
Definition bind {A B} (p : parser A) (q : A -> parser B) : parser (A * B) := fun l =>
  match p l with
  | Ok a r => match q a r with Ok b r' => Ok (a, b) r' | Short => Short | Bad => Bad end
  | Short => Short | Bad => Bad end.

Lemma strict_prefix_app_cases {A} (p a b : list A) :
  strict_prefix p (a ++ b) -> strict_prefix p a \/ (exists q, p = a ++ q /\ strict_prefix q b).
Proof.
  revert a. induction p as [|x p IH]; intros a (s & Hs & E).
  - destruct a as [|y a].
    + right. exists []. split; [reflexivity|]. exists s. cbn in *. split; [assumption|assumption].
    + left. exists (y :: a). split; [discriminate|reflexivity].
  - destruct a as [|y a].
    + right. exists (x :: p). split; [reflexivity|]. exists s. split; assumption.
    + cbn in E. injection E as -> E.
      destruct (IH a (ex_intro _ s (conj Hs E))) as [(s' & Hs' & E')|(q & -> & Hq)].
      * left. exists s'. split; [assumption|]. cbn. rewrite E'. reflexivity.
      * right. exists q. split; [reflexivity|assumption].
Qed.

Lemma safe_bind {A B} e1 d1 ok1 (e2 : A -> B -> list N) d2 ok2 :
  safe e1 d1 ok1 -> (forall a, ok1 a -> safe (e2 a) (d2 a) (ok2 a)) ->
  safe (fun ab : A * B => e1 (fst ab) ++ e2 (fst ab) (snd ab)) (bind d1 d2) (fun ab => ok1 (fst ab) /\ ok2 (fst ab) (snd ab)).
Proof.
  intros S1 S2. split.
  - intros [a b] rest [Ha Hb]. cbn [fst snd]. unfold bind. rewrite <- app_assoc.
    rewrite (s_full _ _ _ S1) by assumption. rewrite (s_full _ _ _ (S2 a Ha)) by assumption. reflexivity.
  - intros [a b] p [Ha Hb] Hp. cbn [fst snd] in *. unfold bind.
    destruct (strict_prefix_app_cases _ _ _ Hp) as [H1|(q & -> & Hq)].
    + rewrite (s_short _ _ _ S1 a p Ha H1). reflexivity.
    + rewrite (s_full _ _ _ S1) by assumption. rewrite (s_short _ _ _ (S2 a Ha) b q Hb Hq). reflexivity.
Qed.

(* ---- length-prefixed bytes (iostream WriteBytes / ReadBytes: uvarint length, then the payload) ---- *)
Fixpoint take (n : nat) (l : list N) : option (list N * list N) :=
  match n with
  | O => Some ([], l)
  | S n' => match l with x :: r => match take n' r with Some (a, b) => Some (x :: a, b) | None => None end | [] => None end
  end.
Lemma take_app a b : take (length a) (a ++ b) = Some (a, b).
Proof. induction a; simpl; auto. now rewrite IHa. Qed.
Lemma take_short n p : (length p < n)%nat -> take n p = None.
Proof.
  revert p; induction n as [|n IH]; intros p H; [lia|]. destruct p as [|x p]; [reflexivity|].
  cbn in *. rewrite IH by lia. reflexivity.
Qed.

Definition bytes_enc (b : list N) : list N := uv64_enc (N.of_nat (length b)) ++ b.
Definition bytes_dec : parser (list N) := fun l =>
  match uv64_dec l with
  | Ok n r => match take (N.to_nat n) r with Some (a, rest) => Ok a rest | None => Short end
  | Short => Short | Bad => Bad end.

Lemma bytes_safe : safe bytes_enc bytes_dec (fun b => N.of_nat (length b) < 2^64).
Proof.
  destruct uv64_safe as [Uf Us]. split.
  - intros b rest Hb. unfold bytes_enc, bytes_dec. rewrite <- app_assoc, Uf by exact Hb.
    now rewrite Nat2N.id, take_app.
  - intros b p Hb Hp. unfold bytes_enc in Hp. unfold bytes_dec.
    destruct (strict_prefix_app_cases _ _ _ Hp) as [H1|(q & -> & (s & Hs & E))].
    + now rewrite (Us _ p Hb H1).
    + rewrite Uf by exact Hb. rewrite Nat2N.id. rewrite take_short; [reflexivity|].
      rewrite E, app_length. destruct s; [congruence|cbn; lia].
Qed.

(* ---- a log: frames one after the other; reading a prefix delivers a prefix of the frames ---- *)
Section log.
  Context {A : Type} (enc : A -> list N) (dec : parser A) (ok : A -> Prop).
  Hypothesis Hsafe : safe enc dec ok.
  Hypothesis nonempty : forall x, enc x <> [].

  (* Log.Range: decode frame after frame; stop at the first frame that is not complete *)
  Fixpoint range_log (fuel : nat) (l : list N) : list A :=
    match fuel with
    | O => []
    | S f => match l with
             | [] => []
             | _ => match dec l with Ok x rest => x :: range_log f rest | _ => [] end
             end
    end.

  Definition log_bytes (xs : list A) : list N := concat (map enc xs).

  Lemma prefix_app_cases (p a b : list N) :
    prefix_of p (a ++ b) -> strict_prefix p a \/ exists q, p = a ++ q /\ prefix_of q b.
  Proof.
    revert a. induction p as [|x p IH]; intros a (s & E).
    - destruct a as [|y a]; [right; exists []; split; [reflexivity|exists s; exact E]|left; exists (y :: a); split; [discriminate|reflexivity]].
    - destruct a as [|y a].
      + right. exists (x :: p). split; [reflexivity|exists s; exact E].
      + cbn in E. injection E as -> E. destruct (IH a (ex_intro _ s E)) as [(s' & Hs' & E')|(q & -> & Hq)].
        * left. exists s'. split; [assumption|cbn; now rewrite E'].
        * right. exists q. split; [reflexivity|assumption].
  Qed.

  (* C13, log part: whatever prefix of the log survives a crash, ranging over it delivers a prefix
     of the commits that were appended, each whole and in order *)
  Theorem range_log_prefix xs p fuel :
    Forall ok xs -> prefix_of p (log_bytes xs) -> (length p <= fuel)%nat ->
    exists k, range_log fuel p = firstn k xs.
  Proof.
    revert p fuel. induction xs as [|x xs IH]; intros p fuel Hok Hp Hf.
    - destruct Hp as (s & E). cbn in E. symmetry in E. apply app_eq_nil in E. destruct E as [-> _].
      exists 0%nat. destruct fuel; reflexivity.
    - inversion Hok as [|? ? Hx Hxs]; subst. cbn [log_bytes map concat] in Hp.
      destruct (prefix_app_cases _ _ _ Hp) as [Hs|(q & -> & Hq)].
      + exists 0%nat. destruct fuel; [reflexivity|]. cbn. destruct p; [reflexivity|].
        now rewrite (s_short _ _ _ Hsafe x _ Hx Hs).
      + assert (Hlen : (length q < length (enc x ++ q))%nat).
        { rewrite app_length. pose proof (nonempty x). destruct (enc x); [congruence|cbn; lia]. }
        destruct fuel as [|f]; [lia|].
        assert (Hq' : (length q <= f)%nat) by lia.
        cbn [range_log]. destruct (enc x ++ q) eqn:E.
        { apply app_eq_nil in E. destruct E as [E _]. now apply nonempty in E. }
        rewrite <- E. rewrite (s_full _ _ _ Hsafe x q Hx).
        destruct (IH q f Hxs Hq Hq') as (k & Hk).
        exists (S k). cbn. now rewrite Hk.
  Qed.
End log.

(* the frame of a commit as far as it is modelled: chunk and id as uvarints, the updates as one
   length-prefixed payload (their inner structure is L0's and is opaque here) *)
Definition frame := (N * (N * list N))%type.
Definition frame_enc (f : frame) : list N := uv64_enc (fst f) ++ (uv64_enc (fst (snd f)) ++ bytes_enc (snd (snd f))).
Definition frame_dec : parser frame := bind uv64_dec (fun _ => bind uv64_dec (fun _ => bytes_dec)).
Definition frame_ok (f : frame) : Prop := fst f < 2^64 /\ (fst (snd f) < 2^64 /\ N.of_nat (length (snd (snd f))) < 2^64).

Lemma frame_safe : safe frame_enc frame_dec frame_ok.
Proof.
  apply (safe_bind uv64_enc uv64_dec (fun x => x < 2^64)
           (fun _ (b : N * list N) => uv64_enc (fst b) ++ bytes_enc (snd b))
           (fun _ => bind uv64_dec (fun _ => bytes_dec))
           (fun _ b => fst b < 2^64 /\ N.of_nat (length (snd b)) < 2^64)).
  - exact uv64_safe.
  - intros a Ha. apply (safe_bind uv64_enc uv64_dec (fun x => x < 2^64) (fun _ b => bytes_enc b) (fun _ => bytes_dec)
                          (fun _ b => N.of_nat (length b) < 2^64)).
    + exact uv64_safe.
    + intros. exact bytes_safe.
Qed.

Lemma frame_nonempty f : frame_enc f <> [].
Proof. unfold frame_enc, uv64_enc. destruct f as [c r]. cbn [fst]. unfold uv_enc. destruct (c <? 128); discriminate. Qed.

Theorem commit_log_prefix : forall (fs : list frame) p,
  Forall frame_ok fs -> prefix_of p (log_bytes frame_enc fs) ->
  exists k, range_log frame_dec (length p) p = firstn k fs.
Proof. intros. eapply range_log_prefix; eauto using frame_safe, frame_nonempty. Qed.

(* ---- a snapshot file: the state stream followed by the commit log ---- *)
Section restore.
  Context {St A : Type} (enc_s : St -> list N) (dec_s : parser St) (ok_s : St -> Prop)
          (enc : A -> list N) (dec : parser A) (ok : A -> Prop).
  Hypothesis Hs : safe enc_s dec_s ok_s.
  Hypothesis Hc : safe enc dec ok.
  Hypothesis nonempty : forall x, enc x <> [].

  (* Restore: read the state; then replay the commits that can be read from what follows *)
  Definition restore_bytes (l : list N) : option (St * list A) :=
    match dec_s l with
    | Ok st rest => Some (st, range_log dec (length rest) rest)
    | _ => None
    end.

  (* C13: for every prefix of a snapshot file, Restore either fails or yields the complete state
     plus a prefix of the logged commits, each whole and in order *)
  Theorem restore_prefix st xs p :
    ok_s st -> Forall ok xs -> prefix_of p (enc_s st ++ log_bytes enc xs) ->
    restore_bytes p = None \/ exists k, restore_bytes p = Some (st, firstn k xs).
  Proof.
    intros Hst Hxs Hp. unfold restore_bytes.
    destruct (prefix_app_cases p (enc_s st) (log_bytes enc xs) Hp) as [Hshort|(q & -> & Hq)].
    - left. now rewrite (s_short _ _ _ Hs st p Hst Hshort).
    - right. rewrite (s_full _ _ _ Hs st q Hst).
      destruct (range_log_prefix enc dec ok Hc nonempty xs q (length q) Hxs Hq (le_n _)) as (k & Hk).
      exists k. now rewrite Hk.
  Qed.
End restore.
