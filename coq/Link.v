(* Links between the layers and to the regenerated structural facts.
   L0 -> L2: the op list L2 takes as "the operations queued for block b" is what L0's reader
   decodes from the bytes L0's writer produced.
   Shape: the order of the steps inside the commit closure, as the source has it now. *)
From stdpp Require Import gmap.
From ColumnV Require Import GenConsts GenShape Bytes Ops Buffer Store.
Local Open Scope N_scope.

(* the model's two notions of "block of an offset" come from two constants of the source *)
Lemma chunk_sizes_agree : c_txn_lock_chunkSize = c_commit_commit_chunkSize.
Proof. reflexivity. Qed.

Lemma in_blk_is_chunk_of b o : in_blk b o = (chunk_of (ooff o) =? b).
Proof. unfold in_blk, blk, chunk_of. by rewrite chunk_sizes_agree. Qed.

Lemma stdpp_filter_is_list_filter {A} (f : A → bool) (l : list A) :
  filter (λ x, f x = true) l = List.filter f l.
Proof.
  induction l as [|x l IH]; [done|]. cbn [List.filter]. destruct (f x) eqn:E.
  - rewrite filter_cons_True by done. by rewrite IH.
  - rewrite filter_cons_False by (by rewrite E). exact IH.
Qed.

(* what commit_block reads for block b from a column's queued ops IS what the byte-level reader
   returns for block b of the byte-level buffer those ops were written to *)
Theorem block_ops_via_codec ops b :
  Forall wf_op ops →
  filter (λ o, in_blk b o = true) ops = range (fold_left put ops empty) b.
Proof.
  intro Hwf. rewrite (range_put_all ops b Hwf). rewrite stdpp_filter_is_list_filter.
  (* the two predicates are the same function, by the equality of the two regenerated constants *)
  induction ops as [|o r IH]; [done|]. cbn [List.filter]. rewrite in_blk_is_chunk_of.
  inversion Hwf; subst. by rewrite IH.
Qed.

(* structural facts regenerated from the source *)
Theorem shape_facts :
  shape_updates_before_markers = true ∧ shape_appends_after_apply_inside_latch = true ∧
  shape_id_drawn_under_latch = true ∧ shape_callback_under_latch = true ∧
  shape_numeric_apply_loops_identical = true.
Proof. repeat split; reflexivity. Qed.
