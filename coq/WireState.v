(* L1: the snapshot's state stream exactly as snapshot.go writeState / readState lay it out
   (before s2):  uvarint version (= 1), uvarint number of buffers per block, then - counted by a
   uvarint (iostream WriteRange / ReadRange) - one section per 16K block: uvarint id of the last
   commit applied to the block, followed by exactly that number of serialized buffers
   (Buffer.WriteTo, WireCommit.wbuffer): the insert markers of the fill list, then one buffer per
   column.  The number of buffers is NOT repeated per block: the reader trusts the header, so a
   state is well formed only if every block carries exactly the announced number of buffers
   ([state_ok]) - the obligation writeState has towards readState.
   [state_safe]: the pair is prefix safe; [real_restore_prefix]: C13 for the real state and commit
   layouts; [state_bad_version], [state_count_matters]: the two ways a stream is refused or
   misread.  The encoder is diffed byte for byte against real (s2-decoded) snapshots and the
   decoder against what the real Buffer.ReadFrom reads from them (engine wire, tag STATE). *)
From Coq Require Import NArith ZArith List Lia Bool.
From Coq Require Import ZifyN ZifyNat ZifyBool.
From ColumnV Require Import Wire WireCommit.
Import ListNotations.
Local Open Scope N_scope.

(* ---- repetition with a count known from elsewhere ---- *)
Section fixed.
  Context {A : Type} (enc : A -> list N) (dec : parser A) (ok : A -> Prop).
  Hypothesis Hs : safe enc dec ok.

  Definition fixed_enc (xs : list A) : list N := concat (map enc xs).

  Lemma fixed_safe n : safe fixed_enc (rep_dec dec n) (fun xs => length xs = n /\ Forall ok xs).
  Proof.
    split.
    - intros xs rest [<- Hf]. now apply (rep_full enc dec ok Hs).
    - intros xs p [<- Hf] Hp. now apply (rep_short enc dec ok Hs).
  Qed.
End fixed.

Definition schunk := (N * list wbuffer)%type.          (* last commit id, buffers *)
Definition state := (N * list schunk)%type.            (* buffers per block, blocks *)

Definition schunk_enc : schunk -> list N := pair_enc uv64_enc (fixed_enc wbuffer_enc).
Definition schunk_dec (cols : N) : parser schunk := pair_dec uv64_dec (rep_dec wbuffer_dec (N.to_nat cols)).
Definition schunk_ok (cols : N) (c : schunk) := fst c < 2^64 /\ (length (snd c) = N.to_nat cols /\ Forall wbuffer_ok (snd c)).

Lemma schunk_safe cols : safe schunk_enc (schunk_dec cols) (schunk_ok cols).
Proof.
  exact (pair_safe uv64_enc uv64_dec (fun x => x < 2^64) (fixed_enc wbuffer_enc) (rep_dec wbuffer_dec (N.to_nat cols))
           (fun xs => length xs = N.to_nat cols /\ Forall wbuffer_ok xs)
           uv64_safe (fixed_safe wbuffer_enc wbuffer_dec wbuffer_ok wbuffer_safe (N.to_nat cols))).
Qed.

Definition version : N := 1.

Definition body_enc (st : state) : list N := uv64_enc (fst st) ++ many_enc schunk_enc (snd st).
Definition body_dec : parser state := bind uv64_dec (fun cols => many_dec (schunk_dec cols)).
Definition body_ok (st : state) := fst st < 2^64 /\ (N.of_nat (length (snd st)) < 2^64 /\ Forall (schunk_ok (fst st)) (snd st)).

Lemma body_safe : safe body_enc body_dec body_ok.
Proof.
  apply (safe_bind uv64_enc uv64_dec (fun x => x < 2^64)
           (fun _ cs => many_enc schunk_enc cs) (fun cols => many_dec (schunk_dec cols))
           (fun cols cs => N.of_nat (length cs) < 2^64 /\ Forall (schunk_ok cols) cs)).
  - exact uv64_safe.
  - intros cols _. exact (many_safe schunk_enc (schunk_dec cols) (schunk_ok cols) (schunk_safe cols)).
Qed.

Definition state_enc (st : state) : list N := uv64_enc version ++ body_enc st.
Definition state_dec : parser state := fun l =>
  match uv64_dec l with
  | Ok v r => if v =? version then body_dec r else Bad
  | Short => Short | Bad => Bad end.
Definition state_ok := body_ok.

Theorem state_safe : safe state_enc state_dec state_ok.
Proof.
  destruct uv64_safe as [Uf Us]. destruct body_safe as [Bf Bs]. split.
  - intros st rest Hst. unfold state_enc, state_dec. rewrite <- app_assoc, Uf by (unfold version; lia).
    rewrite N.eqb_refl. now apply Bf.
  - intros st p Hst Hp. unfold state_enc in Hp. unfold state_dec.
    destruct (strict_prefix_app_cases _ _ _ Hp) as [H1|(q & -> & Hq)].
    + rewrite (Us version p); [reflexivity|unfold version; lia|exact H1].
    + rewrite Uf by (unfold version; lia). rewrite N.eqb_refl. now apply (Bs st).
Qed.

(* a stream that announces another version is refused, whatever follows *)
Lemma state_bad_version v rest : v < 2^64 -> v <> version -> state_dec (uv64_enc v ++ rest) = Bad.
Proof.
  intros Hv Hne. unfold state_dec. destruct uv64_safe as [Uf _]. rewrite Uf by exact Hv.
  destruct (v =? version) eqn:E; [apply N.eqb_eq in E; contradiction|reflexivity].
Qed.

(* C13 with nothing left abstract but s2: for every prefix of (state stream ++ commit log), both
   laid out as the code lays them out, Restore fails or yields the complete state and a prefix of
   the logged commits, each whole and in order *)
Theorem real_restore_prefix : forall (st : state) (cs : list commit) p,
  state_ok st -> Forall commit_ok cs ->
  prefix_of p (state_enc st ++ log_bytes commit_enc cs) ->
  restore_bytes state_dec commit_dec p = None \/
  exists k, restore_bytes state_dec commit_dec p = Some (st, firstn k cs).
Proof.
  intros st cs p Hst Hcs Hp.
  exact (restore_prefix state_enc state_dec state_ok commit_enc commit_dec commit_ok
           state_safe commit_safe commit_nonempty st cs p Hst Hcs Hp).
Qed.

(* a complete log is ranged over completely *)
Section full.
  Context {A : Type} (enc : A -> list N) (dec : parser A) (ok : A -> Prop).
  Hypothesis Hsafe : safe enc dec ok.
  Hypothesis nonempty : forall x, enc x <> [].

  Lemma range_log_full xs fuel :
    Forall ok xs -> (length (log_bytes enc xs) <= fuel)%nat -> range_log dec fuel (log_bytes enc xs) = xs.
  Proof.
    revert fuel. induction xs as [|x xs IH]; intros fuel Hok Hf.
    - destruct fuel; reflexivity.
    - inversion Hok as [|? ? Hx Hxs]; subst. cbn [log_bytes map concat] in *. fold (log_bytes enc xs) in *.
      rewrite app_length in Hf. pose proof (nonempty x) as Hn.
      destruct fuel as [|f]; [destruct (enc x); [congruence|cbn in Hf; lia]|].
      cbn [range_log]. destruct (enc x ++ log_bytes enc xs) eqn:E.
      { apply app_eq_nil in E. destruct E as [E _]. contradiction. }
      rewrite <- E. rewrite (s_full _ _ _ Hsafe x _ Hx). f_equal. apply IH; [assumption|].
      destruct (enc x); [congruence|cbn in Hf; lia].
  Qed.
End full.

(* the complete file restores to exactly what was written *)
Theorem real_restore_full : forall (st : state) (cs : list commit),
  state_ok st -> Forall commit_ok cs ->
  restore_bytes state_dec commit_dec (state_enc st ++ log_bytes commit_enc cs) = Some (st, cs).
Proof.
  intros st cs Hst Hcs. unfold restore_bytes. rewrite (s_full _ _ _ state_safe st _ Hst).
  now rewrite (range_log_full commit_enc commit_dec commit_ok commit_safe commit_nonempty cs _ Hcs (le_n _)).
Qed.

(* the announced number of buffers matters: a block that carries one buffer more than announced
   makes the reader take that buffer for the next block's commit id (here: a stream the writer could
   produce if it counted its buffers wrongly is refused or misread, never silently accepted as the
   state that was written) *)
Example state_count_matters :
  let b : wbuffer := ([], (0, ([], []))) in
  let st : state := (1, [(7, [b; b])]) in
  ~ state_ok st /\ state_dec (state_enc st) <> Ok st [].
Proof.
  cbn zeta. split.
  - intros (_ & _ & H). inversion H as [|? ? (_ & Hl & _) _]; subst. cbn in Hl. discriminate.
  - vm_compute. discriminate.
Qed.

(* ---- correspondence: the real (s2-decoded) state stream against this layout ---- *)
Definition wbuffer_eqb (a b : wbuffer) : bool :=
  let leqb := fun (x y : list N) => (length x =? length y)%nat && forallb (fun p => fst p =? snd p) (combine x y) in
  leqb (fst a) (fst b) && (fst (snd a) =? fst (snd b)) &&
  ((length (fst (snd (snd a))) =? length (fst (snd (snd b))))%nat &&
   forallb (fun p : bheader * bheader => (fst (fst p) =? fst (snd p)) && (fst (snd (fst p)) =? fst (snd (snd p))) && (snd (snd (fst p)) =? snd (snd (snd p))))
           (combine (fst (snd (snd a))) (fst (snd (snd b))))) &&
  leqb (snd (snd (snd a))) (snd (snd (snd b))).

Definition schunk_eqb (a b : schunk) : bool :=
  (fst a =? fst b) && (length (snd a) =? length (snd b))%nat && forallb (fun p => wbuffer_eqb (fst p) (snd p)) (combine (snd a) (snd b)).

Definition state_eqb (a b : state) : bool :=
  (fst a =? fst b) && (length (snd a) =? length (snd b))%nat && forallb (fun p => schunk_eqb (fst p) (snd p)) (combine (snd a) (snd b)).

Definition bytes_eqb (x y : list N) : bool := (length x =? length y)%nat && forallb (fun p => fst p =? snd p) (combine x y).

Definition commits_eqb (a b : list commit) : bool :=
  (length a =? length b)%nat && forallb (fun p => commit_eqb (fst p) (snd p)) (combine a b).

(* a snapshot file with s2 removed: the state stream [sbytes], the recorded commits [lbytes]
   1 = the model's encoding of the parsed state differs from the real bytes; 2 = the model's decoder
   reads something else from the real bytes (or leaves a rest); 3 = a strict prefix of the state is
   not Short; 4 = the announced count is not what every block carries; 5 = the recorded commits'
   bytes differ from the model's log layout; 6 = the complete stream does not restore to (state,
   commits); 7 = a prefix restores to something that is not (state, a prefix of the commits), or a
   prefix that ends inside the state restores at all *)
Definition state_check (st : state) (cs : list commit) (sbytes lbytes : list N) (cuts : list nat) : list N :=
  (if bytes_eqb (state_enc st) sbytes then [] else [1]) ++
  (match state_dec sbytes with Ok st' [] => if state_eqb st st' then [] else [2] | _ => [2] end) ++
  (if forallb (fun k => match state_dec (firstn k sbytes) with Short => true | _ => (length sbytes <=? k)%nat end) cuts then [] else [3]) ++
  (if forallb (fun c : schunk => (length (snd c) =? N.to_nat (fst st))%nat) (snd st) then [] else [4]) ++
  (if bytes_eqb (log_bytes commit_enc cs) lbytes then [] else [5]) ++
  (match restore_bytes state_dec commit_dec (sbytes ++ lbytes) with
   | Some (st', cs') => if state_eqb st st' && commits_eqb cs cs' then [] else [6]
   | None => [6] end) ++
  (if forallb (fun k => match restore_bytes state_dec commit_dec (firstn k (sbytes ++ lbytes)) with
                        | None => (k <? length sbytes)%nat
                        | Some (st', cs') => (length sbytes <=? k)%nat && state_eqb st st' && commits_eqb (firstn (length cs') cs) cs'
                        end) cuts then [] else [7]).

Fixpoint state_mismatches (n : N) (cases : list (state * list commit * list N * list N * list nat)) : list (N * N) :=
  match cases with
  | [] => []
  | (st, cs, sbytes, lbytes, cuts) :: rest => map (fun t => (n, t)) (state_check st cs sbytes lbytes cuts) ++ state_mismatches (n + 1) rest
  end.
