(* Word-level model of Collection.findFreeIndex (collection.go:106) and of bitmap.MinZero, and the
   theorem that the offset it returns is not occupied.  The fill list is a list of 64-bit words. *)
From Coq Require Import NArith List Lia Bool Utf8.
From Coq Require Import ZifyN ZifyNat ZifyBool.
Import ListNotations.
Local Open Scope N_scope.

Definition full : N := N.ones 64.

(* bits.TrailingZeros64(^w): index of the lowest zero bit *)
Fixpoint lz (fuel : nat) (k : N) (w : N) : N :=
  match fuel with O => k | S f => if N.testbit w k then lz f (k + 1) w else k end.
Definition lowest_zero (w : N) : N := lz 64 0 w.

(* bitmap.MinZero: first zero bit of the first word that is not full *)
Fixpoint min_zero (ws : list N) (base : N) : option N :=
  match ws with
  | [] => None
  | w :: r => if w =? full then min_zero r (base + 64) else Some (base + lowest_zero w)
  end.

Definition find_free (ws : list N) (count : N) : N :=
  let size := N.of_nat (length ws) in
  if size * 64 <? count then size * 64
  else
    let tailAt := (count - 1) / 64 in
    let scan := match min_zero ws 0 with Some i => i | None => 0 end in
    if tailAt <? size then
      let tail := nth (N.to_nat tailAt) ws 0 in
      if tail =? full then scan else tailAt * 64 + lowest_zero tail
    else scan.

Definition contains (ws : list N) (i : N) : bool := N.testbit (nth (N.to_nat (i / 64)) ws 0) (i mod 64).

(* ---- lowest zero bit ---- *)
Lemma lz_spec fuel k w :
  (∀ j, j < k → N.testbit w j = true) →
  (∃ j, k <= j < k + N.of_nat fuel ∧ N.testbit w j = false) →
  N.testbit w (lz fuel k w) = false ∧ k <= lz fuel k w < k + N.of_nat fuel.
Proof.
  revert k. induction fuel as [|f IH]; intros k Hlow (j & Hj & Hb); [lia|].
  cbn [lz]. destruct (N.testbit w k) eqn:E.
  - destruct (IH (k + 1)) as [A B].
    + intros i Hi. destruct (N.eq_dec i k) as [->|]; [exact E|apply Hlow; lia].
    + exists j. split; [|exact Hb]. assert (j <> k) by (intros ->; congruence). lia.
    + split; [exact A|lia].
  - split; [exact E|lia].
Qed.

Lemma not_full_has_zero w : w < 2 ^ 64 → w <> full → ∃ j, j < 64 ∧ N.testbit w j = false.
Proof.
  intros Hw Hne.
  destruct (forallb (fun j => N.testbit w (N.of_nat j)) (seq 0 64)) eqn:A.
  - exfalso. apply Hne. apply N.bits_inj. intro k. unfold full.
    destruct (N.lt_ge_cases k 64) as [Hk|Hk].
    + rewrite N.ones_spec_low by exact Hk. rewrite forallb_forall in A.
      specialize (A (N.to_nat k)). rewrite N2Nat.id in A. apply A. apply in_seq. lia.
    + rewrite N.ones_spec_high by exact Hk.
      destruct (N.eq_dec w 0) as [->|Hz]; [apply N.bits_0|].
      apply N.bits_above_log2. apply N.log2_lt_pow2 in Hw; lia.
  - assert (E : existsb (fun j => negb (N.testbit w (N.of_nat j))) (seq 0 64) = true).
    { clear -A. induction (seq 0 64) as [|x l IH]; [discriminate|]. cbn in *.
      destruct (N.testbit w (N.of_nat x)); cbn in *; [auto|reflexivity]. }
    apply existsb_exists in E. destruct E as (j & Hj & Hb). apply in_seq in Hj.
    exists (N.of_nat j). split; [lia|]. now apply negb_true_iff in Hb.
Qed.

Lemma lowest_zero_spec w : w < 2 ^ 64 → w <> full → N.testbit w (lowest_zero w) = false ∧ lowest_zero w < 64.
Proof.
  intros Hw Hne. destruct (not_full_has_zero w Hw Hne) as (j & Hj & Hb).
  destruct (lz_spec 64 0 w) as [A B]; [intros i Hi; lia|exists j; split; [lia|exact Hb]|].
  split; [exact A|]. unfold lowest_zero. lia.
Qed.

(* ---- MinZero ---- *)
Lemma min_zero_spec ws base n :
  Forall (fun w => w < 2 ^ 64) ws → base = 64 * n →
  match min_zero ws base with
  | Some i => ∃ k w, nth_error ws k = Some w ∧ i = 64 * (n + N.of_nat k) + lowest_zero w ∧ w <> full
  | None => Forall (fun w => w = full) ws
  end.
Proof.
  intros Hf. revert base n. induction Hf as [|w r Hw Hr IH]; intros base n Hb; cbn [min_zero]; [constructor|].
  destruct (w =? full) eqn:E.
  - apply N.eqb_eq in E. specialize (IH (base + 64) (n + 1)). destruct (min_zero r (base + 64)).
    + destruct IH as (k & w' & Hk & Hi & Hne); [lia|]. exists (S k), w'. split; [exact Hk|]. split; [lia|exact Hne].
    + constructor; [exact E|apply IH; lia].
  - apply N.eqb_neq in E. exists 0%nat, w. split; [reflexivity|]. split; [lia|exact E].
Qed.

Lemma contains_at ws k w j :
  nth_error ws k = Some w → j < 64 → contains ws (64 * N.of_nat k + j) = N.testbit w j.
Proof.
  intros Hn Hj. unfold contains.
  replace ((64 * N.of_nat k + j) / 64) with (N.of_nat k) by lia.
  replace ((64 * N.of_nat k + j) mod 64) with j by lia.
  rewrite Nat2N.id. now rewrite (nth_error_nth _ _ 0 Hn).
Qed.

(* C11 (a): the offset handed out by findFreeIndex is not occupied.  [Exists (<> full)] is what
   "count exceeds the number of occupied offsets" gives when count <= 64 * len (see below). *)
Theorem find_free_fresh ws count :
  Forall (fun w => w < 2 ^ 64) ws → 1 <= count →
  (count <= 64 * N.of_nat (length ws) → Exists (fun w => w <> full) ws) →
  contains ws (find_free ws count) = false.
Proof.
  intros Hf Hc Hroom. unfold find_free.
  destruct (N.of_nat (length ws) * 64 <? count) eqn:E1.
  - (* beyond the end *)
    unfold contains. replace (N.of_nat (length ws) * 64 / 64) with (N.of_nat (length ws)) by lia.
    rewrite Nat2N.id, nth_overflow by lia. apply N.bits_0.
  - apply N.ltb_ge in E1.
    assert (Hscan : contains ws (match min_zero ws 0 with Some i => i | None => 0 end) = false).
    { pose proof (min_zero_spec ws 0 0 Hf eq_refl) as M. destruct (min_zero ws 0) as [i|].
      - destruct M as (k & w & Hk & -> & Hne).
        assert (Hw : w < 2 ^ 64).
        { rewrite Forall_forall in Hf. apply Hf. eapply nth_error_In; eauto. }
        destruct (lowest_zero_spec w Hw Hne) as [A B].
        replace (64 * (0 + N.of_nat k)) with (64 * N.of_nat k) by lia.
        rewrite (contains_at ws k w _ Hk B). exact A.
      - exfalso. specialize (Hroom ltac:(lia)). apply Exists_exists in Hroom. destruct Hroom as (w & Hin & Hne).
        rewrite Forall_forall in M. auto. }
    destruct ((count - 1) / 64 <? N.of_nat (length ws)) eqn:E2; [|exact Hscan].
    apply N.ltb_lt in E2.
    destruct (nth_error ws (N.to_nat ((count - 1) / 64))) as [tail|] eqn:En.
    2:{ apply nth_error_None in En. lia. }
    rewrite (nth_error_nth _ _ 0 En).
    destruct (tail =? full) eqn:E3; [exact Hscan|]. apply N.eqb_neq in E3.
    assert (Hw : tail < 2 ^ 64).
    { rewrite Forall_forall in Hf. apply Hf. eapply nth_error_In; eauto. }
    destruct (lowest_zero_spec tail Hw E3) as [A B].
    replace ((count - 1) / 64 * 64) with (64 * N.of_nat (N.to_nat ((count - 1) / 64))) by lia.
    rewrite (contains_at ws _ tail _ En B). exact A.
Qed.

(* the number of occupied offsets; count > occupied means some word has room when count fits *)
Definition popcount (w : N) : N := N.of_nat (length (filter (fun j => N.testbit w (N.of_nat j)) (seq 0 64))).
Definition occupied (ws : list N) : N := fold_right (fun w acc => popcount w + acc) 0 ws.

Lemma popcount_full : popcount full = 64. Proof. reflexivity. Qed.

Lemma occupied_all_full ws : Forall (fun w => w = full) ws → occupied ws = 64 * N.of_nat (length ws).
Proof.
  induction 1 as [|w r -> Hr IH]; [reflexivity|]. cbn [occupied fold_right length].
  fold (occupied r). rewrite IH, popcount_full. lia.
Qed.

Theorem room_from_count ws count :
  occupied ws < count → count <= 64 * N.of_nat (length ws) → Exists (fun w => w <> full) ws.
Proof.
  intros Ho Hc. destruct (Forall_Exists_dec (fun w => w = full) (fun w => N.eq_dec w full) ws) as [Hall|Hex].
  - rewrite (occupied_all_full ws Hall) in Ho. lia.
  - exact Hex.
Qed.

Theorem find_free_fresh_count ws count :
  Forall (fun w => w < 2 ^ 64) ws → occupied ws < count → contains ws (find_free ws count) = false.
Proof.
  intros Hf Ho. apply find_free_fresh; [exact Hf|lia|]. intro Hc. eapply room_from_count; eauto.
Qed.

(* correspondence: the harness records (fill words, count, offset returned by the real code) *)
Definition alloc_mismatches (cases : list (list N * N * N)) : list N :=
  let fix go (n : N) (l : list (list N * N * N)) : list N :=
    match l with
    | [] => []
    | (ws, c, r) :: rest => (if find_free ws c =? r then [] else [n]) ++ go (n + 1) rest
    end in go 0 cases.
