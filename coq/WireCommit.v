(* L1, the commit frame as commit/commit.go WriteTo / ReadFrom lay it out (iostream primitives):
     uvarint chunk, uvarint id, uvarint #updates, then per update:
     string column, uvarint #shards, per shard (uint32 value, uint32 offset, little endian),
     uvarint total, total payload bytes.
   The encoder is diffed byte for byte against the real Commit.WriteTo; the decoder is proved
   prefix-safe, so the log / restore prefix theorems of Wire.v hold of real commit frames. *)
From Coq Require Import NArith ZArith List Lia Bool.
From Coq Require Import ZifyN ZifyNat ZifyBool.
From ColumnV Require Import Wire.
Import ListNotations.
Local Open Scope N_scope.
Ltac Zify.zify_post_hook ::= Z.div_mod_to_equations.

(* ---- fixed-width little-endian uint32 ---- *)
Definition le32 (x : N) : list N := [x mod 256; (x / 256) mod 256; (x / 65536) mod 256; (x / 16777216) mod 256].
Definition le32_dec : parser N := fun l =>
  match l with
  | a :: b :: c :: d :: rest => Ok (a + 256 * b + 65536 * c + 16777216 * d) rest
  | _ => Short
  end.
Lemma le32_safe : safe le32 le32_dec (fun x => x < 2^32).
Proof.
  split.
  - intros x rest Hx. unfold le32, le32_dec. cbn [app]. f_equal. change (2^32) with 4294967296 in Hx. lia.
  - intros x p Hx (s & Hs & E). unfold le32 in E.
    destruct p as [|a [|b [|c [|d p]]]]; try reflexivity.
    cbn in E. injection E as _ _ _ _ E. destruct p; [destruct s; [congruence|discriminate]|discriminate].
Qed.

(* ---- a pair: first then second (non-dependent) ---- *)
Definition pair_enc {A B} (e1 : A -> list N) (e2 : B -> list N) (p : A * B) : list N := e1 (fst p) ++ e2 (snd p).
Definition pair_dec {A B} (d1 : parser A) (d2 : parser B) : parser (A * B) := bind d1 (fun _ => d2).
Lemma pair_safe {A B} e1 d1 ok1 (e2 : B -> list N) d2 ok2 :
  safe e1 d1 ok1 -> safe e2 d2 ok2 ->
  safe (@pair_enc A B e1 e2) (pair_dec d1 d2) (fun p => ok1 (fst p) /\ ok2 (snd p)).
Proof. intros S1 S2. apply (safe_bind e1 d1 ok1 (fun _ => e2) (fun _ => d2) (fun _ => ok2) S1). intros; exact S2. Qed.

(* ---- counted repetition (iostream WriteRange / ReadRange) ---- *)
Section many.
  Context {A : Type} (enc : A -> list N) (dec : parser A) (ok : A -> Prop).
  Hypothesis Hs : safe enc dec ok.

  Fixpoint rep_dec (n : nat) (l : list N) : res (list A) :=
    match n with
    | O => Ok [] l
    | S k => match dec l with
             | Ok x r => match rep_dec k r with Ok xs r' => Ok (x :: xs) r' | Short => Short | Bad => Bad end
             | Short => Short | Bad => Bad end
    end.

  Lemma rep_full xs rest : Forall ok xs -> rep_dec (length xs) (concat (map enc xs) ++ rest) = Ok xs rest.
  Proof.
    induction xs as [|x xs IH]; intro H; [reflexivity|]. inversion H; subst.
    cbn [length rep_dec map concat]. rewrite <- app_assoc. rewrite (s_full _ _ _ Hs) by assumption.
    now rewrite IH.
  Qed.

  Lemma rep_short xs p : Forall ok xs -> strict_prefix p (concat (map enc xs)) -> rep_dec (length xs) p = Short.
  Proof.
    revert p. induction xs as [|x xs IH]; intros p H Hp.
    - destruct Hp as (s & Hs' & E). cbn in E. symmetry in E. apply app_eq_nil in E. destruct E; congruence.
    - inversion H; subst. cbn [length rep_dec map concat] in *.
      destruct (strict_prefix_app_cases _ _ _ Hp) as [H1|(q & -> & Hq)].
      + now rewrite (s_short _ _ _ Hs x p).
      + rewrite (s_full _ _ _ Hs) by assumption. now rewrite IH.
  Qed.

  Definition many_enc (xs : list A) : list N := uv64_enc (N.of_nat (length xs)) ++ concat (map enc xs).
  Definition many_dec : parser (list A) := fun l =>
    match uv64_dec l with
    | Ok n r => rep_dec (N.to_nat n) r
    | Short => Short | Bad => Bad end.

  Lemma many_safe : safe many_enc many_dec (fun xs => N.of_nat (length xs) < 2^64 /\ Forall ok xs).
  Proof.
    destruct uv64_safe as [Uf Us]. split.
    - intros xs rest [Hl Hf]. unfold many_enc, many_dec. rewrite <- app_assoc, Uf by exact Hl.
      rewrite Nat2N.id. now apply rep_full.
    - intros xs p [Hl Hf] Hp. unfold many_enc in Hp. unfold many_dec.
      destruct (strict_prefix_app_cases _ _ _ Hp) as [H1|(q & -> & Hq)].
      + now rewrite (Us _ p Hl H1).
      + rewrite Uf by exact Hl. rewrite Nat2N.id. now apply rep_short.
  Qed.
End many.

(* ---- the commit ---- *)
Definition shard := (N * N)%type.                          (* previous offset value, start *)
Definition update := (list N * (list shard * list N))%type. (* column name, shards, payload *)
Definition commit := (N * (N * list update))%type.          (* chunk, id, updates *)

Definition shard_enc : shard -> list N := pair_enc le32 le32.
Definition shard_dec : parser shard := pair_dec le32_dec le32_dec.
Definition update_enc : update -> list N := pair_enc bytes_enc (pair_enc (many_enc shard_enc) bytes_enc).
Definition update_dec : parser update := pair_dec bytes_dec (pair_dec (many_dec shard_dec) bytes_dec).
Definition commit_enc : commit -> list N := pair_enc uv64_enc (pair_enc uv64_enc (many_enc update_enc)).
Definition commit_dec : parser commit := pair_dec uv64_dec (pair_dec uv64_dec (many_dec update_dec)).

Definition shard_ok (s : shard) := fst s < 2^32 /\ snd s < 2^32.
Definition update_ok (u : update) :=
  N.of_nat (length (fst u)) < 2^64 /\
  ((N.of_nat (length (fst (snd u))) < 2^64 /\ Forall shard_ok (fst (snd u))) /\ N.of_nat (length (snd (snd u))) < 2^64).
Definition commit_ok (c : commit) :=
  fst c < 2^64 /\ (fst (snd c) < 2^64 /\ (N.of_nat (length (snd (snd c))) < 2^64 /\ Forall update_ok (snd (snd c)))).

Lemma shard_safe : safe shard_enc shard_dec shard_ok.
Proof. exact (pair_safe le32 le32_dec (fun x => x < 2^32) le32 le32_dec (fun x => x < 2^32) le32_safe le32_safe). Qed.

Definition shards_ok (l : list shard) := N.of_nat (length l) < 2^64 /\ Forall shard_ok l.
Definition blob_ok (b : list N) := N.of_nat (length b) < 2^64.

Lemma update_safe : safe update_enc update_dec update_ok.
Proof.
  exact (pair_safe bytes_enc bytes_dec blob_ok _ _ (fun p : list shard * list N => shards_ok (fst p) /\ blob_ok (snd p))
           bytes_safe
           (pair_safe (many_enc shard_enc) (many_dec shard_dec) shards_ok bytes_enc bytes_dec blob_ok
              (many_safe shard_enc shard_dec shard_ok shard_safe) bytes_safe)).
Qed.

Definition updates_ok (l : list update) := N.of_nat (length l) < 2^64 /\ Forall update_ok l.

Lemma commit_safe : safe commit_enc commit_dec commit_ok.
Proof.
  exact (pair_safe uv64_enc uv64_dec (fun x => x < 2^64) _ _ (fun p : N * list update => fst p < 2^64 /\ updates_ok (snd p))
           uv64_safe
           (pair_safe uv64_enc uv64_dec (fun x => x < 2^64) (many_enc update_enc) (many_dec update_dec) updates_ok
              uv64_safe (many_safe update_enc update_dec update_ok update_safe))).
Qed.

Lemma commit_nonempty c : commit_enc c <> [].
Proof. unfold commit_enc, pair_enc, uv64_enc, uv_enc. destruct c as [ch r]. cbn [fst]. destruct (ch <? 128); discriminate. Qed.

(* C13 for real commit frames *)
Theorem real_commit_log_prefix (cs : list commit) p :
  Forall commit_ok cs -> prefix_of p (log_bytes commit_enc cs) ->
  exists k, range_log commit_dec (length p) p = firstn k cs.
Proof. intros. eapply range_log_prefix; eauto using commit_safe, commit_nonempty. Qed.

(* ---- correspondence with Commit.WriteTo / ReadFrom ---- *)
Definition commit_eqb (a b : commit) : bool :=
  if list_eq_dec N.eq_dec (commit_enc a) (commit_enc b) then true else false.

(* a case: the commit, the bytes Commit.WriteTo produced, and for some cut points whether
   Commit.ReadFrom succeeded on that prefix.  1 = bytes differ, 2 = the model does not decode
   its own bytes, 3 = a prefix verdict differs *)
Definition wire_check (c : commit) (bytes : list N) (cuts : list (nat * bool)) : list N :=
  (if list_eq_dec N.eq_dec (commit_enc c) bytes then [] else [1]) ++
  (match commit_dec bytes with Ok c' [] => if commit_eqb c c' then [] else [2] | _ => [2] end) ++
  (if forallb (fun kb => Bool.eqb (match commit_dec (firstn (fst kb) bytes) with Ok _ _ => true | _ => false end) (snd kb)) cuts
   then [] else [3]).

Fixpoint wire_mismatches (n : N) (cases : list (commit * list N * list (nat * bool))) : list (N * N) :=
  match cases with
  | [] => []
  | (c, b, k) :: r => map (fun t => (n, t)) (wire_check c b k) ++ wire_mismatches (n + 1) r
  end.

(* ---- a whole buffer as Buffer.WriteTo / ReadFrom lay it out (commit/buffer_codec.go):
        string column, int32 last (little endian), counted 12-byte chunk headers (three big-endian
        uint32: chunk, start, value), the bytes ---- *)
Definition be32 (x : N) : list N := [(x / 16777216) mod 256; (x / 65536) mod 256; (x / 256) mod 256; x mod 256].
Definition be32_dec : parser N := fun l =>
  match l with
  | a :: b :: c :: d :: rest => Ok (16777216 * a + 65536 * b + 256 * c + d) rest
  | _ => Short
  end.
Lemma be32_safe : safe be32 be32_dec (fun x => x < 2^32).
Proof.
  split.
  - intros x rest Hx. unfold be32, be32_dec. cbn [app]. f_equal. change (2^32) with 4294967296 in Hx. lia.
  - intros x p Hx (s & Hs & E). unfold be32 in E.
    destruct p as [|a [|b [|c [|d p]]]]; try reflexivity.
    cbn in E. injection E as _ _ _ _ E. destruct p; [destruct s; [congruence|discriminate]|discriminate].
Qed.

Definition bheader := (N * (N * N))%type.                      (* chunk, start, value *)
Definition wbuffer := (list N * (N * (list bheader * list N)))%type.   (* column, last, headers, bytes *)
Definition bheader_enc : bheader -> list N := pair_enc be32 (pair_enc be32 be32).
Definition bheader_dec : parser bheader := pair_dec be32_dec (pair_dec be32_dec be32_dec).
Definition wbuffer_enc : wbuffer -> list N := pair_enc bytes_enc (pair_enc le32 (pair_enc (many_enc bheader_enc) bytes_enc)).
Definition wbuffer_dec : parser wbuffer := pair_dec bytes_dec (pair_dec le32_dec (pair_dec (many_dec bheader_dec) bytes_dec)).

Definition u32 (x : N) := x < 2^32.
Definition bheader_ok (h : bheader) := u32 (fst h) /\ (u32 (fst (snd h)) /\ u32 (snd (snd h))).
Definition bheaders_ok (l : list bheader) := N.of_nat (length l) < 2^64 /\ Forall bheader_ok l.
Definition wbuffer_ok (b : wbuffer) :=
  blob_ok (fst b) /\ (u32 (fst (snd b)) /\ (bheaders_ok (fst (snd (snd b))) /\ blob_ok (snd (snd (snd b))))).

Lemma bheader_safe : safe bheader_enc bheader_dec bheader_ok.
Proof.
  exact (pair_safe be32 be32_dec u32 _ _ (fun p : N * N => u32 (fst p) /\ u32 (snd p)) be32_safe
           (pair_safe be32 be32_dec u32 be32 be32_dec u32 be32_safe be32_safe)).
Qed.

(* C05, sentence 2 for buffers: a serialized buffer reads back as itself, whatever follows it, and
   no strict prefix of it is accepted *)
Theorem wbuffer_safe : safe wbuffer_enc wbuffer_dec wbuffer_ok.
Proof.
  exact (pair_safe bytes_enc bytes_dec blob_ok _ _
           (fun p : N * (list bheader * list N) => u32 (fst p) /\ (bheaders_ok (fst (snd p)) /\ blob_ok (snd (snd p))))
           bytes_safe
           (pair_safe le32 le32_dec u32 _ _ (fun p : list bheader * list N => bheaders_ok (fst p) /\ blob_ok (snd p))
              le32_safe
              (pair_safe (many_enc bheader_enc) (many_dec bheader_dec) bheaders_ok bytes_enc bytes_dec blob_ok
                 (many_safe bheader_enc bheader_dec bheader_ok bheader_safe) bytes_safe))).
Qed.

Definition wbuffer_check (b : wbuffer) (bytes : list N) : list N :=
  (if list_eq_dec N.eq_dec (wbuffer_enc b) bytes then [] else [1]) ++
  (match wbuffer_dec bytes with
   | Ok b' [] => if list_eq_dec N.eq_dec (wbuffer_enc b') bytes then [] else [2]
   | _ => [2] end).
Fixpoint wbuffer_mismatches (n : N) (cases : list (wbuffer * list N)) : list (N * N) :=
  match cases with
  | [] => []
  | (b, y) :: r => map (fun t => (n, t)) (wbuffer_check b y) ++ wbuffer_mismatches (n + 1) r
  end.
