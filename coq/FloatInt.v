(* The integer <-> IEEE-754 encoders of the model (Store.fenc_gen / fdec_gen) are inverse on the
   integers a float column is exercised with: decoding the encoding of z gives z back, for
   |z| < 2^53 (binary64) and |z| < 2^24 (binary32). *)
From Coq Require Import NArith ZArith Lia.
From Coq Require Import ZifyN ZifyBool.
From stdpp Require Import prelude.
From ColumnV Require Import Bytes Store.
Local Open Scope N_scope.

Section enc.
  Variables mbits ebits ebias : N.
  Hypothesis Hm : 0 < mbits.
  Hypothesis Hbias : ebias + mbits < 2 ^ ebits.

  Definition pack (sign e mant : N) : N := sign * 2 ^ (mbits + ebits) + (e + ebias) * 2 ^ mbits + mant.

  Lemma unpack sign e mant :
    sign <= 1 → e <= mbits → mant < 2 ^ mbits →
    let n := pack sign e mant in
    n / 2 ^ (mbits + ebits) = sign ∧ (n / 2 ^ mbits) mod 2 ^ ebits = e + ebias ∧ n mod 2 ^ mbits = mant.
  Proof.
    intros Hs He Hma n. unfold n, pack.
    assert (P1 : 2 ^ mbits ≠ 0) by (apply N.pow_nonzero; lia).
    assert (P2 : 2 ^ ebits ≠ 0) by (apply N.pow_nonzero; lia).
    assert (P3 : 2 ^ (mbits + ebits) = 2 ^ ebits * 2 ^ mbits) by (rewrite N.pow_add_r; lia).
    assert (Hee : e + ebias < 2 ^ ebits) by lia.
    split; [|split].
    - rewrite P3.
      replace (sign * (2 ^ ebits * 2 ^ mbits) + (e + ebias) * 2 ^ mbits + mant)
        with (((e + ebias) * 2 ^ mbits + mant) + sign * (2 ^ ebits * 2 ^ mbits)) by lia.
      rewrite N.div_add by (apply N.neq_mul_0; split; assumption).
      rewrite N.div_small; [lia|].
      assert ((e + ebias) * 2 ^ mbits + mant < (e + ebias + 1) * 2 ^ mbits) by lia.
      assert ((e + ebias + 1) * 2 ^ mbits <= 2 ^ ebits * 2 ^ mbits) by (apply N.mul_le_mono_r; lia).
      lia.
    - replace (sign * 2 ^ (mbits + ebits) + (e + ebias) * 2 ^ mbits + mant)
        with (mant + (sign * 2 ^ ebits + (e + ebias)) * 2 ^ mbits) by (rewrite P3; lia).
      rewrite N.div_add by assumption. rewrite (N.div_small mant) by assumption.
      rewrite N.add_0_l. rewrite N.add_comm. rewrite N.mod_add by assumption. apply N.mod_small. exact Hee.
    - replace (sign * 2 ^ (mbits + ebits) + (e + ebias) * 2 ^ mbits + mant)
        with (mant + (sign * 2 ^ ebits + (e + ebias)) * 2 ^ mbits) by (rewrite P3; lia).
      rewrite N.mod_add by assumption. by apply N.mod_small.
  Qed.
End enc.

Lemma mant_bounds mbits m :
  0 < m → m < 2 ^ (mbits + 1) →
  let e := N.log2 m in
  e <= mbits ∧ 2 ^ mbits <= m * 2 ^ (mbits - e) ∧ m * 2 ^ (mbits - e) < 2 ^ (mbits + 1).
Proof.
  intros Hpos Hlt e. destruct (N.log2_spec m Hpos) as [L1 L2]. fold e in L1, L2.
  assert (He : e <= mbits).
  { destruct (N.le_gt_cases e mbits) as [|Hgt]; [done|]. exfalso.
    assert (2 ^ (mbits + 1) <= 2 ^ e) by (apply N.pow_le_mono_r; lia). lia. }
  split; [exact He|].
  assert (E1 : 2 ^ mbits = 2 ^ e * 2 ^ (mbits - e)) by (rewrite <- N.pow_add_r; f_equal; lia).
  assert (E2 : 2 ^ (mbits + 1) = 2 ^ N.succ e * 2 ^ (mbits - e)) by (rewrite <- N.pow_add_r; f_equal; lia).
  assert (P : 0 < 2 ^ (mbits - e)) by (apply N.neq_0_lt_0, N.pow_nonzero; lia).
  split.
  - rewrite E1. apply N.mul_le_mono_r. exact L1.
  - rewrite E2. apply N.mul_lt_mono_pos_r; assumption.
Qed.

Theorem fdec_fenc_gen mbits ebias z :
  (mbits = 52 ∧ ebias = 1023) ∨ (mbits = 23 ∧ ebias = 127) →
  (Z.abs z < 2 ^ Z.of_N (mbits + 1))%Z →
  fdec_gen mbits ebias (fenc_gen mbits ebias z) = Some z.
Proof.
  intros Hcfg Hz. unfold fenc_gen.
  destruct (z =? 0)%Z eqn:Ez.
  { assert (z = 0%Z) as -> by lia. destruct Hcfg as [[-> ->]|[-> ->]]; reflexivity. }
  set (m := Z.to_N (Z.abs z)). set (e := N.log2 m).
  set (ebits := if mbits =? 52 then 11 else 8).
  assert (Hmpos : 0 < m) by (unfold m; lia).
  assert (Hmlt : m < 2 ^ (mbits + 1)).
  { unfold m. apply N2Z.inj_lt. rewrite Z2N.id by lia. rewrite N2Z.inj_pow. exact Hz. }
  destruct (mant_bounds mbits m Hmpos Hmlt) as (He & B1 & B2). fold e in He, B1, B2.
  set (mant := m * 2 ^ (mbits - e) - 2 ^ mbits).
  assert (Hmant : mant < 2 ^ mbits).
  { unfold mant. rewrite N.pow_add_r in B2. change (2 ^ 1) with 2 in B2. lia. }
  set (sign := if (z <? 0)%Z then 1 else 0).
  assert (Hpack : (if (z <? 0)%Z then 2 ^ (mbits + ebits) else 0) + (e + ebias) * 2 ^ mbits + mant = pack mbits ebits ebias sign e mant).
  { unfold pack, sign. destruct (z <? 0)%Z; lia. }
  fold ebits. rewrite Hpack.
  assert (Hm0 : 0 < mbits) by (destruct Hcfg as [[-> _]|[-> _]]; lia).
  assert (Hb : ebias + mbits < 2 ^ ebits) by (unfold ebits; destruct Hcfg as [[-> ->]|[-> ->]]; cbn; lia).
  assert (Hs : sign <= 1) by (unfold sign; destruct (z <? 0)%Z; lia).
  destruct (unpack mbits ebits ebias Hm0 Hb sign e mant Hs He Hmant) as (U1 & U2 & U3).
  unfold fdec_gen. fold ebits. rewrite U1, U2, U3.
  assert (Hef : (e + ebias =? 0) = false) by (destruct Hcfg as [[_ ->]|[_ ->]]; lia).
  rewrite Hef. cbn [andb].
  assert (Hr1 : (e + ebias <? ebias) = false) by lia.
  assert (Hr2 : (ebias + mbits <? e + ebias) = false) by lia.
  rewrite Hr1, Hr2. cbn [orb].
  rewrite N.add_sub.
  assert (Hsum : 2 ^ mbits + mant = m * 2 ^ (mbits - e)) by (unfold mant; clear -B1; lia).
  rewrite Hsum.
  assert (P : 2 ^ (mbits - e) ≠ 0) by (apply N.pow_nonzero; lia).
  rewrite N.mod_mul by exact P. rewrite N.eqb_refl. rewrite N.div_mul by exact P.
  f_equal. unfold sign, m. destruct (z <? 0)%Z eqn:Es; cbn [N.eqb]; clear -Es; lia.
Qed.

Corollary fdec_fenc64 z : (Z.abs z < 2 ^ 53)%Z → fdec (V8 (fenc64 z)) = Some z.
Proof. intro H. apply fdec_fenc_gen; [by left|exact H]. Qed.
Corollary fdec_fenc32 z : (Z.abs z < 2 ^ 24)%Z → fdec (V4 (fenc32 z)) = Some z.
Proof. intro H. apply fdec_fenc_gen; [by right|exact H]. Qed.
