(* Correspondence for L0: the harness records, for generated op sequences, the raw state of the
   real commit.Buffer (bytes, chunk headers, last offset) and what Reader.Range decodes per chunk;
   the model must produce the same bytes and the same decoded sequences. *)
From Coq Require Import NArith List Bool.
From ColumnV Require Import GenConsts Bytes Ops Buffer.
Import ListNotations.
Local Open Scope N_scope.

Definition value_eqb (a b : value) : bool :=
  match a, b with
  | V0, V0 => true
  | V2 x, V2 y | V4 x, V4 y | V8 x, V8 y => x =? y
  | VB x, VB y => if list_eq_dec N.eq_dec x y then true else false
  | _, _ => false
  end.
Definition op_eqb (a b : op) : bool :=
  (kcode (ok a) =? kcode (ok b)) && (ooff a =? ooff b) && value_eqb (oval a) (oval b).
Fixpoint ops_eqb (a b : list op) : bool :=
  match a, b with
  | [], [] => true
  | x :: a', y :: b' => op_eqb x y && ops_eqb a' b'
  | _, _ => false
  end.
Definition hdr_eqb (a : header) (b : N * N * N) : bool :=
  let '(c, st, v) := b in (hchunk a =? c) && (N.of_nat (hstart a) =? st) && (hvalue a =? v).
Fixpoint hdrs_eqb (a : list header) (b : list (N * N * N)) : bool :=
  match a, b with
  | [], [] => true
  | x :: a', y :: b' => hdr_eqb x y && hdrs_eqb a' b'
  | _, _ => false
  end.

Record ccase := mkcc {
  cc_ops : list op;                       (* what was written, in order *)
  cc_bytes : list N;                      (* Buffer.buffer *)
  cc_hdrs : list (N * N * N);             (* Buffer.chunks: chunk, start, value *)
  cc_last : N;                            (* Buffer.last as uint32 *)
  cc_ranges : list (N * list op)          (* per chunk: what Reader.Range + Next decoded *)
}.

(* 1 = bytes differ, 2 = headers differ, 3 = last differs, 4 = a decoded chunk differs,
   5 = the model's own range differs from the filter of the written ops (theorem instance) *)
Definition check_ccase (c : ccase) : list N :=
  let b := fold_left put (cc_ops c) empty in
  (if list_eq_dec N.eq_dec (bbytes b) (cc_bytes c) then [] else [1]) ++
  (if hdrs_eqb (bhdrs b) (cc_hdrs c) then [] else [2]) ++
  (if blast b =? cc_last c then [] else [3]) ++
  (if forallb (fun p => ops_eqb (range b (fst p)) (snd p)) (cc_ranges c) then [] else [4]) ++
  (if forallb (fun p => ops_eqb (range b (fst p)) (filter (fun o => chunk_of (ooff o) =? fst p) (cc_ops c))) (cc_ranges c)
   then [] else [5]).

Fixpoint check_ccases (n : N) (l : list ccase) : list (N * N) :=
  match l with
  | [] => []
  | c :: r => map (fun t => (n, t)) (check_ccase c) ++ check_ccases (n + 1) r
  end.
