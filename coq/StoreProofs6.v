(* The invariants together, over whole histories: every state reachable by transactions that meet
   the theorems' side conditions satisfies all of them.  The side conditions are decidable and are
   evaluated on every recorded history by Check.v (tag WF), so that "the hypotheses hold of what
   the generators produce" is measured, not assumed. *)
From stdpp Require Import gmap sorting.
From ColumnV Require Import GenConsts Bytes Store StoreProofs StoreProofs2 StoreProofs3.
Local Open Scope N_scope.

Record Inv (s : coll) : Prop := {
  inv_live : CellsLive s;       (* C11: cells only at occupied offsets *)
  inv_idx : IdxOK s;            (* C03: indexes equal their predicate *)
  inv_sort : SortOK s;          (* C16: sorted indexes hold exactly the rows with a value *)
  inv_count : Quiescent s;      (* C11: Count = number of occupied offsets *)
  inv_targets : ∀ e, e ∈ comps s → is_Some (cols s !! xtarget e);   (* computed columns hang off existing columns *)
  inv_cast : CastFixed s;       (* C01/C07: stored values are fixed points of the column's cast *)
}.

Lemma wf_row_of_bool t : forallb is_marker (trow t) = true → wf_row t.
Proof.
  unfold wf_row. rewrite forallb_forall. intro H. apply Forall_forall. intros o Ho.
  specialize (H o (proj1 (elem_of_list_In _ _) Ho)). unfold is_marker in H. destruct (ok o); auto; done.
Qed.

Lemma wf_writes_of_bool s t : writes_in_fill s t = true → wf_writes s t.
Proof.
  intros H%bool_decide_eq_true c o Ho K. unfold buf in Ho.
  destruct (tbufs t !! c) as [l|] eqn:E; [|by apply elem_of_nil in Ho].
  specialize (H c l E). rewrite Forall_forall in H. by apply H.
Qed.

Lemma fresh_of_bool rs : forallb res_fresh rs = true → Forall fresh_res rs.
Proof.
  rewrite forallb_forall. intro H. apply Forall_forall. intros r Hr.
  specialize (H r (proj1 (elem_of_list_In _ _) Hr)). unfold res_fresh, fresh_res in *. by destruct r as [| ? ? []| | | | | |].
Qed.

(* invariants that only speak of columns and computed columns move along [same_store] *)
Lemma idx_ok_store a b : same_store a b → IdxOK b → IdxOK a.
Proof. intros (C & M & _) H e rule bits col He Hx Hc. rewrite M in He. rewrite C in Hc. by eapply H. Qed.
Lemma sort_ok_store a b : same_store a b → SortOK b → SortOK a.
Proof. intros (C & M & _) H e tree col He Hx Hc. rewrite M in He. rewrite C in Hc. by eapply H. Qed.

Lemma commit_block_targets s t b :
  (∀ e, e ∈ comps s → is_Some (cols s !! xtarget e)) →
  ∀ e, e ∈ comps (commit_block s t b) → is_Some (cols (commit_block s t b) !! xtarget e).
Proof.
  intros H e He. rewrite commit_block_comps in He. apply elem_of_list_fmap in He as (e0 & -> & He0). cbn [xtarget].
  destruct (H e0 He0) as [col Hc]. destruct (commit_block_cols s t b _ col Hc) as (c' & Hc' & _). by exists c'.
Qed.

Lemma commit_targets s t :
  (∀ e, e ∈ comps s → is_Some (cols s !! xtarget e)) →
  ∀ e, e ∈ comps (commit s t) → is_Some (cols (commit s t) !! xtarget e).
Proof.
  unfold commit. generalize (dirty_blocks t). intro bs. revert s.
  induction bs as [|b bs IH]; intros s H; [exact H|]. cbn. apply IH. by apply commit_block_targets.
Qed.

(* one transaction *)
Theorem run_txn_inv s body cp : Inv s → txn_wf s body = true → Inv (fst (run_txn s body cp)).
Proof.
  intros [L I S Q T K] W. unfold txn_wf, run_txn in *.
  destruct (do_stmts s txn0 body) as [[s1 t1] rs] eqn:E.
  apply andb_prop in W as [W Ww]. apply andb_prop in W as [Wf Wr].
  pose proof (fresh_of_bool rs Wf) as Hf.
  destruct cp; cbn [fst].
  - (* commit *)
    pose proof (do_stmts_store s txn0 body) as St. rewrite E in St. cbn in St.
    assert (I0 : inflight s s txn0) by (constructor; cbn; [set_solver|set_solver|constructor|exact Q]).
    pose proof (do_stmts_inflight s s txn0 body I0) as If. rewrite E in If. cbn in If. destruct (If Hf) as [F D ND C].
    assert (L1 : CellsLive s1).
    { intros c col i Hc Hs. destruct St as (Co & _). rewrite Co in Hc. rewrite F. apply elem_of_union. left. by eapply L. }
    constructor.
    + apply commit_cells_live; [exact L1|by apply wf_writes_of_bool|by apply wf_row_of_bool].
    + apply commit_idx_ok; [by apply wf_row_of_bool|by eapply idx_ok_store].
    + apply commit_sort_ok; [by apply wf_row_of_bool|by eapply sort_ok_store].
    + apply commit_quiescent. exact C.
    + apply commit_targets. intros e He. destruct St as (Co & Cm & _). rewrite Cm in He. rewrite Co. by apply T.
    + apply commit_cast_fixed. intros c col Hc. destruct St as (Co & _). rewrite Co in Hc. exact (K c col Hc).
  - (* rollback: the collection is the one before *)
    pose proof (rollback_no_trace s body Q) as R. unfold run_txn in R. rewrite E in R. cbn in R.
    rewrite (R Hf). by constructor.
Qed.

(* schema changes *)
Lemma create_column_inv s id col k : cells col = ∅ → cast_idem col → Inv s → Inv (create_column s id col k).
Proof.
  intros He Hi [L I S Q T K]. unfold create_column. destruct (cols s !! id) eqn:E; [by constructor|].
  constructor; cbn [fill count cols comps].
  - intros c c' i Hc Hs. cbn [cols fill] in *. apply lookup_insert_Some in Hc as [[<- <-]|[_ Hc]]; [rewrite He, lookup_empty in Hs; by destruct Hs|by eapply L].
  - intros e rule bits c' He' Hx Hc. cbn [cols comps] in *. apply lookup_insert_Some in Hc as [[Ht <-]|[_ Hc]]; [|by eapply I].
    destruct (T e He') as [c0 Hc0]. rewrite <- Ht, E in Hc0. done.
  - intros e tree c' He' Hx Hc. cbn [cols comps] in *. apply lookup_insert_Some in Hc as [[Ht <-]|[_ Hc]]; [|by eapply S].
    destruct (T e He') as [c0 Hc0]. rewrite <- Ht, E in Hc0. done.
  - exact Q.
  - intros e He'. cbn [cols comps] in *. destruct (T e He') as [c0 Hc0]. destruct (decide (id = xtarget e)) as [->|NE].
    + rewrite lookup_insert. by eexists.
    + rewrite lookup_insert_ne by done. by exists c0.
  - intros c c' Hc. cbn [cols] in Hc. apply lookup_insert_Some in Hc as [[_ <-]|[_ Hc]]; [|exact (K c c' Hc)].
    split; [exact Hi|]. intros i v Hv. by rewrite He, lookup_empty in Hv.
Qed.

Lemma create_trigger_idx_ok s id tg log : IdxOK s → IdxOK (create_computed s id tg (XTrigger log)).
Proof.
  intros Inv e r bits col He Hx Hc. unfold create_computed in *.
  destruct (cols s !! tg) as [ct|] eqn:Ht; [|by eapply Inv].
  cbn [comps cols] in *. apply elem_of_app in He as [He|He]; [by eapply Inv|].
  apply elem_of_list_singleton in He. subst e. cbn in Hx. done.
Qed.

Lemma create_other_sort_ok s id tg x : (∀ tree, x ≠ XSorted tree) → SortOK s → SortOK (create_computed s id tg x).
Proof.
  intros Hx0 Inv e tree col He Hx Hc. unfold create_computed in *.
  destruct (cols s !! tg) as [ct|] eqn:Ht; [|by eapply Inv].
  cbn [comps cols] in *. apply elem_of_app in He as [He|He]; [by eapply Inv|].
  apply elem_of_list_singleton in He. subst e. cbn [xstate] in Hx. unfold build_computed in Hx. rewrite Ht in Hx.
  destruct x; try done. exfalso. by eapply Hx0.
Qed.

Lemma create_sorted_idx_ok s id tg tree : IdxOK s → IdxOK (create_computed s id tg (XSorted tree)).
Proof.
  intros Inv e r bits col He Hx Hc. unfold create_computed in *.
  destruct (cols s !! tg) as [ct|] eqn:Ht; [|by eapply Inv].
  cbn [comps cols] in *. apply elem_of_app in He as [He|He]; [by eapply Inv|].
  apply elem_of_list_singleton in He. subst e. cbn in Hx. by rewrite Ht in Hx.
Qed.

Theorem create_computed_inv s id tg x : Inv s → Inv (create_computed s id tg x).
Proof.
  intros [L I S Q T K]. constructor.
  - unfold create_computed. destruct (cols s !! tg); exact L.
  - destruct x; [by apply create_index_ok|by apply create_trigger_idx_ok|by apply create_sorted_idx_ok].
  - destruct x; [apply create_other_sort_ok; [done|exact S]|apply create_other_sort_ok; [done|exact S]|by apply create_sorted_ok].
  - unfold create_computed. destruct (cols s !! tg); exact Q.
  - unfold create_computed. destruct (cols s !! tg) eqn:Ht; [|exact T]. cbn [comps cols].
    intros e [He|He]%elem_of_app; [by apply T|]. apply elem_of_list_singleton in He. subst e. cbn. by eexists.
  - unfold create_computed. destruct (cols s !! tg); exact K.
Qed.

Theorem drop_computed_inv s id : Inv s → Inv (drop_computed s id).
Proof.
  intros [L I S Q T K]. constructor; unfold drop_computed; cbn [fill count cols comps]; try done.
  - intros e r bits col [_ He]%elem_of_list_filter. by apply I.
  - intros e tree col [_ He]%elem_of_list_filter. by apply S.
  - intros e [_ He]%elem_of_list_filter. by apply T.
Qed.

(* ---- whole histories ---- *)
Inductive hstep :=
| HCol (id : N) (c : column) (k : bool)
| HComputed (id tg : N) (x : computed)
| HDrop (id : N)
| HTxn (body : list stmt) (commitp : bool).

Definition hrun (s : coll) (h : hstep) : coll :=
  match h with
  | HCol id c k => create_column s id c k
  | HComputed id tg x => create_computed s id tg x
  | HDrop id => drop_computed s id
  | HTxn body cp => fst (run_txn s body cp)
  end.

Definition hstep_ok (s : coll) (h : hstep) : Prop :=
  match h with
  | HCol _ c _ => cells c = ∅ ∧ cast_idem c
  | HTxn body _ => txn_wf s body = true
  | _ => True
  end.

Fixpoint history_ok (s : coll) (h : list hstep) : Prop :=
  match h with [] => True | x :: r => hstep_ok s x ∧ history_ok (hrun s x) r end.

Lemma inv_coll0 : Inv coll0.
Proof.
  constructor; unfold coll0; cbn.
  - intros c col i Hc. cbn in Hc. by rewrite lookup_empty in Hc.
  - intros e r bits col He. by apply elem_of_nil in He.
  - intros e tree col He. by apply elem_of_nil in He.
  - done.
  - intros e He. by apply elem_of_nil in He.
  - intros c col Hc. cbn in Hc. by rewrite lookup_empty in Hc.
Qed.

(* every state of every admissible history satisfies all the invariants *)
Theorem history_inv h : ∀ s, Inv s → history_ok s h → Inv (foldl hrun s h).
Proof.
  induction h as [|x r IH]; intros s I H; [exact I|]. destruct H as [Hx Hr]. cbn [foldl]. apply IH; [|exact Hr].
  destruct x; cbn [hrun hstep_ok] in *.
  - destruct Hx. by apply create_column_inv.
  - by apply create_computed_inv.
  - by apply drop_computed_inv.
  - by apply run_txn_inv.
Qed.

Corollary reachable_inv h : history_ok coll0 h → Inv (foldl hrun coll0 h).
Proof. apply history_inv, inv_coll0. Qed.
