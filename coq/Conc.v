(* L3: the commit / reader / snapshot protocols of one 16K block as a labelled transition system
   over ANY number of threads and ANY scheduler (txn_lock.go rangeWrite / QueryAt / rangeRead,
   txn.go commit closure, snapshot.go).  Blocks are independent in this abstraction: every piece
   of state below is per block except the global id counter, whose only relevant property is
   that successive draws increase.

   A writer goes  WIdle -> (Lock) WLatched -> (commit.Next under the latch) WId n ->
   (apply columns, markers) WApplied n -> (recorder + logger append) WLogged n -> (Unlock) WDone.
   A reader goes  RIdle -> (RLock) RIn seen -> ... reads ... -> (RUnlock) RDone.
   The state of the block is the list of applied commit ids in apply order; [half] tells that a
   writer is between its first and last column (a half-applied commit is in storage). *)
From stdpp Require Import gmap list.
From Coq Require Import NArith Lia Sorting.Sorted.
Local Open Scope N_scope.

Inductive pc :=
| WIdle | WLatched | WId (n : N) | WApplying (n : N) | WApplied (n : N) | WLogged (n : N) | WDone (n : N)
| RIdle | RIn (seen : list (nat * bool)) | RDone (seen : list (nat * bool)).

Record sys := mksys {
  ctr : N;                        (* commit.Next counter *)
  wlatch : option nat;            (* thread holding the write latch *)
  rlatch : list nat;              (* threads holding the read latch *)
  applied : list N;               (* ids of the commits applied to the block, in apply order *)
  half : bool;                    (* a commit is partially applied right now *)
  logged : list N;                (* ids in the order they reached the logger *)
  pcs : gmap nat pc;              (* program counter of every thread *)
}.

Definition set_pc (s : sys) (t : nat) (p : pc) : gmap nat pc := <[t := p]> (pcs s).

(* one step of thread t *)
Inductive step : sys -> nat -> sys -> Prop :=
| s_lock s t : pcs s !! t = Some WIdle -> wlatch s = None -> rlatch s = [] ->
    step s t (mksys (ctr s) (Some t) [] (applied s) (half s) (logged s) (set_pc s t WLatched))
| s_id s t : pcs s !! t = Some WLatched ->
    step s t (mksys (ctr s + 1) (wlatch s) (rlatch s) (applied s) (half s) (logged s) (set_pc s t (WId (ctr s + 1))))
| s_apply1 s t n : pcs s !! t = Some (WId n) ->
    step s t (mksys (ctr s) (wlatch s) (rlatch s) (applied s) true (logged s) (set_pc s t (WApplying n)))
| s_apply2 s t n : pcs s !! t = Some (WApplying n) ->
    step s t (mksys (ctr s) (wlatch s) (rlatch s) (applied s ++ [n]) false (logged s) (set_pc s t (WApplied n)))
| s_log s t n : pcs s !! t = Some (WApplied n) ->
    step s t (mksys (ctr s) (wlatch s) (rlatch s) (applied s) (half s) (logged s ++ [n]) (set_pc s t (WLogged n)))
| s_unlock s t n : pcs s !! t = Some (WLogged n) ->
    step s t (mksys (ctr s) None (rlatch s) (applied s) (half s) (logged s) (set_pc s t (WDone n)))
(* some other block's writer draws an id *)
| s_other s t : step s t (mksys (ctr s + 1) (wlatch s) (rlatch s) (applied s) (half s) (logged s) (pcs s))
| s_rlock s t : pcs s !! t = Some RIdle -> wlatch s = None ->
    step s t (mksys (ctr s) None (t :: rlatch s) (applied s) (half s) (logged s) (set_pc s t (RIn [])))
| s_read s t seen : pcs s !! t = Some (RIn seen) ->
    step s t (mksys (ctr s) (wlatch s) (rlatch s) (applied s) (half s) (logged s)
                    (set_pc s t (RIn (seen ++ [(length (applied s), half s)]))))
| s_runlock s t seen : pcs s !! t = Some (RIn seen) ->
    step s t (mksys (ctr s) (wlatch s) (filter (λ u, u ≠ t) (rlatch s)) (applied s) (half s) (logged s)
                    (set_pc s t (RDone seen))).

Inductive reach : sys -> sys -> Prop :=
| r_refl s : reach s s
| r_step s s1 t s2 : reach s s1 -> step s1 t s2 -> reach s s2.

Definition init (threads : gmap nat pc) : sys := mksys 0 None [] [] false [] threads.
Definition wf_init (threads : gmap nat pc) : Prop := ∀ t p, threads !! t = Some p -> p = WIdle ∨ p = RIdle.

Definition holds_w (p : pc) : bool :=
  match p with WLatched | WId _ | WApplying _ | WApplied _ | WLogged _ => true | _ => false end.
Definition holds_r (p : pc) : bool := match p with RIn _ => true | _ => false end.

(* what a thread in a given state has already contributed *)
Definition in_applied (p : pc) : option N := match p with WApplied n | WLogged n | WDone n => Some n | _ => None end.

Definition is_applied (p : pc) : bool := match p with WApplied _ => true | _ => false end.
Definition at_applied (s : sys) : Prop := ∃ t n, pcs s !! t = Some (WApplied n).

Record Inv (s : sys) : Prop := {
  (* the latches are held exactly by the threads whose program counter says so *)
  i_w : ∀ t p, pcs s !! t = Some p -> holds_w p = true -> wlatch s = Some t;
  i_r : ∀ t p, pcs s !! t = Some p -> holds_r p = true -> t ∈ rlatch s;
  i_excl : wlatch s ≠ None -> rlatch s = [];
  (* ids: drawn under the latch, so they increase in apply order *)
  i_ids : Forall (λ n, n <= ctr s) (applied s);
  i_sorted : StronglySorted N.lt (applied s);
  i_pend : ∀ t n, pcs s !! t = Some (WId n) ∨ pcs s !! t = Some (WApplying n) ->
             n <= ctr s ∧ Forall (λ m, m < n) (applied s);
  (* the logger receives the commits in apply order; it lags by at most the commit whose writer
     is between its apply and its append (still under the latch) *)
  i_log1 : ∀ t n, pcs s !! t = Some (WApplied n) -> applied s = logged s ++ [n];
  i_log2 : ¬ at_applied s -> logged s = applied s;
  (* a half-applied commit exists only while its writer holds the latch *)
  i_half : half s = true -> ∃ t n, pcs s !! t = Some (WApplying n);
  (* C10: whatever one reader saw while it held the read latch is ONE committed state *)
  i_seen : ∀ t seen, pcs s !! t = Some (RIn seen) -> Forall (λ x, x = (length (applied s), false)) seen;
  i_seen' : ∀ t seen, pcs s !! t = Some (RDone seen) -> ∃ k, Forall (λ x, x = (k, false)) seen;
  (* C09: the applied list holds exactly the commits of the writers that are past their apply *)
  i_mine : ∀ t p n, pcs s !! t = Some p -> in_applied p = Some n -> n ∈ applied s;
  i_theirs : ∀ n, n ∈ applied s -> ∃ t p, pcs s !! t = Some p ∧ in_applied p = Some n;
}.

Lemma inv_init threads : wf_init threads -> Inv (init threads).
Proof.
  intro W. constructor; cbn.
  - intros t p H Hp. destruct (W t p H) as [-> | ->]; done.
  - intros t p H Hp. destruct (W t p H) as [-> | ->]; done.
  - done.
  - constructor.
  - constructor.
  - intros t n [H|H]; destruct (W _ _ H); done.
  - intros t n H. destruct (W _ _ H); done.
  - done.
  - done.
  - intros t seen H. destruct (W _ _ H); done.
  - intros t seen H. destruct (W _ _ H); done.
  - intros t p n H. destruct (W _ _ H) as [-> | ->]; done.
  - intros n H. by apply elem_of_nil in H.
Qed.

(* at most one thread is in a latched writer state *)
Lemma holder_unique s t1 p1 t2 p2 :
  Inv s -> pcs s !! t1 = Some p1 -> holds_w p1 = true -> pcs s !! t2 = Some p2 -> holds_w p2 = true -> t1 = t2.
Proof.
  intros I H1 W1 H2 W2. pose proof (i_w s I t1 p1 H1 W1) as A. pose proof (i_w s I t2 p2 H2 W2) as B. congruence.
Qed.

Lemma no_writer_when_free s t p : Inv s -> wlatch s = None -> pcs s !! t = Some p -> holds_w p = false.
Proof.
  intros I Hn H. destruct (holds_w p) eqn:E; [|done]. pose proof (i_w s I t p H E). congruence.
Qed.

Lemma no_reader_when_latched s t p : Inv s -> wlatch s ≠ None -> pcs s !! t = Some p -> holds_r p = false.
Proof.
  intros I Hn H. destruct (holds_r p) eqn:E; [|done]. pose proof (i_r s I t p H E) as Hin.
  rewrite (i_excl s I Hn) in Hin. by apply elem_of_nil in Hin.
Qed.

Lemma sorted_snoc (l : list N) x : StronglySorted N.lt l -> Forall (λ i, i < x) l -> StronglySorted N.lt (l ++ [x]).
Proof.
  induction l as [|a l IH]; intros Hs Hf; cbn; [repeat constructor|].
  inversion Hs; subst. inversion Hf; subst. constructor; [auto|].
  apply Forall_app; split; [assumption|repeat constructor; assumption].
Qed.

(* looking a thread up after one program counter changed *)
Ltac lk H t0 :=
  unfold set_pc in H; cbn [pcs] in H; apply lookup_insert_Some in H;
  destruct H as [[<- H]|[? H]]; [try simplify_eq|].

Theorem inv_step s t s' : Inv s -> step s t s' -> Inv s'.
Proof.
  intros I St. pose proof I as [Iw Ir Ie Iids Isort Ipend Il1 Il2 Ihalf Iseen Iseen' Imine Itheirs].
  inversion St; subst; clear St.
  - (* lock *)
    assert (NW : ∀ u p, pcs s !! u = Some p -> holds_w p = false) by (intros; by eapply no_writer_when_free).
    constructor; cbn [wlatch rlatch applied half logged pcs ctr].
    + intros u p Hu Hp. lk Hu t; try done. rewrite (NW u p Hu) in Hp. done.
    + intros u p Hu Hp. lk Hu t; try done. pose proof (Ir u p Hu Hp) as Hin. rewrite H1 in Hin. by apply elem_of_nil in Hin.
    + done.
    + done.
    + done.
    + intros u n [Hu|Hu]; lk Hu t; try done; apply (Ipend u n); auto.
    + intros u n Hu. lk Hu t; try done. by eapply Il1.
    + intros Hn. apply Il2. intros (u & n & Hu). apply Hn. exists u, n. unfold set_pc; cbn.
      rewrite lookup_insert_ne; [done|]. intros ->. rewrite H in Hu. done.
    + intros Hh. destruct (Ihalf Hh) as (u & n & Hu). exists u, n. unfold set_pc; cbn.
      rewrite lookup_insert_ne; [done|]. intros ->. rewrite H in Hu. done.
    + intros u seen Hu. lk Hu t; try done. by eapply Iseen.
    + intros u seen Hu. lk Hu t; try done. by eapply Iseen'.
    + intros u p m Hu Hp. lk Hu t; try done. by eapply Imine.
    + intros m Hm. destruct (Itheirs m Hm) as (u & p & Hu & Hp). exists u, p. split; [|done]. unfold set_pc; cbn.
      rewrite lookup_insert_ne; [done|]. intros ->. rewrite H in Hu. by simplify_eq.
  - (* draw the id, under the latch *)
    assert (HW : wlatch s = Some t) by (by eapply Iw).
    constructor; cbn [wlatch rlatch applied half logged pcs ctr].
    + intros u p Hu Hp. lk Hu t; try done. by eapply Iw.
    + intros u p Hu Hp. lk Hu t; try done. by eapply Ir.
    + done.
    + eapply Forall_impl; [exact Iids|]. cbn. intros; lia.
    + done.
    + intros u n [Hu|Hu]; lk Hu t; try done.
      * simplify_eq. split; [lia|]. eapply Forall_impl; [exact Iids|]. cbn; intros; lia.
      * destruct (Ipend u n (or_introl Hu)) as [A B]. split; [lia|done].
      * destruct (Ipend u n (or_intror Hu)) as [A B]. split; [lia|done].
    + intros u n Hu. lk Hu t; try done. by eapply Il1.
    + intros Hn. apply Il2. intros (u & n & Hu). apply Hn. exists u, n. unfold set_pc; cbn.
      rewrite lookup_insert_ne; [done|]. intros ->. rewrite H in Hu. done.
    + intros Hh. destruct (Ihalf Hh) as (u & n & Hu). exists u, n. unfold set_pc; cbn.
      rewrite lookup_insert_ne; [done|]. intros ->. rewrite H in Hu. done.
    + intros u seen Hu. lk Hu t; try done. by eapply Iseen.
    + intros u seen Hu. lk Hu t; try done. by eapply Iseen'.
    + intros u p m Hu Hp. lk Hu t; try done. by eapply Imine.
    + intros m Hm. destruct (Itheirs m Hm) as (u & p & Hu & Hp). exists u, p. split; [|done]. unfold set_pc; cbn.
      rewrite lookup_insert_ne; [done|]. intros ->. rewrite H in Hu. by simplify_eq.
  - (* first column applied: the block is half-applied *)
    assert (HW : wlatch s = Some t) by (by eapply Iw).
    constructor; cbn [wlatch rlatch applied half logged pcs ctr].
    + intros u p Hu Hp. lk Hu t; try done. by eapply Iw.
    + intros u p Hu Hp. lk Hu t; try done. by eapply Ir.
    + done.
    + done.
    + done.
    + intros u m [Hu|Hu]; lk Hu t; try done.
      * apply (Ipend u m). by left.
      * apply (Ipend t m). by left.
      * apply (Ipend u m). by right.
    + intros u m Hu. lk Hu t; try done. by eapply Il1.
    + intros Hn. apply Il2. intros (u & m & Hu). apply Hn. exists u, m. unfold set_pc; cbn.
      rewrite lookup_insert_ne; [done|]. intros ->. rewrite H in Hu. done.
    + intros _. exists t, n. unfold set_pc; cbn. by rewrite lookup_insert.
    + intros u seen Hu. lk Hu t; try done. exfalso.
      assert (holds_r (RIn seen) = false) by (eapply no_reader_when_latched; [exact I|congruence|exact Hu]). done.
    + intros u seen Hu. lk Hu t; try done. by eapply Iseen'.
    + intros u p m Hu Hp. lk Hu t; try done. by eapply Imine.
    + intros m Hm. destruct (Itheirs m Hm) as (u & p & Hu & Hp). exists u, p. split; [|done]. unfold set_pc; cbn.
      rewrite lookup_insert_ne; [done|]. intros ->. rewrite H in Hu. by simplify_eq.
  - (* last column applied: the commit is part of the block *)
    assert (HW : wlatch s = Some t) by (by eapply Iw).
    destruct (Ipend t n (or_intror H)) as [Hn Hlt].
    assert (Hnoapp : ¬ at_applied s).
    { intros (u & m & Hu). assert (u = t) by (eapply holder_unique; eauto). subst. rewrite H in Hu. done. }
    constructor; cbn [wlatch rlatch applied half logged pcs ctr].
    + intros u p Hu Hp. lk Hu t; try done. by eapply Iw.
    + intros u p Hu Hp. lk Hu t; try done. by eapply Ir.
    + done.
    + apply Forall_app. split; [done|]. by repeat constructor.
    + by apply sorted_snoc.
    + intros u m [Hu|Hu]; lk Hu t; try done; exfalso.
      * assert (u = t) by (eapply holder_unique; eauto). done.
      * assert (u = t) by (eapply holder_unique; eauto). done.
    + intros u m Hu. lk Hu t; try done.
      * by rewrite (Il2 Hnoapp).
      * exfalso. apply Hnoapp. by exists u, m.
    + intros Hna. exfalso. apply Hna. exists t, n. unfold set_pc; cbn. by rewrite lookup_insert.
    + done.
    + intros u seen Hu. lk Hu t; try done. exfalso.
      assert (holds_r (RIn seen) = false) by (eapply no_reader_when_latched; [exact I|congruence|exact Hu]). done.
    + intros u seen Hu. lk Hu t; try done. by eapply Iseen'.
    + intros u p m Hu Hp. lk Hu t; try done.
      * cbn in Hp. simplify_eq. apply elem_of_app. right. by left.
      * apply elem_of_app. left. by eapply Imine.
    + intros m [Hm|Hm]%elem_of_app.
      * destruct (Itheirs m Hm) as (u & p & Hu & Hp). exists u, p. split; [|done]. unfold set_pc; cbn.
        rewrite lookup_insert_ne; [done|]. intros ->. rewrite H in Hu. by simplify_eq.
      * apply elem_of_list_singleton in Hm. subst m. exists t, (WApplied n). split; [|done]. unfold set_pc; cbn. by rewrite lookup_insert.
  - (* append to the recorder and the logger, still under the latch *)
    assert (HW : wlatch s = Some t) by (by eapply Iw).
    pose proof (Il1 t n H) as Happ.
    constructor; cbn [wlatch rlatch applied half logged pcs ctr].
    + intros u p Hu Hp. lk Hu t; try done. by eapply Iw.
    + intros u p Hu Hp. lk Hu t; try done. by eapply Ir.
    + done.
    + done.
    + done.
    + intros u m [Hu|Hu]; lk Hu t; try done; apply (Ipend u m); auto.
    + intros u m Hu. lk Hu t; try done. exfalso. assert (u = t) by (eapply holder_unique; eauto). done.
    + intros _. done.
    + intros Hh. destruct (Ihalf Hh) as (u & m & Hu). exists u, m. unfold set_pc; cbn.
      rewrite lookup_insert_ne; [done|]. intros ->. rewrite H in Hu. done.
    + intros u seen Hu. lk Hu t; try done. by eapply Iseen.
    + intros u seen Hu. lk Hu t; try done. by eapply Iseen'.
    + intros u p m Hu Hp. lk Hu t; try done.
      * cbn in Hp. simplify_eq. by eapply (Imine t (WApplied m)).
      * by eapply Imine.
    + intros m Hm. destruct (Itheirs m Hm) as (u & p & Hu & Hp). destruct (decide (u = t)) as [->|NE].
      * rewrite H in Hu. simplify_eq. cbn in Hp. simplify_eq. exists t, (WLogged m). split; [|done]. unfold set_pc; cbn. by rewrite lookup_insert.
      * exists u, p. split; [|done]. unfold set_pc; cbn. by rewrite lookup_insert_ne.
  - (* unlock *)
    assert (HW : wlatch s = Some t) by (by eapply Iw).
    assert (Hnoapp : ¬ at_applied s).
    { intros (u & m & Hu). assert (u = t) by (eapply holder_unique; eauto). subst. rewrite H in Hu. done. }
    constructor; cbn [wlatch rlatch applied half logged pcs ctr].
    + intros u p Hu Hp. lk Hu t; try done. exfalso. assert (u = t) by (eapply holder_unique; eauto). done.
    + intros u p Hu Hp. lk Hu t; try done. by eapply Ir.
    + done.
    + done.
    + done.
    + intros u m [Hu|Hu]; lk Hu t; try done; apply (Ipend u m); auto.
    + intros u m Hu. lk Hu t; try done. by eapply Il1.
    + intros _. by apply Il2.
    + intros Hh. destruct (Ihalf Hh) as (u & m & Hu). exists u, m. unfold set_pc; cbn.
      rewrite lookup_insert_ne; [done|]. intros ->. rewrite H in Hu. done.
    + intros u seen Hu. lk Hu t; try done. by eapply Iseen.
    + intros u seen Hu. lk Hu t; try done. by eapply Iseen'.
    + intros u p m Hu Hp. lk Hu t; try done.
      * cbn in Hp. simplify_eq. by eapply (Imine t (WLogged m)).
      * by eapply Imine.
    + intros m Hm. destruct (Itheirs m Hm) as (u & p & Hu & Hp). destruct (decide (u = t)) as [->|NE].
      * rewrite H in Hu. simplify_eq. cbn in Hp. simplify_eq. exists t, (WDone m). split; [|done]. unfold set_pc; cbn. by rewrite lookup_insert.
      * exists u, p. split; [|done]. unfold set_pc; cbn. by rewrite lookup_insert_ne.
  - (* another block's writer draws an id *)
    constructor; cbn [wlatch rlatch applied half logged pcs ctr]; try done.
    + eapply Forall_impl; [exact Iids|]. cbn; intros; lia.
    + intros u n Hu. destruct (Ipend u n Hu) as [A B]. split; [lia|done].
  - (* read latch *)
    assert (NW : ∀ u p, pcs s !! u = Some p -> holds_w p = false) by (intros; by eapply no_writer_when_free).
    constructor; cbn [wlatch rlatch applied half logged pcs ctr].
    + intros u p Hu Hp. lk Hu t; try done. rewrite (NW u p Hu) in Hp. done.
    + intros u p Hu Hp. lk Hu t; [left|right; by eapply Ir].
    + done.
    + done.
    + done.
    + intros u n [Hu|Hu]; lk Hu t; try done; apply (Ipend u n); auto.
    + intros u n Hu. lk Hu t; try done. by eapply Il1.
    + intros Hn. apply Il2. intros (u & n & Hu). apply Hn. exists u, n. unfold set_pc; cbn.
      rewrite lookup_insert_ne; [done|]. intros ->. rewrite H in Hu. done.
    + intros Hh. destruct (Ihalf Hh) as (u & n & Hu). exists u, n. unfold set_pc; cbn.
      rewrite lookup_insert_ne; [done|]. intros ->. rewrite H in Hu. done.
    + intros u seen Hu. lk Hu t; [constructor|]. by eapply Iseen.
    + intros u seen Hu. lk Hu t; try done. by eapply Iseen'.
    + intros u p m Hu Hp. lk Hu t; try done. by eapply Imine.
    + intros m Hm. destruct (Itheirs m Hm) as (u & p & Hu & Hp). exists u, p. split; [|done]. unfold set_pc; cbn.
      rewrite lookup_insert_ne; [done|]. intros ->. rewrite H in Hu. by simplify_eq.
  - (* a read inside the latched section *)
    assert (Hin : t ∈ rlatch s) by (by eapply Ir).
    assert (Hfree : wlatch s = None).
    { destruct (wlatch s) eqn:E; [|done]. rewrite Ie in Hin by done. by apply elem_of_nil in Hin. }
    assert (Hh : half s = false).
    { destruct (half s) eqn:E; [|done]. destruct (Ihalf eq_refl) as (u & n & Hu).
      assert (holds_w (WApplying n) = false) by (eapply no_writer_when_free; eauto). done. }
    constructor; cbn [wlatch rlatch applied half logged pcs ctr].
    + intros u p Hu Hp. lk Hu t; try done. by eapply Iw.
    + intros u p Hu Hp. lk Hu t; try done. by eapply Ir.
    + done.
    + done.
    + done.
    + intros u n [Hu|Hu]; lk Hu t; try done; apply (Ipend u n); auto.
    + intros u n Hu. lk Hu t; try done. by eapply Il1.
    + intros Hn. apply Il2. intros (u & n & Hu). apply Hn. exists u, n. unfold set_pc; cbn.
      rewrite lookup_insert_ne; [done|]. intros ->. rewrite H in Hu. done.
    + intros Hh'. congruence.
    + intros u sn Hu. lk Hu t; try done.
      * apply Forall_app. split; [by eapply Iseen|]. rewrite Hh. by repeat constructor.
      * by eapply Iseen.
    + intros u sn Hu. lk Hu t; try done. by eapply Iseen'.
    + intros u p m Hu Hp. lk Hu t; try done. by eapply Imine.
    + intros m Hm. destruct (Itheirs m Hm) as (u & p & Hu & Hp). exists u, p. split; [|done]. unfold set_pc; cbn.
      rewrite lookup_insert_ne; [done|]. intros ->. rewrite H in Hu. by simplify_eq.
  - (* read unlatch *)
    constructor; cbn [wlatch rlatch applied half logged pcs ctr].
    + intros u p Hu Hp. lk Hu t; try done. by eapply Iw.
    + intros u p Hu Hp. lk Hu t; try done. apply elem_of_list_filter. split; [done|by eapply Ir].
    + intros Hw. rewrite Ie by done. done.
    + done.
    + done.
    + intros u n [Hu|Hu]; lk Hu t; try done; apply (Ipend u n); auto.
    + intros u n Hu. lk Hu t; try done. by eapply Il1.
    + intros Hn. apply Il2. intros (u & n & Hu). apply Hn. exists u, n. unfold set_pc; cbn.
      rewrite lookup_insert_ne; [done|]. intros ->. rewrite H in Hu. done.
    + intros Hh. destruct (Ihalf Hh) as (u & n & Hu). exists u, n. unfold set_pc; cbn.
      rewrite lookup_insert_ne; [done|]. intros ->. rewrite H in Hu. done.
    + intros u sn Hu. lk Hu t; try done. by eapply Iseen.
    + intros u sn Hu. lk Hu t; [|by eapply Iseen']. exists (length (applied s)). by eapply Iseen.
    + intros u p m Hu Hp. lk Hu t; try done. by eapply Imine.
    + intros m Hm. destruct (Itheirs m Hm) as (u & p & Hu & Hp). exists u, p. split; [|done]. unfold set_pc; cbn.
      rewrite lookup_insert_ne; [done|]. intros ->. rewrite H in Hu. by simplify_eq.
Qed.

Theorem inv_reach threads s : wf_init threads -> reach (init threads) s -> Inv s.
Proof.
  intros W R. remember (init threads) as s0 eqn:E. induction R as [|? s1 t s2 R IH St]; [subst; by apply inv_init|].
  eapply inv_step; eauto.
Qed.

(* ---- the statements the properties use ---- *)

(* C15 / C08: for one block the commit ids strictly increase in apply order, and the logger
   (and the snapshot recorder, appended in the same step) receives the commits in exactly that order *)
Corollary ids_increase_in_apply_order threads s :
  wf_init threads -> reach (init threads) s -> StronglySorted N.lt (applied s) ∧ logged s `prefix_of` applied s.
Proof.
  intros W R. pose proof (inv_reach threads s W R) as I. split; [apply I|].
  destruct (decide (map_Exists (λ _ p, is_applied p = true) (pcs s))) as [(t & p & Hu & Hp)|Hn0].
  1: destruct p; try done; rename n into n0; pose (n := n0).
  2: assert (Hn : ¬ at_applied s) by (intros (t & n & Hu); apply Hn0; by exists t, (WApplied n)).
  - rewrite (i_log1 s I t n0 Hu). by exists [n0].
  - rewrite (i_log2 s I Hn). done.
Qed.

(* C10: everything a reader saw between acquiring and releasing the read latch is the state
   after the same number of commits, none of them half-applied *)
Corollary reader_sees_one_committed_state threads s t seen :
  wf_init threads -> reach (init threads) s -> pcs s !! t = Some (RDone seen) ->
  ∃ k, Forall (λ x, x = (k, false)) seen.
Proof. intros W R H. by eapply (i_seen' s (inv_reach threads s W R)). Qed.

(* C09: in every reachable state the applied list contains the commit of every writer that is
   past its apply step, exactly once, and nothing else *)
Corollary every_commit_applied_exactly_once threads s :
  wf_init threads -> reach (init threads) s ->
  NoDup (applied s) ∧
  (∀ t p n, pcs s !! t = Some p -> in_applied p = Some n -> n ∈ applied s) ∧
  (∀ n, n ∈ applied s -> ∃ t p, pcs s !! t = Some p ∧ in_applied p = Some n).
Proof.
  intros W R. pose proof (inv_reach threads s W R) as I. split; [|split; [apply I|apply I]].
  pose proof (i_sorted s I) as S. clear -S. induction S as [|x l S IH F]; [constructor|].
  constructor; [|done]. intros Hin. rewrite Forall_forall in F. specialize (F x Hin). lia.
Qed.

(* no half-applied commit is visible while the write latch is free *)
Corollary no_half_commit_without_latch threads s :
  wf_init threads -> reach (init threads) s -> wlatch s = None -> half s = false.
Proof.
  intros W R Hf. pose proof (inv_reach threads s W R) as I. destruct (half s) eqn:E; [|done].
  destruct (i_half s I E) as (u & n & Hu).
  assert (holds_w (WApplying n) = false) by (eapply no_writer_when_free; eauto). done.
Qed.

(* ------------------------------------------------------------------------------------- *)
(* Executable lock protocol, for validating recorded schedules of the implementation: a thread
   must never get past a latch acquisition that the protocol forbids (sync.RWMutex with writer
   preference).  The opposite direction - observed blocked although the protocol allows it - is
   timing dependent and is not judged. *)
Inductive lev :=
| LWTry (t : nat) (ok : bool) | LWGot (t : nat) | LWRel (t : nat)
| LRTry (t : nat) (ok : bool) | LRGot (t : nat) | LRRel (t : nat).

Record lst := mklst { lw : option nat; lr : list nat; lp : list nat }.
Definition lst0 := mklst None [] [].

Definition rm (t : nat) (l : list nat) : list nat := filter (λ u, u ≠ t) l.

(* returns the new state and whether the event violates the protocol *)
Definition lock_step (s : lst) (e : lev) : lst * bool :=
  let free := bool_decide (lw s = None ∧ lr s = []) in
  match e with
  | LWTry t true => (mklst (Some t) (lr s) (rm t (lp s)), negb free)
  | LWTry t false => (mklst (lw s) (lr s) (t :: rm t (lp s)), false)
  | LWGot t => (mklst (Some t) (lr s) (rm t (lp s)), negb free)
  | LWRel t => (mklst None (lr s) (lp s), negb (bool_decide (lw s = Some t)))
  | LRTry t true => (mklst (lw s) (t :: lr s) (lp s), negb (bool_decide (lw s = None)))
  | LRTry t false => (s, false)
  | LRGot t => (mklst (lw s) (t :: lr s) (lp s), negb (bool_decide (lw s = None)))
  | LRRel t => (mklst (lw s) (rm t (lr s)) (lp s), negb (bool_decide (t ∈ lr s)))
  end.

Fixpoint lock_check (s : lst) (n : N) (l : list lev) : list N :=
  match l with
  | [] => []
  | e :: r => let '(s', bad) := lock_step s e in (if bad then [n] else []) ++ lock_check s' (n + 1) r
  end.

Fixpoint lock_check_all (k : N) (traces : list (list lev)) : list (N * N) :=
  match traces with
  | [] => []
  | tr :: r => ((λ i, (k, i)) <$> lock_check lst0 0 tr) ++ lock_check_all (k + 1) r
  end.
