(* C06, sequential core: replaying the commit a block emitted, on a collection holding the same
   data, yields the same data as the primary's commit of that block. *)
From stdpp Require Import gmap sorting.
From ColumnV Require Import GenConsts Bytes Store StoreProofs StoreProofs2 StoreProofs3 StoreProofs4.
Local Open Scope N_scope.

(* ---- rewriting is idempotent on the same pre-state ---- *)
Lemma rstep_rstep c v o : rstep c v (rstep c v o) = rstep c v o.
Proof.
  unfold rstep, rewrite_op. destruct (ok o) eqn:K; try (by rewrite K).
  destruct (cmerges c) eqn:M; [done|]. by rewrite K.
Qed.

Lemma col_step_rw c o : col_step c (snd (col_step c o)) = col_step c o.
Proof.
  unfold col_step; cbn [snd fst]. fold (rstep c (cells c !! ooff o) o). fold (cstep c (cells c !! ooff o) o).
  rewrite rstep_off. fold (rstep c (cells c !! ooff o) (rstep c (cells c !! ooff o) o)).
  fold (cstep c (cells c !! ooff o) (rstep c (cells c !! ooff o) o)).
  by rewrite rstep_rstep, rstep_same.
Qed.

Lemma col_apply_rw_idem c ops : col_apply c (snd (col_apply c ops)) = col_apply c ops.
Proof.
  revert c. induction ops as [|o r IH]; intro c; [done|].
  cbn [col_apply]. destruct (col_step c o) as [c1 o'] eqn:E1.
  destruct (col_apply c1 r) as [c2 r'] eqn:E2. cbn [snd col_apply].
  pose proof (col_step_rw c o) as H. rewrite E1 in H. cbn [snd] in H. rewrite H.
  specialize (IH c1). rewrite E2 in IH. cbn [snd] in IH. by rewrite IH.
Qed.

Lemma col_apply_plain_rw c ops : cmerges c = false → snd (col_apply c ops) = ops.
Proof.
  revert c. induction ops as [|o r IH]; intros c M; [done|].
  cbn [col_apply]. destruct (col_step c o) as [c1 o'] eqn:E1.
  assert (o' = o).
  { unfold col_step in E1. injection E1 as _ <-. unfold rewrite_op. destruct (ok o); try done. by rewrite M. }
  assert (M1 : cmerges c1 = false).
  { pose proof (col_step_params c o) as P. rewrite E1 in P. cbn in P. destruct P as (-> & _). exact M. }
  specialize (IH c1 M1). destruct (col_apply c1 r) as [c2 r']. cbn in *. by rewrite IH, H.
Qed.

Lemma col_apply_rw_offsets c ops : (ooff <$> snd (col_apply c ops)) = (ooff <$> ops).
Proof.
  revert c. induction ops as [|o r IH]; intro c; [done|].
  cbn [col_apply]. destruct (col_step c o) as [c1 o'] eqn:E1.
  assert (ooff o' = ooff o).
  { unfold col_step in E1. injection E1 as _ <-. apply rstep_off. }
  specialize (IH c1). destruct (col_apply c1 r) as [c2 r']. cbn in *. by rewrite IH, H.
Qed.

Lemma filter_all {A} (P : A → Prop) `{∀ x, Decision (P x)} (l : list A) : Forall P l → filter P l = l.
Proof. induction 1 as [|x l Hx Hl IH]; [done|]. rewrite filter_cons_True by done. by rewrite IH. Qed.

Lemma filter_idem {A} (P : A → Prop) `{∀ x, Decision (P x)} (l : list A) : filter P (filter P l) = filter P l.
Proof. apply filter_all. apply Forall_forall. by intros x [? _]%elem_of_list_filter. Qed.

Lemma rw_block_in_blk s t b c : filter (λ o, in_blk b o = true) (rw_block s t b c) = rw_block s t b c.
Proof.
  apply filter_all. unfold rw_block. destruct (cols s !! c) as [col|]; [|constructor].
  set (ops := filter (λ o, in_blk b o = true) (buf t c)).
  assert (Ho : Forall (λ i, blk i = b) (ooff <$> ops)).
  { apply Forall_fmap, Forall_forall. intros o [H _]%elem_of_list_filter. unfold in_blk in H. by apply N.eqb_eq in H. }
  rewrite <- (col_apply_rw_offsets col ops) in Ho. apply Forall_fmap in Ho.
  eapply Forall_impl; [exact Ho|]. intros o H. unfold in_blk. cbn in H. rewrite H. apply N.eqb_refl.
Qed.

(* ---- the record a block emits, and the transaction Replay builds from it ---- *)
Definition block_rec (s : coll) (t : txn) (b : N) : crec :=
  mkcrec (nextid s) b (marks_block t b)
         (filter (λ p, snd p ≠ []) ((λ c, (c, rw_block s t b c)) <$> merge_sort N.le (elements (dom (cols s))))).

Lemma commit_block_emitted s t b :
  emitted (commit_block s t b) = if emits s t then emitted s ++ [block_rec s t b] else emitted s.
Proof.
  unfold commit_block, emits, block_rec; cbn [emitted]. destruct (negb _ || _); [|done].
  f_equal. f_equal. f_equal. f_equal. apply list_fmap_ext. intros _ c _. f_equal.
  unfold rw_block. rewrite map_lookup_imap. by destruct (cols s !! c).
Qed.

Lemma buf_of_block_rec s t b c : buf (txn_of_rec (block_rec s t b)) c = rw_block s t b c.
Proof.
  unfold buf, txn_of_rec, block_rec; cbn [tbufs rcols].
  set (ids := merge_sort N.le (elements (dom (cols s)))).
  assert (ND : NoDup ids) by (unfold ids; rewrite merge_sort_Permutation; apply NoDup_elements).
  destruct (decide (rw_block s t b c = [])) as [E|NE].
  - rewrite E. rewrite (not_elem_of_list_to_map_1 _ c); [done|].
    intros ([c' l] & Hc & [Hne Hin]%elem_of_list_filter)%elem_of_list_fmap. cbn in *. subst c'.
    apply elem_of_list_fmap in Hin as (c'' & [= -> ->] & _). done.
  - assert (Hin : c ∈ ids).
    { unfold ids. rewrite merge_sort_Permutation, elem_of_elements, elem_of_dom. unfold rw_block in NE. by destruct (cols s !! c). }
    rewrite (elem_of_list_to_map_1 _ c (rw_block s t b c)); [done| |].
    + apply NoDup_fmap_filter. rewrite <- list_fmap_compose.
      replace (fst ∘ (λ c0 : N, (c0, rw_block s t b c0))) with (id : N → N) by done. by rewrite list_fmap_id.
    + apply elem_of_list_filter. split; [done|]. apply elem_of_list_fmap. by exists c.
Qed.

(* ---- commit_block, field by field ---- *)
Definition cb_upd (s : coll) (t : txn) (b : N) : gmap N (column * list op) :=
  map_imap (λ c col, Some (col_apply col (filter (λ o, in_blk b o = true) (buf t c)))) (cols s).
Definition cb_keys1 (s : coll) (t : txn) (b : N) : gmap bytes N :=
  match pk s with
  | Some p => match cols s !! p with
              | Some col => key_apply (cells col) (keys s) (filter (λ o, in_blk b o = true) (buf t p))
              | None => keys s end
  | None => keys s end.

Lemma cb_fill s t b : fill (commit_block s t b) = foldl mark_step (fill s) (marks_block t b).
Proof. done. Qed.
Lemma cb_cols s t b :
  cols (commit_block s t b) = (λ col, fst (col_apply col (marks_block t b))) <$> (fst <$> cb_upd s t b).
Proof. done. Qed.
Lemma cb_comps s t b :
  comps (commit_block s t b) =
  (λ e, mkcent (xid e) (xtarget e) (comp_apply (xstate e) (marks_block t b))) <$>
  ((λ e, mkcent (xid e) (xtarget e) (comp_apply (xstate e) (default [] (snd <$> cb_upd s t b !! xtarget e)))) <$> comps s).
Proof. done. Qed.
Lemma cb_keys s t b :
  keys (commit_block s t b) =
  match pk s with
  | Some p => match ((fst <$> cb_upd s t b) : gmap N column) !! p with
              | Some col => key_apply (cells col) (cb_keys1 s t b) (marks_block t b)
              | None => cb_keys1 s t b end
  | None => cb_keys1 s t b end.
Proof. done. Qed.
Lemma cb_count s t b :
  count (commit_block s t b) =
  match trow t with [] => count s | _ => N.of_nat (size (foldl mark_step (fill s) (marks_block t b))) end.
Proof. done. Qed.
Lemma cb_pk s t b : pk (commit_block s t b) = pk s.
Proof. done. Qed.

Definition same_data (a b : coll) : Prop :=
  fill a = fill b ∧ count a = count b ∧ cols a = cols b ∧ comps a = comps b ∧ pk a = pk b ∧ keys a = keys b.

Lemma commit_block_same_data r s t b : same_data r s → same_data (commit_block r t b) (commit_block s t b).
Proof.
  intros (F & C & Co & Cm & P & K). destruct r, s. cbn in *. subst. done.
Qed.

Definition pk_plain (s : coll) : Prop := ∀ p col, pk s = Some p → cols s !! p = Some col → cmerges col = false.

Section replay.
  Variables (s : coll) (t : txn) (b : N).
  Let t' := txn_of_rec (block_rec s t b).

  Lemma marks_of_rec : marks_block t' b = marks_block t b.
  Proof. unfold marks_block, t', txn_of_rec, block_rec; cbn [trow rrow]. apply filter_idem. Qed.

  Lemma upd_of_rec : cb_upd s t' b = cb_upd s t b.
  Proof.
    unfold cb_upd. apply map_imap_ext. intro c. destruct (cols s !! c) as [col|] eqn:Hc; [|done]. cbn. f_equal.
    unfold t'. rewrite buf_of_block_rec, rw_block_in_blk. unfold rw_block. rewrite Hc. f_equal. apply col_apply_rw_idem.
  Qed.

  Lemma keys1_of_rec : pk_plain s → cb_keys1 s t' b = cb_keys1 s t b.
  Proof.
    intro Hp. unfold cb_keys1. destruct (pk s) as [p|] eqn:Ep; [|done]. destruct (cols s !! p) as [col|] eqn:Hc; [|done].
    unfold t'. rewrite buf_of_block_rec, rw_block_in_blk. unfold rw_block. rewrite Hc.
    by rewrite (col_apply_plain_rw col _ (Hp p col Ep Hc)).
  Qed.

  (* C06: replaying, on the same data, the commit a block emitted reproduces the block's commit *)
  Theorem replay_block_same_data r :
    same_data r s → Quiescent s → pk_plain s →
    same_data (replay r (block_rec s t b)) (commit_block s t b).
  Proof.
    intros Hd Q Hp. unfold replay. cbn [commit_blocks foldl rblk block_rec]. fold t'.
    destruct (commit_block_same_data r s t' b Hd) as (F & C & Co & Cm & P & K).
    unfold same_data. rewrite F, C, Co, Cm, P, K. clear F C Co Cm P K.
    rewrite !cb_fill, !cb_cols, !cb_comps, !cb_keys, !cb_count, !cb_pk.
    rewrite marks_of_rec, upd_of_rec, (keys1_of_rec Hp).
    split; [done|]. split; [|done].
    (* Count: the record carries only this block's markers *)
    assert (Ht' : trow t' = marks_block t b) by done. rewrite Ht'.
    destruct (marks_block t b) as [|m ms] eqn:Em.
    - destruct (trow t) as [|o os] eqn:Et; [done|]. cbn [foldl]. exact Q.
    - destruct (trow t) as [|o os] eqn:Et; [|done].
      unfold marks_block in Em. rewrite Et in Em. done.
  Qed.
End replay.

(* the whole stream of one commit: folding Replay over the emitted commits, in emission order,
   over a replica that held the same data, ends on the same data *)
Fixpoint block_recs (s : coll) (t : txn) (bs : list N) : list crec :=
  match bs with [] => [] | b :: r => block_rec s t b :: block_recs (commit_block s t b) t r end.

Lemma commit_block_quiescent' s t b : Quiescent s → Quiescent (commit_block s t b).
Proof. apply commit_block_quiescent. Qed.

Lemma commit_block_pk_plain s t b : pk_plain s → pk_plain (commit_block s t b).
Proof.
  intros Hp p col' Ep Hc. rewrite cb_pk in Ep.
  destruct (cols s !! p) as [col|] eqn:E.
  - destruct (commit_block_cols s t b p col E) as (c2 & H2 & M & _). rewrite Hc in H2. injection H2 as <-.
    rewrite M. by eapply Hp.
  - rewrite (commit_block_cols_none s t b p E) in Hc. done.
Qed.

Theorem replay_stream_same_data bs : ∀ r s t,
  same_data r s → Quiescent s → pk_plain s →
  same_data (foldl replay r (block_recs s t bs)) (commit_blocks s t bs).
Proof.
  induction bs as [|b bs IH]; intros r s t Hd Q Hp; [exact Hd|].
  cbn [block_recs foldl commit_blocks]. fold (commit_blocks (commit_block s t b) t bs).
  apply IH; [by apply replay_block_same_data|by apply commit_block_quiescent|by apply commit_block_pk_plain].
Qed.

(* and the records are what the primary really emitted *)
Theorem emitted_is_block_recs bs : ∀ s t,
  emits s t = true → emitted (commit_blocks s t bs) = emitted s ++ block_recs s t bs.
Proof.
  induction bs as [|b bs IH]; intros s t He; [by rewrite app_nil_r|].
  cbn [block_recs commit_blocks foldl]. fold (commit_blocks (commit_block s t b) t bs).
  rewrite IH by (by rewrite commit_block_emits). rewrite commit_block_emitted, He. by rewrite <- app_assoc.
Qed.
