(* Correspondence: replays a history recorded from the implementation through the model of
   Store.v and reports every observable on which they differ.  The harness writes the cases
   (coq/cases/*.v); one coqc per shard evaluates [check_all] with vm_compute. *)
From stdpp Require Import gmap sorting.
From ColumnV Require Import GenConsts Bytes Store.
Local Open Scope N_scope.

(* ---- column constructors used by generated cases ---- *)
Definition mkw (w : N) (n : N) : value :=
  if w =? 16 then V2 n else if w =? 32 then V4 n else V8 n.
Definition merge_add (a b : value) : value :=
  let w := width_bits b in mkw w ((raw a + raw b) mod 2 ^ w).
Definition merge_concat (a b : value) : value := VB (vbytes_of a ++ vbytes_of b).
Definition merge_replace (a b : value) : value := b.
(* keeps the smaller string (Go's < on strings is bytewise): the result can be shorter than the delta *)
Definition merge_min (a b : value) : value :=
  match bytes_cmp (vbytes_of a) (vbytes_of b) with Lt => VB (vbytes_of a) | _ => VB (vbytes_of b) end.
(* order-sensitive numeric merge used to tell apply orders apart: v*3+d at the width *)
Definition merge_affine (a b : value) : value :=
  let w := width_bits b in mkw w ((raw a * 3 + raw b) mod 2 ^ w).

(* float addition on integral values (MergeFloat32 / MergeFloat64 with the default merge) *)
Definition merge_fadd (a b : value) : value :=
  match fdec a, fdec b with Some x, Some y => fenc_like b (x + y)%Z | _, _ => b end.

Definition col_num (w : N) (m : value -> value -> value) : column := mkcol true m (mkw w 0) id ∅.
Definition col_str (m : value -> value -> value) : column := mkcol true m (VB []) id ∅.
Definition col_plain : column := mkcol false merge_replace V0 id ∅.      (* enum, key, bool *)
(* the int and uint columns read a put with Reader.Int / Reader.Uint (commit/reader.go:118-141): a
   2- or 4-byte entry is sign- resp. zero-extended to the column's 64 bits *)
Definition widen_signed (v : value) : value :=
  match v with
  | V2 n | V4 n => if n <? 2 ^ width_bits v then V8 (Z.to_N (signed_view v mod 2 ^ 64)) else v
  | _ => v
  end.
Definition widen_unsigned (v : value) : value :=
  match v with V2 n | V4 n => V8 n | _ => v end.
Definition col_int (m : value -> value -> value) : column := mkcol true m (V8 0) widen_signed ∅.
Definition col_uint (m : value -> value -> value) : column := mkcol true m (V8 0) widen_unsigned ∅.

(* ---- observations ---- *)
Definition rowobs := (list (N * value) * list N)%type.

Record obs := mkobs {
  o_res : list res;                             (* one per statement *)
  o_rows : list (N * option rowobs);            (* rows that changed since the last observation *)
  o_count : N;
  o_keys : list (bytes * option N);             (* key lookups that changed *)
  o_trig : list (N * list tevent);              (* new trigger events per trigger *)
  o_emit : list crec                            (* commits emitted since the last observation *)
}.

Inductive step :=
| StCol (id : N) (c : column) (iskey : bool)
| StIndex (id target : N) (p : vpred)
| StTrigger (id target : N)
| StSorted (id target : N)
| StDrop (id : N)
| StDropCol (id : N)
| StSeed (r : crec)                 (* a crafted commit applied through Replay *)
| StSeedDense (b : N) (cs : list (N * list op)) (cnt : N)   (* the same, with every offset of block b inserted *)
| StTxn (body : list stmt) (commitp : bool) (o : obs)
| StNested (pre inner : list stmt) (innercp : bool) (post : list stmt) (commitp : bool) (o : obs)
| StRestore (o : obs)
| StReplica (o : obs).

(* ---- checker state ---- *)
Record cstate := mkcs {
  cs_model : coll;
  cs_rows : gmap N rowobs;
  cs_keys : gmap bytes N;
  cs_trig : gmap N nat;          (* trigger id -> number of events already observed *)
  cs_emit : nat                  (* commits already observed *)
}.
Definition cstate0 : cstate := mkcs coll0 ∅ ∅ ∅ 0.

Definition patch {K A} `{Countable K} (m : gmap K A) (d : list (K * option A)) : gmap K A :=
  foldl (λ m p, match snd p with Some x => <[fst p := x]> m | None => delete (fst p) m end) m d.

(* mismatch tags *)
Definition T_RES := 1.      (* statement result differs; detail = statement index *)
Definition T_VALS := 2.     (* row values differ; detail = first offset *)
Definition T_IDX := 3.      (* index membership differs *)
Definition T_COUNT := 4.
Definition T_KEYS := 5.
Definition T_TRIG := 6.     (* detail = trigger id *)
Definition T_EMIT := 7.
Definition T_FRESH := 8.    (* an insert received an occupied offset; detail = statement index *)
Definition T_RESTORE := 9.  (* model-internal: restore (snapshot s) differs from s *)
Definition T_REPLICA := 10. (* model-internal: replaying the emitted commits differs from s *)
Definition T_WF := 11.      (* not a disagreement: the transaction is outside the side conditions of the invariant theorems *)

Definition first_diff {A} `{EqDecision A} (m1 m2 : gmap N A) : N :=
  match filter (λ i, m1 !! i ≠ m2 !! i) (sorted_elems (dom m1 ∪ dom m2)) with
  | i :: _ => i | [] => 0 end.

Fixpoint res_diffs (n : N) (a b : list res) : list (N * N) :=
  match a, b with
  | [], [] => []
  | x :: a', y :: b' =>
      let fresh_bad := match x with RIns _ _ false => [(T_FRESH, n)] | _ => [] end in
      fresh_bad ++ (if decide (x = y) then [] else [(T_RES, n)]) ++ res_diffs (n + 1) a' b'
  | _, _ => [(T_RES, n)]
  end.

(* Commits and trigger logs are compared per offset: the property fixes the order of the
   operations on one row, not the interleaving of different rows (a length-changing string
   merge is re-appended at the end of its buffer, after the other rows' operations). *)
Definition by_off {A} (key : A -> N) (l : list A) : gmap N (list A) :=
  foldl (λ m x, <[key x := default [] (m !! key x) ++ [x]]> m) ∅ l.
Definition canon_rec (r : crec) : N * gmap N (list op) * list (N * gmap N (list op)) :=
  (rblk r, by_off ooff (rrow r), (λ p, (fst p, by_off ooff (snd p))) <$> rcols r).
Definition tev_off (e : tevent) : N := match e with TStored i _ | TDeleted i => i end.
Global Instance rowobs_eq_dec : EqDecision rowobs. Proof. solve_decision. Defined.

Definition dump_map (s : coll) : gmap N rowobs := list_to_map (dump s).

Definition trig_ids (s : coll) : list N :=
  omap (λ e, match xstate e with XTrigger _ => Some (xid e) | _ => None end) (comps s).

(* compare everything an observation carries against the model state [s'] *)
Definition compare (cs : cstate) (s' : coll) (rs : list res) (o : obs) : cstate * list (N * N) :=
  let rows' := dump_map s' in
  let want_rows := patch (cs_rows cs) (o_rows o) in
  let d_vals := if decide (fst <$> rows' = fst <$> want_rows) then []
                else [(T_VALS, first_diff (fst <$> rows') (fst <$> want_rows))] in
  let d_idx := if decide (snd <$> rows' = snd <$> want_rows) then []
               else [(T_IDX, first_diff (snd <$> rows') (snd <$> want_rows))] in
  let d_count := if decide (count s' = o_count o) then [] else [(T_COUNT, count s')] in
  let want_keys := patch (cs_keys cs) (o_keys o) in
  let d_keys := if decide (keys s' = want_keys) then [] else [(T_KEYS, 0)] in
  let d_trig := flat_map (λ id,
                   let seen := default 0%nat (cs_trig cs !! id) in
                   let news := drop seen (trig_log s' id) in
                   let want := default [] (snd <$> list_find (λ p, fst p = id) (o_trig o) ≫= λ p, Some (snd p)) in
                   if decide (by_off tev_off news = by_off tev_off want) then [] else [(T_TRIG, id)]) (trig_ids s') in
  let news := canon_rec <$> drop (cs_emit cs) (emitted s') in
  let d_emit := if decide (news = canon_rec <$> o_emit o) then [] else [(T_EMIT, N.of_nat (length news))] in
  (mkcs s' rows' (keys s')
        (list_to_map ((λ id, (id, length (trig_log s' id))) <$> trig_ids s'))
        (length (emitted s')),
   res_diffs 0 rs (o_res o) ++ d_vals ++ d_idx ++ d_count ++ d_keys ++ d_trig ++ d_emit).

(* a fresh collection with the same schema (what Restore and a replica start from) *)
Definition reset_comp (x : computed) : computed :=
  match x with XIndex r _ => XIndex r ∅ | XTrigger _ => XTrigger [] | XSorted _ => XSorted ∅ end.
Definition fresh_of (s : coll) : coll :=
  mkcoll ∅ 0 ((λ c, set_cells c ∅) <$> cols s)
         ((λ e, mkcent (xid e) (xtarget e) (reset_comp (xstate e))) <$> comps s)
         (pk s) ∅ 1 [].

Definition same_dump (a b : coll) : bool :=
  bool_decide (dump a = dump b ∧ keys a = keys b ∧ count a = count b).

Definition do_step (cs : cstate) (st : step) : cstate * list (N * N) :=
  let s := cs_model cs in
  let keep s' := mkcs s' (cs_rows cs) (cs_keys cs) (cs_trig cs) (cs_emit cs) in
  match st with
  | StCol id c k => (keep (create_column s id c k), [])
  | StIndex id tg p => (keep (create_computed s id tg (XIndex (λ _ v, eval_pred p v) ∅)), [])
  | StTrigger id tg => (keep (create_computed s id tg (XTrigger [])), [])
  | StSorted id tg => (keep (create_computed s id tg (XSorted ∅)), [])
  | StDrop id => (keep (drop_computed s id), [])
  | StDropCol id => (keep (drop_column s id), [])
  | StSeed r => (keep (replay s r), [])
  | StSeedDense b cols cnt =>
      (* 16384 insert markers are generated here rather than written out; the rows of the seeded
         state are taken from the model (only Count is compared), later steps compare diffs *)
      let r := mkcrec 0 b ((λ k, mkop KInsert (b * c_txn_lock_chunkSize + N.of_nat k) V0) <$> seq 0 (N.to_nat c_txn_lock_chunkSize)) cols in
      let s' := replay s r in
      (mkcs s' (dump_map s') (keys s')
            (list_to_map ((λ id, (id, length (trig_log s' id))) <$> trig_ids s'))
            (length (emitted s')),
       if decide (count s' = cnt) then [] else [(T_COUNT, count s')])
  | StTxn body cp o =>
      let '(s', rs) := run_txn s body cp in
      let '(cs', d) := compare cs s' rs o in
      (cs', (if txn_wf s body then [] else [(T_WF, 0)]) ++ (if txn_keys_ok s body then [] else [(T_WF, 1)]) ++ d)
  | StNested pre inner icp post cp o =>
      (* a complete transaction [inner] runs while the outer one is in flight *)
      let '(s1, t1, r1) := do_stmts s txn0 pre in
      let '(s2, r2) := run_txn s1 inner icp in
      let '(s3, t3, r3) := do_stmts s2 t1 post in
      compare cs (if cp then commit s3 t3 else rollback s3 t3) (r1 ++ r2 ++ r3) o
  | StRestore o =>
      (* the harness snapshots the collection, restores into a fresh one and goes on there *)
      let r := restore (fresh_of s) (snapshot s) in
      let internal := if same_dump r s then [] else [(T_RESTORE, 0)] in
      let r' := mkcoll (fill r) (count r) (cols r) (comps r) (pk r) (keys r) (nextid s) (emitted s) in
      let '(cs', d) := compare (mkcs s (cs_rows cs) (cs_keys cs) (cs_trig cs) (cs_emit cs))
                               r' [] (mkobs [] (o_rows o) (o_count o) (o_keys o) [] []) in
      (* triggers fire again while restoring: forget what the restore logged *)
      (mkcs r' (cs_rows cs') (cs_keys cs') (cs_trig cs') (cs_emit cs'),
       internal ++ filter (λ p, fst p ≠ T_TRIG) d)
  | StReplica o =>
      (* the harness replayed every emitted commit on a second collection; [o] is the diff
         between the replica's dump and the primary's last dump: must be empty, as must be
         the model's own replay *)
      let r := foldl replay (fresh_of s) (emitted s) in
      let internal := if same_dump r s then [] else [(T_REPLICA, 0)] in
      let ext := match o_rows o, o_keys o with [], [] => [] | _, _ => [(T_REPLICA, 1)] end in
      let extc := if decide (o_count o = count s) then [] else [(T_REPLICA, 2)] in
      (cs, internal ++ ext ++ extc)
  end.

Fixpoint run_steps (cs : cstate) (n : N) (l : list step) : list (N * N * N) :=
  match l with
  | [] => []
  | st :: r => let '(cs', d) := do_step cs st in
               ((λ p, (n, fst p, snd p)) <$> d) ++ run_steps cs' (n + 1) r
  end.

Definition check_case (l : list step) : list (N * N * N) := run_steps cstate0 0 l.

(* (case number, step, tag, detail) for every disagreement of a shard *)
Fixpoint check_all (n : N) (cases : list (list step)) : list (N * (N * N * N)) :=
  match cases with
  | [] => []
  | c :: r => ((λ d, (n, d)) <$> check_case c) ++ check_all (n + 1) r
  end.
