(* L3 over L2, readers: ConcStore.v's writers plus any number of reader threads.  A reader takes
   the READ latch of one block (possible only while no writer holds that block's latch; a writer
   can take the latch only while no reader holds it - txn_lock.go QueryAt / rangeRead against
   rangeWrite), reads any cells of rows of that block, each read returning what the shared
   collection holds at that moment, and releases the latch.
   [reader_sees_one_committed_state] (C10 with data): for EVERY interleaving of any number of
   writers and readers, all the values one reader was handed while it held the latch are the values
   of ONE state of the collection - the fold of the first k block commits of the apply order, k the
   number of block commits applied when the reader took the latch: a state in which every
   transaction's changes to that block are applied completely or not at all, and every value is one
   that some transaction committed (or the initial one).
   The writers' part of every reachable state is a reachable state of ConcStore.v ([xreach_base]),
   so all its theorems carry over. *)
From stdpp Require Import gmap list.
From ColumnV Require Import Bytes Store StoreProofs StoreProofs2 StoreProofs5 ConcStore.
Local Open Scope N_scope.

Inductive rpc := RIdle | RHold (mark : nat) | RDone (mark : nat).
Record rth := mkr { rblk : N; rstate : rpc; rseen : list (N * N * option value) }.   (* column, offset, value *)

Record xsys := mkx { base : sys; rds : gmap nat rth }.

(* no reader holds the read latch of block b *)
Definition no_reader (s : xsys) (b : N) : Prop := ∀ t r m, rds s !! t = Some r → rstate r = RHold m → rblk r ≠ b.

Inductive xstep : xsys → xsys → Prop :=
| x_lock s t w b bs :
    ths (base s) !! t = Some w → wtodo w = b :: bs → whold w = None → latch (base s) !! b = None →
    no_reader s b →
    xstep s (mkx (mksys (st (base s)) (<[b := t]> (latch (base s)))
                        (<[t := mkw (wtxn w) (wtodo w) (Some b) false]> (ths (base s))) (trace (base s)))
                 (rds s))
| x_apply s t w b :
    ths (base s) !! t = Some w → whold w = Some b → wapplied w = false →
    xstep s (mkx (mksys (commit_block (st (base s)) (wtxn w) b) (latch (base s))
                        (<[t := mkw (wtxn w) (wtodo w) (Some b) true]> (ths (base s))) (trace (base s) ++ [(t, wtxn w, b)]))
                 (rds s))
| x_unlock s t w b :
    ths (base s) !! t = Some w → whold w = Some b → wapplied w = true →
    xstep s (mkx (mksys (st (base s)) (delete b (latch (base s)))
                        (<[t := mkw (wtxn w) (tail (wtodo w)) None false]> (ths (base s))) (trace (base s)))
                 (rds s))
| x_rlock s t r :
    rds s !! t = Some r → rstate r = RIdle → latch (base s) !! rblk r = None →
    xstep s (mkx (base s)
                 (<[t := mkr (rblk r) (RHold (length (trace (base s)))) (rseen r)]> (rds s)))
| x_read s t r m c i :
    rds s !! t = Some r → rstate r = RHold m → blk i = rblk r →
    xstep s (mkx (base s)
                 (<[t := mkr (rblk r) (RHold m) (rseen r ++ [(c, i, read (st (base s)) c i)])]> (rds s)))
| x_runlock s t r m :
    rds s !! t = Some r → rstate r = RHold m →
    xstep s (mkx (base s)
                 (<[t := mkr (rblk r) (RDone m) (rseen r)]> (rds s))).

Inductive xreach (s : xsys) : xsys → Prop :=
| xr_refl : xreach s s
| xr_step s1 s2 : xreach s s1 → xstep s1 s2 → xreach s s2.

Definition xinit (s0 : coll) (txns : gmap nat txn) (readers : gmap nat N) : xsys :=
  mkx (init s0 txns) ((λ b, mkr b RIdle []) <$> readers).

(* the writers' part of a run is a run of ConcStore.v *)
Lemma xstep_base s s' : xstep s s' → base s' = base s ∨ step (base s) (base s').
Proof.
  destruct 1; cbn [base]; try (by left); right.
  - by eapply s_lock.
  - by eapply s_apply.
  - by eapply s_unlock.
Qed.

Theorem xreach_base s0 txns readers s : xreach (xinit s0 txns readers) s → reach (init s0 txns) (base s).
Proof.
  induction 1 as [|s1 s2 R IH S]; [apply r_refl|].
  destruct (xstep_base _ _ S) as [-> | St]; [exact IH|by eapply r_step].
Qed.

(* the trace only grows *)
Lemma xstep_trace s s' : xstep s s' → ∃ l, trace (base s') = trace (base s) ++ l.
Proof. destruct 1; cbn [base trace]; try (by exists []; rewrite app_nil_r). by eexists. Qed.

Definition holds_r (r : rth) : option nat := match rstate r with RHold m => Some m | _ => None end.
Definition mark_of (r : rth) : option nat := match rstate r with RHold m | RDone m => Some m | RIdle => None end.

Definition state_at (s0 : coll) (tr : list entry) (k : nat) : coll := foldl apply_entry s0 (take k tr).

Record XInv (s0 : coll) (s : xsys) : Prop := {
  (* while a reader holds the read latch of a block, the block's write latch is free *)
  x_free : ∀ t r m, rds s !! t = Some r → rstate r = RHold m → latch (base s) !! rblk r = None;
  (* since a holding reader took the latch, no commit was applied to its block *)
  x_quiet : ∀ t r m, rds s !! t = Some r → rstate r = RHold m →
              Forall (λ e, eblk e ≠ rblk r) (drop m (trace (base s)));
  (* everything a reader was handed is the value in the state at its mark *)
  x_seen : ∀ t r m, rds s !! t = Some r → mark_of r = Some m →
             (m <= length (trace (base s)))%nat ∧
             Forall (λ x, snd x = read (state_at s0 (trace (base s)) m) (fst (fst x)) (snd (fst x))) (rseen r);
  x_idle : ∀ t r, rds s !! t = Some r → rstate r = RIdle → rseen r = [];
}.

(* cells of a block are untouched by commits of other blocks *)
Lemma read_other_blocks tr : ∀ a c i, Forall (λ e, eblk e ≠ blk i) tr → read (foldl apply_entry a tr) c i = read a c i.
Proof.
  induction tr as [|e tr IH]; intros a c i Hf; [done|]. inversion Hf as [|? ? He Hr]; subst. cbn [foldl].
  rewrite IH by done. unfold apply_entry, read.
  destruct (cols a !! c) as [col|] eqn:Hc.
  - destruct (commit_block_cols a (etxn e) (eblk e) c col Hc) as (col' & H' & _ & _ & _ & _ & Hcell).
    rewrite H', Hcell. by rewrite decide_False by done.
  - by rewrite (commit_block_cols_none a (etxn e) (eblk e) c Hc).
Qed.

Lemma state_at_app s0 tr l m : (m <= length tr)%nat → state_at s0 (tr ++ l) m = state_at s0 tr m.
Proof. intro H. unfold state_at. by rewrite take_app_le. Qed.

Lemma xinv_init s0 txns readers : XInv s0 (xinit s0 txns readers).
Proof.
  constructor; cbn [rds base xinit].
  - intros t r m H E. rewrite lookup_fmap in H. destruct (readers !! t); [|done]. cbn in H. by injection H as <-.
  - intros t r m H E. rewrite lookup_fmap in H. destruct (readers !! t); [|done]. cbn in H. by injection H as <-.
  - intros t r m H E. rewrite lookup_fmap in H. destruct (readers !! t); [|done]. cbn in H. by injection H as <-.
  - intros t r H E. rewrite lookup_fmap in H. destruct (readers !! t); [|done]. cbn in H. by injection H as <-.
Qed.

Lemma xinv_step s0 txns s s' :
  reach (init s0 txns) (base s) → XInv s0 s → xstep s s' → XInv s0 s'.
Proof.
  intros R I S. pose proof (inv_reach _ _ _ R) as BI. pose proof (store_is_fold _ _ _ R) as Hfold.
  destruct S as [s t w b bs Ht Htodo Hhold Hfree Hnr | s t w b Ht Hhold Happ | s t w b Ht Hhold Happ
                | s t r Hr Hst Hfree | s t r m c i Hr Hst Hblk | s t r m Hr Hst].
  - (* writer locks b: no reader holds b *)
    constructor; cbn [base rds latch trace].
    + intros u r m Hu E. rewrite lookup_insert_ne; [by eapply (x_free _ _ I)|]. intros ->. by eapply Hnr.
    + apply (x_quiet _ _ I).
    + apply (x_seen _ _ I).
    + apply (x_idle _ _ I).
  - (* writer applies to b: it holds b's latch, so no reader holds b *)
    destruct (i_hold _ _ BI t w b Ht Hhold) as [_ Hl].
    constructor; cbn [base rds latch trace].
    + apply (x_free _ _ I).
    + intros u r m Hu E. pose proof (x_quiet _ _ I u r m Hu E) as Q. pose proof (x_seen _ _ I u r m Hu) as [Hm _]; [by unfold mark_of; rewrite E|].
      rewrite drop_app_le by done. apply Forall_app. split; [exact Q|]. constructor; [|constructor]. cbn.
      intros ->. pose proof (x_free _ _ I u r m Hu E) as F. congruence.
    + intros u r m Hu E. destruct (x_seen _ _ I u r m Hu E) as [Hm Hs]. split; [rewrite app_length; lia|].
      by rewrite state_at_app.
    + apply (x_idle _ _ I).
  - (* writer unlocks *)
    constructor; cbn [base rds latch trace].
    + intros u r m Hu E. pose proof (x_free _ _ I u r m Hu E) as F.
      destruct (decide (rblk r = b)) as [->|Hne]; [by rewrite lookup_delete|by rewrite lookup_delete_ne].
    + apply (x_quiet _ _ I).
    + apply (x_seen _ _ I).
    + apply (x_idle _ _ I).
  - (* reader takes the read latch *)
    constructor; cbn [base rds].
    + intros u r' m Hu E. destruct (decide (u = t)) as [->|Hne].
      * rewrite lookup_insert in Hu. injection Hu as <-. exact Hfree.
      * rewrite lookup_insert_ne in Hu by done. by eapply (x_free _ _ I).
    + intros u r' m Hu E. destruct (decide (u = t)) as [->|Hne].
      * rewrite lookup_insert in Hu. injection Hu as <-. cbn in E. injection E as <-. by rewrite drop_all.
      * rewrite lookup_insert_ne in Hu by done. by eapply (x_quiet _ _ I).
    + intros u r' m Hu E. destruct (decide (u = t)) as [->|Hne].
      * rewrite lookup_insert in Hu. injection Hu as <-. cbn in E. injection E as <-. split; [done|].
        cbn [rseen]. rewrite (x_idle _ _ I t r Hr Hst). constructor.
      * rewrite lookup_insert_ne in Hu by done. by eapply (x_seen _ _ I).
    + intros u r' Hu E. destruct (decide (u = t)) as [->|Hne]; [rewrite lookup_insert in Hu; by injection Hu as <-|].
      rewrite lookup_insert_ne in Hu by done. by eapply (x_idle _ _ I).
  - (* reader reads a cell of its block *)
    pose proof (x_quiet _ _ I t r m Hr Hst) as Q.
    destruct (x_seen _ _ I t r m Hr) as [Hm Hs]; [by unfold mark_of; rewrite Hst|].
    constructor; cbn [base rds].
    + intros u r' m' Hu E. destruct (decide (u = t)) as [->|Hne].
      * rewrite lookup_insert in Hu. injection Hu as <-. cbn in E. injection E as <-. exact (x_free _ _ I t r m Hr Hst).
      * rewrite lookup_insert_ne in Hu by done. by eapply (x_free _ _ I).
    + intros u r' m' Hu E. destruct (decide (u = t)) as [->|Hne].
      * rewrite lookup_insert in Hu. injection Hu as <-. cbn in E. injection E as <-. exact Q.
      * rewrite lookup_insert_ne in Hu by done. by eapply (x_quiet _ _ I).
    + intros u r' m' Hu E. destruct (decide (u = t)) as [->|Hne].
      * rewrite lookup_insert in Hu. injection Hu as <-. cbn in E. injection E as <-. split; [done|].
        cbn [rseen]. apply Forall_app. split; [exact Hs|]. constructor; [|constructor]. cbn [fst snd].
        rewrite Hfold. unfold state_at. rewrite <- (take_drop m (trace (base s))) at 1. rewrite foldl_app.
        apply read_other_blocks. by rewrite Hblk.
      * rewrite lookup_insert_ne in Hu by done. by eapply (x_seen _ _ I).
    + intros u r' Hu E. destruct (decide (u = t)) as [->|Hne]; [rewrite lookup_insert in Hu; by injection Hu as <-|].
      rewrite lookup_insert_ne in Hu by done. by eapply (x_idle _ _ I).
  - (* reader releases *)
    destruct (x_seen _ _ I t r m Hr) as [Hm Hs]; [by unfold mark_of; rewrite Hst|].
    constructor; cbn [base rds].
    + intros u r' m' Hu E. destruct (decide (u = t)) as [->|Hne]; [rewrite lookup_insert in Hu; by injection Hu as <-|].
      rewrite lookup_insert_ne in Hu by done. by eapply (x_free _ _ I).
    + intros u r' m' Hu E. destruct (decide (u = t)) as [->|Hne]; [rewrite lookup_insert in Hu; by injection Hu as <-|].
      rewrite lookup_insert_ne in Hu by done. by eapply (x_quiet _ _ I).
    + intros u r' m' Hu E. destruct (decide (u = t)) as [->|Hne].
      * rewrite lookup_insert in Hu. injection Hu as <-. cbn in E. injection E as <-. by split.
      * rewrite lookup_insert_ne in Hu by done. by eapply (x_seen _ _ I).
    + intros u r' Hu E. destruct (decide (u = t)) as [->|Hne]; [rewrite lookup_insert in Hu; by injection Hu as <-|].
      rewrite lookup_insert_ne in Hu by done. by eapply (x_idle _ _ I).
Qed.

Theorem xinv_reach s0 txns readers s : xreach (xinit s0 txns readers) s → XInv s0 s.
Proof.
  induction 1 as [|s1 s2 R IH S]; [apply xinv_init|].
  eapply xinv_step; [by eapply xreach_base|exact IH|exact S].
Qed.

(* C10 with data: everything one reader was handed between taking and releasing the read latch is
   the content of ONE state of the collection - the fold of the first k block commits *)
Theorem reader_sees_one_committed_state s0 txns readers s t r :
  xreach (xinit s0 txns readers) s → rds s !! t = Some r →
  ∃ k, (k <= length (trace (base s)))%nat ∧
       ∀ c i v, (c, i, v) ∈ rseen r → v = read (foldl apply_entry s0 (take k (trace (base s)))) c i.
Proof.
  intros R Hr. pose proof (xinv_reach _ _ _ _ R) as I.
  destruct (mark_of r) as [m|] eqn:E.
  - destruct (x_seen _ _ I t r m Hr E) as [Hm Hs]. exists m. split; [done|].
    intros c i v Hin. rewrite Forall_forall in Hs. by apply (Hs (c, i, v)).
  - exists 0%nat. split; [lia|]. intros c i v Hin. unfold mark_of in E. destruct (rstate r) eqn:Er; try done.
    rewrite (x_idle _ _ I t r Hr Er) in Hin. by apply elem_of_nil in Hin.
Qed.

(* and while the reader holds the latch that state is, on the reader's block, the CURRENT one: no
   commit touched the block in between *)
Theorem held_block_is_stable s0 txns readers s t r m c i :
  xreach (xinit s0 txns readers) s → rds s !! t = Some r → rstate r = RHold m → blk i = rblk r →
  read (st (base s)) c i = read (foldl apply_entry s0 (take m (trace (base s)))) c i.
Proof.
  intros R Hr Hst Hb. pose proof (xinv_reach _ _ _ _ R) as I.
  rewrite (store_is_fold _ _ _ (xreach_base _ _ _ _ R)).
  rewrite <- (take_drop m (trace (base s))) at 1. rewrite foldl_app. apply read_other_blocks.
  rewrite Hb. by eapply (x_quiet _ _ I).
Qed.

(* mutual exclusion of the two latch modes *)
Theorem reader_excludes_writer s0 txns readers s t r m u w :
  xreach (xinit s0 txns readers) s → rds s !! t = Some r → rstate r = RHold m →
  ths (base s) !! u = Some w → whold w ≠ Some (rblk r).
Proof.
  intros R Hr Hst Hu Hh. pose proof (xinv_reach _ _ _ _ R) as I.
  pose proof (inv_reach _ _ _ (xreach_base _ _ _ _ R)) as BI.
  destruct (i_hold _ _ BI u w (rblk r) Hu Hh) as [_ L]. pose proof (x_free _ _ I t r m Hr Hst). congruence.
Qed.
