(* Theorems about the sequential model of Store.v: per-cell semantics of a commit (C01),
   rewritten operations are absolute (C05/C06), bitmap indexes equal their predicate (C03),
   liveness invariants of cells (C11), rollback (C02). *)
From stdpp Require Import gmap mapset sorting.
From ColumnV Require Import GenConsts Bytes Store.
Local Open Scope N_scope.

Lemma elem_of_sadd j i (X : gset N) : j ∈ sadd i X ↔ j = i ∨ j ∈ X.
Proof.
  destruct X as [m]. unfold sadd.
  change (j ∈ Mapset (<[i:=()]> m)) with (<[i:=()]> m !! j = Some ()).
  change (j ∈ Mapset m) with (m !! j = Some ()).
  destruct (decide (j = i)) as [->|NE].
  - rewrite lookup_insert. tauto.
  - rewrite lookup_insert_ne by done. tauto.
Qed.
Lemma elem_of_sdel j i (X : gset N) : j ∈ sdel i X ↔ j ≠ i ∧ j ∈ X.
Proof.
  destruct X as [m]. unfold sdel.
  change (j ∈ Mapset (delete i m)) with (delete i m !! j = Some ()).
  change (j ∈ Mapset m) with (m !! j = Some ()).
  destruct (decide (j = i)) as [->|NE].
  - rewrite lookup_delete. split; [done|tauto].
  - rewrite lookup_delete_ne by done. tauto.
Qed.
Lemma sadd_union i (X : gset N) : sadd i X = {[i]} ∪ X.
Proof. apply set_eq. intro j. rewrite elem_of_sadd. set_solver. Qed.
Lemma sdel_diff i (X : gset N) : sdel i X = X ∖ {[i]}.
Proof. apply set_eq. intro j. rewrite elem_of_sdel. set_solver. Qed.

(* ------------------------------------------------------------------------------------- *)
(* generic list facts                                                                      *)

Lemma filter_off_blk (b i : N) (l : list op) :
  filter (λ o, ooff o = i) (filter (λ o, in_blk b o = true) l)
  = if decide (blk i = b) then filter (λ o, ooff o = i) l else [].
Proof.
  induction l as [|o l IH]; [by destruct (decide _)|].
  destruct (decide (ooff o = i)) as [E|NE].
  - destruct (decide (blk i = b)) as [Eb|NEb].
    + rewrite (filter_cons_True (λ o, in_blk b o = true)) by (unfold in_blk; rewrite E, Eb; apply N.eqb_refl).
      rewrite !filter_cons_True by done. by rewrite IH.
    + rewrite (filter_cons_False (λ o, in_blk b o = true)).
      2:{ unfold in_blk. rewrite E. intros H%N.eqb_eq. done. }
      exact IH.
  - rewrite (filter_cons_False (λ o, ooff o = i) o l) by done.
    destruct (decide (in_blk b o = true)).
    + rewrite filter_cons_True by done. rewrite filter_cons_False by done. exact IH.
    + rewrite filter_cons_False by done. exact IH.
Qed.

Lemma filter_none {A} (P : A → Prop) `{∀ x, Decision (P x)} (l : list A) :
  (∀ x, x ∈ l → ¬ P x) → filter P l = [].
Proof.
  induction l as [|x l IH]; intro Hn; [done|].
  rewrite filter_cons_False by (apply Hn; left). apply IH. intros y Hy. apply Hn. by right.
Qed.

(* ------------------------------------------------------------------------------------- *)
(* one column                                                                              *)

Definition cstep (c : column) := cell_step (cmrg c) (czero c) (cmerges c) (ccast c).
Definition rstep (c : column) := rewrite_op (cmrg c) (czero c) (cmerges c).

Lemma col_step_params c o :
  cmerges (fst (col_step c o)) = cmerges c ∧ cmrg (fst (col_step c o)) = cmrg c ∧ czero (fst (col_step c o)) = czero c ∧ ccast (fst (col_step c o)) = ccast c.
Proof. done. Qed.

Lemma col_step_cells c o i :
  cells (fst (col_step c o)) !! i = if decide (ooff o = i) then cstep c (cells c !! i) o else cells c !! i.
Proof.
  unfold col_step, cstep; cbn [fst set_cells cells].
  destruct (decide (ooff o = i)) as [<-|NE].
  - destruct (cell_step _ _ _ _ _ o); [by rewrite lookup_insert|by rewrite lookup_delete].
  - destruct (cell_step _ _ _ _ _ o); [by rewrite lookup_insert_ne|by rewrite lookup_delete_ne].
Qed.

Lemma col_apply_params c ops :
  cmerges (fst (col_apply c ops)) = cmerges c ∧ cmrg (fst (col_apply c ops)) = cmrg c ∧ czero (fst (col_apply c ops)) = czero c ∧ ccast (fst (col_apply c ops)) = ccast c.
Proof.
  revert c; induction ops as [|o r IH]; intro c; [done|].
  cbn [col_apply]. destruct (col_step c o) as [c1 o'] eqn:E1.
  destruct (col_apply c1 r) as [c2 r'] eqn:E2. cbn [fst].
  specialize (IH c1). rewrite E2 in IH. cbn [fst] in IH.
  pose proof (col_step_params c o) as P. rewrite E1 in P. cbn [fst] in P.
  destruct IH as (-> & -> & -> & ->). exact P.
Qed.

(* L1: a column after a list of ops, looked up at one offset, is the fold of that offset's ops *)
Lemma col_apply_cells c ops i :
  cells (fst (col_apply c ops)) !! i = foldl (cstep c) (cells c !! i) (filter (λ o, ooff o = i) ops).
Proof.
  revert c; induction ops as [|o r IH]; intro c; [done|].
  cbn [col_apply]. destruct (col_step c o) as [c1 o'] eqn:E1.
  destruct (col_apply c1 r) as [c2 r'] eqn:E2. cbn [fst].
  specialize (IH c1). rewrite E2 in IH. cbn [fst] in IH. rewrite IH.
  pose proof (col_step_cells c o i) as C. rewrite E1 in C. cbn [fst] in C.
  pose proof (col_step_params c o) as P. rewrite E1 in P. cbn [fst] in P. destruct P as (P1 & P2 & P3 & P4).
  assert (Hs : cstep c1 = cstep c) by (unfold cstep; by rewrite P1, P2, P3, P4). rewrite Hs, C.
  destruct (decide (ooff o = i)).
  - by rewrite filter_cons_True.
  - by rewrite filter_cons_False.
Qed.

(* the per-offset view of the rewritten list *)
Fixpoint rw_list (c : column) (v : option value) (l : list op) : list op :=
  match l with [] => [] | o :: r => rstep c v o :: rw_list c (cstep c v o) r end.

Lemma rstep_off c v o : ooff (rstep c v o) = ooff o.
Proof. unfold rstep, rewrite_op. destruct (ok o); try done. by destruct (cmerges c). Qed.

Lemma col_apply_rw c ops i :
  filter (λ o, ooff o = i) (snd (col_apply c ops)) = rw_list c (cells c !! i) (filter (λ o, ooff o = i) ops).
Proof.
  revert c; induction ops as [|o r IH]; intro c; [done|].
  cbn [col_apply]. destruct (col_step c o) as [c1 o'] eqn:E1.
  destruct (col_apply c1 r) as [c2 r'] eqn:E2. cbn [snd].
  specialize (IH c1). rewrite E2 in IH. cbn [snd] in IH.
  pose proof (col_step_cells c o i) as C. rewrite E1 in C. cbn [fst] in C.
  pose proof (col_step_params c o) as P. rewrite E1 in P. cbn [fst] in P. destruct P as (P1 & P2 & P3 & P4).
  assert (Ho' : o' = rstep c (cells c !! ooff o) o) by (unfold col_step in E1; by injection E1 as _ <-).
  assert (Hrw : ∀ v l, rw_list c1 v l = rw_list c v l).
  { intros v l; revert v; induction l as [|x l IHl]; intro v; [done|]. cbn.
    unfold rstep, cstep. rewrite P1, P2, P3, P4. f_equal. apply IHl. }
  destruct (decide (ooff o = i)) as [E|NE].
  - rewrite (filter_cons_True _ o r) by done.
    rewrite filter_cons_True by (by rewrite Ho', rstep_off).
    rewrite IH, C. cbn [rw_list]. rewrite Hrw. f_equal. by rewrite Ho', E.
  - rewrite (filter_cons_False _ o r) by done.
    rewrite filter_cons_False by (by rewrite Ho', rstep_off).
    rewrite IH, C. apply Hrw.
Qed.

Lemma col_apply_rw_length c ops : length (snd (col_apply c ops)) = length ops.
Proof.
  revert c; induction ops as [|o r IH]; intro c; [done|].
  cbn [col_apply]. destruct (col_step c o) as [c1 o']. specialize (IH c1).
  destruct (col_apply c1 r) as [c2 r']. cbn in *. by rewrite IH.
Qed.

(* ops that carry no merge are not rewritten *)
Definition no_merge (l : list op) := Forall (λ o, ok o ≠ KMerge) l.
Lemma col_apply_no_merge c ops : no_merge ops → snd (col_apply c ops) = ops.
Proof.
  revert c; induction ops as [|o r IH]; intros c H; [done|].
  inversion H as [|? ? Ho Hr]; subst.
  cbn [col_apply]. destruct (col_step c o) as [c1 o'] eqn:E1.
  assert (o' = o).
  { unfold col_step in E1. injection E1 as _ <-. unfold rewrite_op. destruct (ok o); done. }
  subst o'. specialize (IH c1 Hr). destruct (col_apply c1 r) as [c2 r']. cbn in *. by rewrite IH.
Qed.

(* L3: a rewritten op is absolute: its effect on a cell does not depend on the cell *)
Definition absolute (c : column) (o : op) := ∀ v v', cstep c v o = cstep c v' o.
Definition neutral (c : column) (o : op) := ∀ v, cstep c v o = v.

Lemma rstep_absolute_or_neutral c v o :
  (absolute c (rstep c v o) ∧ ∀ v', cstep c v' (rstep c v o) = cstep c v o) ∨
  (neutral c (rstep c v o) ∧ cstep c v o = v).
Proof.
  unfold absolute, neutral, rstep, cstep, rewrite_op, cell_step.
  destruct (ok o) eqn:K.
  - left. rewrite K. done.
  - right. rewrite K. done.
  - left. rewrite K. done.
  - destruct (cmerges c) eqn:M.
    + left. cbn [ok oval]. done.
    + right. rewrite K. done.
  - right. rewrite K. done.
Qed.

Lemma rstep_same c v o : cstep c v (rstep c v o) = cstep c v o.
Proof.
  destruct (rstep_absolute_or_neutral c v o) as [[_ Ha]|[Hn Hv]]; [apply Ha|].
  by rewrite Hn, Hv.
Qed.

(* replaying on the primary's own pre-state reproduces the primary (the replica starts equal) *)
Lemma rw_list_same c v l : foldl (cstep c) v (rw_list c v l) = foldl (cstep c) v l.
Proof.
  revert v; induction l as [|o r IH]; intro v; [done|].
  cbn [rw_list foldl]. rewrite rstep_same. apply IH.
Qed.

(* replaying the rewritten ops of one offset on ANY cell gives the primary's cell, provided the
   offset was touched by an absolute op at all; otherwise the cell is left alone *)
Lemma rw_list_replay c v l v' :
  foldl (cstep c) v' (rw_list c v l) = foldl (cstep c) v l ∨
  (foldl (cstep c) v' (rw_list c v l) = v' ∧ foldl (cstep c) v l = v).
Proof.
  revert v v'; induction l as [|o r IH]; intros v v'; [by right|].
  cbn [rw_list foldl].
  destruct (rstep_absolute_or_neutral c v o) as [[_ Ha]|[Hn Hv]].
  - left. rewrite Ha. apply rw_list_same.
  - rewrite Hn, Hv. apply IH.
Qed.

(* rewriting is idempotent: a rewritten list is not rewritten again *)
Lemma rstep_idem c v v' o : rstep c v' (rstep c v o) = rstep c v o ∨ (cmerges c = false ∧ rstep c v o = o).
Proof.
  unfold rstep, rewrite_op. destruct (ok o) eqn:K; try (left; by rewrite K).
  destruct (cmerges c) eqn:M; [left; done|right; done].
Qed.

(* ------------------------------------------------------------------------------------- *)
(* C01: what a commit does to one cell                                                     *)

Definition cell_final (c : column) (v : option value) (ops marks : list op) : option value :=
  foldl (cstep c) (foldl (cstep c) v ops) marks.

Lemma commit_block_cols s t b c col :
  cols s !! c = Some col →
  ∃ col', cols (commit_block s t b) !! c = Some col' ∧
    cmerges col' = cmerges col ∧ cmrg col' = cmrg col ∧ czero col' = czero col ∧ ccast col' = ccast col ∧
    ∀ i, cells col' !! i =
      if decide (blk i = b)
      then cell_final col (cells col !! i) (filter (λ o, ooff o = i) (buf t c)) (filter (λ o, ooff o = i) (trow t))
      else cells col !! i.
Proof.
  intro Hc. unfold commit_block; cbn [cols].
  set (ops := filter (λ o, in_blk b o = true) (buf t c)).
  set (mops := filter (λ o, in_blk b o = true) (trow t)).
  exists (fst (col_apply (fst (col_apply col ops)) mops)).
  split.
  { rewrite !lookup_fmap, map_lookup_imap, Hc. done. }
  destruct (col_apply_params col ops) as (A1 & A2 & A3 & A4).
  destruct (col_apply_params (fst (col_apply col ops)) mops) as (B1 & B2 & B3 & B4).
  rewrite B1, B2, B3, B4, A1, A2, A3, A4. do 4 (split; [done|]).
  intro i. rewrite col_apply_cells, col_apply_cells.
  assert (Hs : cstep (fst (col_apply col ops)) = cstep col) by (unfold cstep; by rewrite A1, A2, A3, A4).
  rewrite Hs. unfold ops, mops. rewrite !filter_off_blk.
  destruct (decide (blk i = b)); done.
Qed.

Lemma commit_block_cells2 s t b c col :
  cols s !! c = Some col →
  ∃ col', cols (commit_block s t b) !! c = Some col' ∧
    ∀ i, cells col' !! i =
      foldl (cstep col) (foldl (cstep col) (cells col !! i)
                               (filter (λ o, ooff o = i) (filter (λ o, in_blk b o = true) (buf t c))))
            (filter (λ o, ooff o = i) (filter (λ o, in_blk b o = true) (trow t))).
Proof.
  intro Hc. unfold commit_block; cbn [cols].
  eexists. split.
  { rewrite !lookup_fmap, map_lookup_imap, Hc. done. }
  intro i. rewrite col_apply_cells, col_apply_cells.
  destruct (col_apply_params col (filter (λ o, in_blk b o = true) (buf t c))) as (A1 & A2 & A3 & A4).
  assert (Hs : cstep (fst (col_apply col (filter (λ o, in_blk b o = true) (buf t c)))) = cstep col)
    by (unfold cstep; by rewrite A1, A2, A3, A4).
  by rewrite Hs.
Qed.

Lemma commit_block_cols_none s t b c : cols s !! c = None → cols (commit_block s t b) !! c = None.
Proof. intro Hc. unfold commit_block; cbn [cols]. by rewrite !lookup_fmap, map_lookup_imap, Hc. Qed.

Lemma commit_blocks_cols s t bs c col :
  NoDup bs → cols s !! c = Some col →
  ∃ col', cols (commit_blocks s t bs) !! c = Some col' ∧
    cmerges col' = cmerges col ∧ cmrg col' = cmrg col ∧ czero col' = czero col ∧ ccast col' = ccast col ∧
    ∀ i, cells col' !! i =
      if decide (blk i ∈ bs)
      then cell_final col (cells col !! i) (filter (λ o, ooff o = i) (buf t c)) (filter (λ o, ooff o = i) (trow t))
      else cells col !! i.
Proof.
  revert s col. induction bs as [|b bs IH]; intros s col ND Hc.
  - exists col. do 5 (split; [done|]). intro i. rewrite decide_False; [done|set_solver].
  - apply NoDup_cons in ND as [Hnb ND].
    destruct (commit_block_cols s t b c col Hc) as (c1 & H1 & M1 & M2 & M3 & M4 & C1).
    destruct (IH (commit_block s t b) c1 ND H1) as (c2 & H2 & N1 & N2 & N3 & N4 & C2).
    exists c2. cbn [commit_blocks foldl]. split; [exact H2|].
    rewrite N1, N2, N3, N4. do 4 (split; [done|]).
    intro i. rewrite C2, C1.
    assert (Hcf : ∀ v a m, cell_final c1 v a m = cell_final col v a m).
    { intros. unfold cell_final, cstep. by rewrite M1, M2, M3, M4. }
    destruct (decide (blk i ∈ bs)) as [Hin|Hnin].
    + rewrite decide_False by (intros E; rewrite E in Hin; done). rewrite decide_True by set_solver. apply Hcf.
    + destruct (decide (blk i = b)) as [E|NE].
      * rewrite decide_True by (rewrite E; set_solver). done.
      * rewrite decide_False by set_solver. done.
Qed.

(* the dirty blocks are exactly the blocks of the queued ops, each once *)
Lemma dirty_blocks_spec t : NoDup (dirty_blocks t) ∧ ∀ b, b ∈ dirty_blocks t ↔ ∃ o, o ∈ all_ops t ∧ blk (ooff o) = b.
Proof.
  unfold dirty_blocks. split.
  - rewrite merge_sort_Permutation. apply NoDup_elements.
  - intro b. rewrite merge_sort_Permutation, elem_of_elements, elem_of_list_to_set, elem_of_list_fmap.
    split; intros (o & H1 & H2); exists o; done.
Qed.

Lemma buf_in_all_ops t c o : o ∈ buf t c → o ∈ all_ops t.
Proof.
  unfold buf, all_ops. intro H. apply elem_of_app; right.
  destruct (tbufs t !! c) as [l|] eqn:E; [|by apply elem_of_nil in H].
  apply elem_of_list_In, in_concat. exists l. split; [|by apply elem_of_list_In].
  apply elem_of_list_In, elem_of_list_fmap. exists (c, l). split; [done|]. by apply elem_of_map_to_list.
Qed.

(* C01, one transaction: the value of every cell after the commit is the fold, in issue order,
   of the operations the transaction queued for that cell, followed by its row markers *)
Theorem commit_read s t c col i :
  cols s !! c = Some col →
  read (commit s t) c i =
    cell_final col (read s c i) (filter (λ o, ooff o = i) (buf t c)) (filter (λ o, ooff o = i) (trow t)).
Proof.
  intro Hc. destruct (dirty_blocks_spec t) as [ND Hd].
  destruct (commit_blocks_cols s t (dirty_blocks t) c col ND Hc) as (col' & H' & _ & _ & _ & _ & C).
  unfold read, commit. rewrite H', Hc, C.
  destruct (decide (blk i ∈ dirty_blocks t)) as [Hin|Hnin]; [done|].
  (* untouched block: both filtered lists are empty *)
  assert (E1 : filter (λ o, ooff o = i) (buf t c) = []).
  { apply filter_none. intros o Ho E. apply Hnin, Hd. exists o. split; [by eapply buf_in_all_ops|by rewrite E]. }
  assert (E2 : filter (λ o, ooff o = i) (trow t) = []).
  { apply filter_none. intros o Ho E. apply Hnin, Hd. exists o. split; [|by rewrite E].
    unfold all_ops. apply elem_of_app. by left. }
  by rewrite E1, E2.
Qed.

Lemma commit_read_none s t c i : cols s !! c = None → read (commit s t) c i = None.
Proof.
  intro Hc. unfold read, commit.
  assert (H : ∀ bs s, cols s !! c = None → cols (commit_blocks s t bs) !! c = None).
  { induction bs as [|b bs IH]; intros s0 H0; [done|]. cbn. apply IH. by apply commit_block_cols_none. }
  by rewrite H.
Qed.

(* columns keep their parameters across a commit *)
Lemma commit_col_params s t c col :
  cols s !! c = Some col →
  ∃ col', cols (commit s t) !! c = Some col' ∧ cmerges col' = cmerges col ∧ cmrg col' = cmrg col ∧ czero col' = czero col ∧ ccast col' = ccast col.
Proof.
  intro Hc. destruct (dirty_blocks_spec t) as [ND _].
  destruct (commit_blocks_cols s t (dirty_blocks t) c col ND Hc) as (col' & H' & A & B & C & D & _).
  exists col'. done.
Qed.

(* the parameters are all a cell's evolution depends on *)
Lemma cell_final_params c1 c2 v a m :
  cmerges c1 = cmerges c2 → cmrg c1 = cmrg c2 → czero c1 = czero c2 → ccast c1 = ccast c2 → cell_final c1 v a m = cell_final c2 v a m.
Proof. intros A B C D. unfold cell_final, cstep. by rewrite A, B, C, D. Qed.

(* what a column stores is a fixed point of its cast (a widened value is not widened again), so
   that writing a stored value back - a snapshot, a replayed commit - stores the same value *)
Definition cast_idem (c : column) : Prop := ∀ v, ccast c (ccast c v) = ccast c v.
Definition CastFixed (s : coll) : Prop :=
  ∀ c col, cols s !! c = Some col → cast_idem col ∧ ∀ i v, cells col !! i = Some v → ccast col v = v.

Lemma fold_cstep_fixed c v l :
  cast_idem c → (∀ x, v = Some x → ccast c x = x) → ∀ x, foldl (cstep c) v l = Some x → ccast c x = x.
Proof.
  intro Hi. revert v; induction l as [|o r IH]; intros v Hv x Hx; [by apply Hv|].
  cbn [foldl] in Hx. eapply IH; [|exact Hx].
  intros y Hy. unfold cstep, cell_step in Hy. destruct (ok o).
  all: try (by apply Hv). all: try done. all: try (injection Hy as <-; apply Hi).
  destruct (cmerges c); [injection Hy as <-; apply Hi|by apply Hv].
Qed.

Theorem commit_cast_fixed s t : CastFixed s → CastFixed (commit s t).
Proof.
  intros H c col' Hc'. destruct (cols s !! c) as [col|] eqn:Hc.
  2:{ pose proof (commit_read_none s t c 0 Hc) as R. unfold read in R.
      assert (G : ∀ bs s0, cols s0 !! c = None → cols (commit_blocks s0 t bs) !! c = None).
      { induction bs as [|b bs IH]; intros s0 H0; [done|]. cbn. apply IH. by apply commit_block_cols_none. }
      unfold commit in Hc'. rewrite (G _ _ Hc) in Hc'. done. }
  destruct (H c col Hc) as [Hi Hf].
  destruct (dirty_blocks_spec t) as [ND _].
  destruct (commit_blocks_cols s t (dirty_blocks t) c col ND Hc) as (c2 & H2 & _ & _ & _ & Hk & Hcells).
  unfold commit in Hc'. rewrite Hc' in H2. injection H2 as <-.
  split; [intro v; rewrite !Hk; apply Hi|].
  intros i v Hv. rewrite Hk. rewrite Hcells in Hv. destruct (decide (blk i ∈ dirty_blocks t)); [|by eapply Hf].
  unfold cell_final in Hv. eapply fold_cstep_fixed; [exact Hi| |exact Hv].
  intros y Hy. eapply fold_cstep_fixed; [exact Hi| |exact Hy]. intros z Hz. by eapply Hf.
Qed.

(* C01 over a whole history of committed transactions *)
Fixpoint hist_cell (col : column) (v : option value) (c i : N) (ts : list txn) : option value :=
  match ts with
  | [] => v
  | t :: r => hist_cell col (cell_final col v (filter (λ o, ooff o = i) (buf t c)) (filter (λ o, ooff o = i) (trow t))) c i r
  end.

Theorem history_read s ts c col i :
  cols s !! c = Some col → read (foldl commit s ts) c i = hist_cell col (read s c i) c i ts.
Proof.
  revert s col. induction ts as [|t r IH]; intros s col Hc; [done|].
  cbn [foldl hist_cell].
  destruct (commit_col_params s t c col Hc) as (col' & H' & A & B & C & D).
  rewrite (IH _ col' H'), (commit_read s t c col i Hc).
  clear IH. generalize (cell_final col (read s c i) (filter (λ o, ooff o = i) (buf t c)) (filter (λ o, ooff o = i) (trow t))).
  induction r as [|t2 r IHr]; intro v; [done|]. cbn [hist_cell].
  rewrite (cell_final_params col' col) by done. apply IHr.
Qed.

(* ------------------------------------------------------------------------------------- *)
(* the fill list across a commit                                                           *)

Definition live_step (b : bool) (o : op) : bool :=
  match ok o with KInsert => true | KDelete => false | _ => b end.

Lemma mark_mem f l i :
  bool_decide (i ∈ foldl mark_step f l) = foldl live_step (bool_decide (i ∈ f)) (filter (λ o, ooff o = i) l).
Proof.
  revert f; induction l as [|o r IH]; intro f; [done|].
  cbn [foldl]. rewrite IH. destruct (decide (ooff o = i)) as [E|NE].
  - rewrite filter_cons_True by done. cbn [foldl]. f_equal.
    unfold mark_step, live_step. rewrite ?sadd_union, ?sdel_diff. destruct (ok o).
    + apply bool_decide_eq_false. set_solver.
    + apply bool_decide_eq_true. set_solver.
    + done.
    + done.
    + done.
  - rewrite filter_cons_False by done. f_equal.
    unfold mark_step. rewrite ?sadd_union, ?sdel_diff. destruct (ok o); try done; apply bool_decide_ext; set_solver.
Qed.

Lemma commit_block_fill s t b i :
  bool_decide (i ∈ fill (commit_block s t b)) =
    if decide (blk i = b) then foldl live_step (bool_decide (i ∈ fill s)) (filter (λ o, ooff o = i) (trow t))
    else bool_decide (i ∈ fill s).
Proof.
  unfold commit_block; cbn [fill]. rewrite mark_mem, filter_off_blk.
  destruct (decide (blk i = b)); done.
Qed.

Lemma commit_blocks_fill s t bs i :
  NoDup bs →
  bool_decide (i ∈ fill (commit_blocks s t bs)) =
    if decide (blk i ∈ bs) then foldl live_step (bool_decide (i ∈ fill s)) (filter (λ o, ooff o = i) (trow t))
    else bool_decide (i ∈ fill s).
Proof.
  revert s. induction bs as [|b bs IH]; intros s ND.
  - rewrite decide_False; [done|set_solver].
  - apply NoDup_cons in ND as [Hnb ND]. cbn [commit_blocks foldl].
    unfold commit_blocks in IH. rewrite (IH _ ND), commit_block_fill.
    destruct (decide (blk i ∈ bs)) as [Hin|Hnin].
    + rewrite decide_False by (intros E; rewrite E in Hin; done). rewrite decide_True by set_solver. done.
    + destruct (decide (blk i = b)) as [E|NE].
      * rewrite decide_True by (rewrite E; set_solver). done.
      * rewrite decide_False by set_solver. done.
Qed.

Theorem commit_fill s t i :
  bool_decide (i ∈ fill (commit s t)) = foldl live_step (bool_decide (i ∈ fill s)) (filter (λ o, ooff o = i) (trow t)).
Proof.
  destruct (dirty_blocks_spec t) as [ND Hd]. unfold commit. rewrite commit_blocks_fill by done.
  destruct (decide (blk i ∈ dirty_blocks t)) as [Hin|Hnin]; [done|].
  rewrite filter_none; [done|]. intros o Ho E. apply Hnin, Hd. exists o. split; [|by rewrite E].
  unfold all_ops. apply elem_of_app. by left.
Qed.

(* ------------------------------------------------------------------------------------- *)
(* C11: cells only exist for occupied offsets                                              *)

Definition CellsLive (s : coll) : Prop :=
  ∀ c col i, cols s !! c = Some col → is_Some (cells col !! i) → i ∈ fill s.

(* a transaction writes only to occupied offsets (live rows and its own reserved inserts) and
   its marker buffer holds only inserts and deletes *)
Definition wf_writes (s : coll) (t : txn) : Prop :=
  ∀ c o, o ∈ buf t c → ok o = KPut ∨ ok o = KMerge → ooff o ∈ fill s.
Definition wf_row (t : txn) : Prop := Forall (λ o, ok o = KInsert ∨ ok o = KDelete) (trow t).

Lemma fold_cstep_some c v l :
  is_Some (foldl (cstep c) v l) → is_Some v ∨ ∃ o, o ∈ l ∧ (ok o = KPut ∨ ok o = KMerge).
Proof.
  revert v; induction l as [|o r IH]; intros v H; [by left|].
  cbn [foldl] in H. destruct (IH _ H) as [Hs|(o' & Ho' & K)].
  - unfold cstep, cell_step in Hs. destruct (ok o) eqn:K.
    + by destruct Hs.
    + by left.
    + right. exists o. split; [left|by left].
    + right. exists o. split; [left|by right].
    + by left.
  - right. exists o'. split; [by right|done].
Qed.

Lemma marks_keep_live c cell live l :
  Forall (λ o, ok o = KInsert ∨ ok o = KDelete) l →
  (is_Some cell → live = true) →
  is_Some (foldl (cstep c) cell l) → foldl live_step live l = true.
Proof.
  revert cell live; induction l as [|o r IH]; intros cell live Hf Hrel Hs; [by apply Hrel|].
  inversion Hf as [|? ? Ho Hr]; subst. cbn [foldl] in *.
  eapply IH; [exact Hr| |exact Hs].
  unfold cstep, cell_step, live_step. destruct Ho as [-> | ->]; [done|]. by intros [? ?].
Qed.

Theorem commit_cells_live s t :
  CellsLive s → wf_writes s t → wf_row t → CellsLive (commit s t).
Proof.
  intros Inv Hw Hr c col' i Hc' Hsome.
  (* the column existed before *)
  destruct (cols s !! c) as [col|] eqn:Hc.
  2:{ pose proof (commit_read_none s t c i Hc) as Hn. unfold read in Hn. rewrite Hc' in Hn. rewrite Hn in Hsome. by destruct Hsome. }
  pose proof (commit_read s t c col i Hc) as R. unfold read in R. rewrite Hc', Hc in R. rewrite R in Hsome.
  cut (bool_decide (i ∈ fill (commit s t)) = true); [by intros H%bool_decide_eq_true|]. rewrite commit_fill.
  eapply (marks_keep_live col); [| |exact Hsome].
  - unfold wf_row in Hr. clear -Hr. induction (trow t) as [|o r IH]; [constructor|].
    inversion Hr; subst. destruct (decide (ooff o = i)).
    + rewrite filter_cons_True by done. constructor; [done|by apply IH].
    + rewrite filter_cons_False by done. by apply IH.
  - intro Hs. apply bool_decide_eq_true.
    destruct (fold_cstep_some _ _ _ Hs) as [Hv|(o & Ho & K)].
    + by eapply Inv.
    + apply elem_of_list_filter in Ho as [E Ho]. rewrite <- E. by eapply Hw.
Qed.

(* a row that is not occupied holds no value in any column: nothing is left behind for the next
   insert at that offset *)
Corollary free_offset_is_clean s c i : CellsLive s → i ∉ fill s → read s c i = None.
Proof.
  intros Inv Hi. unfold read. destruct (cols s !! c) as [col|] eqn:Hc; [|done].
  destruct (cells col !! i) eqn:E; [|done]. exfalso. apply Hi. eapply Inv; [exact Hc|]. by rewrite E.
Qed.

(* ------------------------------------------------------------------------------------- *)
(* C03: a bitmap index equals its predicate over the current values                        *)

(* [cast_invariant]: the predicate does not tell a put value from its widened form (it reads the
   entry with the same Reader.Int / Reader.Uint the column uses); trivially true of every column
   whose cast is the identity, i.e. all but int / uint columns fed narrow values *)
Definition cast_invariant (col : column) (rule : N → value → bool) : Prop :=
  ∀ i v, rule i (ccast col v) = rule i v.
Definition IdxOK (s : coll) : Prop :=
  ∀ e rule bits col, e ∈ comps s → xstate e = XIndex rule bits → cols s !! xtarget e = Some col →
    cast_invariant col rule →
    ∀ i, i ∈ bits ↔ ∃ v, cells col !! i = Some v ∧ rule i v = true.

Definition bit_step (rule : N → value → bool) (i : N) (b : bool) (o : op) : bool :=
  match ok o with KPut => rule i (oval o) | KDelete => false | _ => b end.

Lemma idx_apply rule bits l :
  ∃ bits', comp_apply (XIndex rule bits) l = XIndex rule bits' ∧
    ∀ i, bool_decide (i ∈ bits') = foldl (bit_step rule i) (bool_decide (i ∈ bits)) (filter (λ o, ooff o = i) l).
Proof.
  revert bits; induction l as [|o r IH]; intro bits; [by exists bits|].
  unfold comp_apply; cbn [foldl].
  assert (∃ b1, comp_step (XIndex rule bits) o = XIndex rule b1 ∧
            ∀ i, bool_decide (i ∈ b1) = if decide (ooff o = i) then bit_step rule i (bool_decide (i ∈ bits)) o else bool_decide (i ∈ bits)) as (b1 & E1 & M1).
  { unfold comp_step, bit_step. rewrite ?sadd_union, ?sdel_diff. destruct (ok o) eqn:K.
    - eexists; split; [done|]. intro i. destruct (decide (ooff o = i)); [apply bool_decide_eq_false|apply bool_decide_ext]; set_solver.
    - exists bits; split; [done|]. intro i. by destruct (decide _).
    - destruct (rule (ooff o) (oval o)) eqn:Ru; (eexists; split; [done|]); intro i; destruct (decide (ooff o = i)) as [E|NE].
      + rewrite <- E, Ru. apply bool_decide_eq_true. set_solver.
      + apply bool_decide_ext. set_solver.
      + rewrite <- E, Ru. apply bool_decide_eq_false. set_solver.
      + apply bool_decide_ext. set_solver.
    - exists bits; split; [done|]. intro i. by destruct (decide _).
    - exists bits; split; [done|]. intro i. by destruct (decide _). }
  rewrite E1. destruct (IH b1) as (b2 & E2 & M2). exists b2. split; [exact E2|].
  intro i. rewrite M2, M1. destruct (decide (ooff o = i)).
  - by rewrite filter_cons_True.
  - by rewrite filter_cons_False.
Qed.

Definition idx_rel (rule : N → value → bool) (i : N) (v : option value) (b : bool) : Prop :=
  b = match v with Some x => rule i x | None => false end.

Lemma idx_rel_rw c rule i v b l :
  cast_invariant c rule →
  idx_rel rule i v b → idx_rel rule i (foldl (cstep c) v l) (foldl (bit_step rule i) b (rw_list c v l)).
Proof.
  intro Hci. revert v b; induction l as [|o r IH]; intros v b R; [done|].
  cbn [rw_list foldl]. apply IH.
  unfold idx_rel, cstep, rstep, bit_step, cell_step, rewrite_op in *.
  destruct (ok o) eqn:K; try (rewrite K; done); try (rewrite K; by rewrite Hci).
  destruct (cmerges c); [cbn [ok oval]; by rewrite Hci|]. rewrite K. done.
Qed.

Lemma rw_list_no_merge c v l : no_merge l → rw_list c v l = l.
Proof.
  revert v; induction l as [|o r IH]; intros v H; [done|]. inversion H as [|? ? Ho Hr]; subst.
  cbn [rw_list]. rewrite IH by done. f_equal. unfold rstep, rewrite_op. by destruct (ok o).
Qed.

Lemma no_merge_filter (P : op → Prop) `{∀ o, Decision (P o)} l : no_merge l → no_merge (filter P l).
Proof.
  unfold no_merge. induction l as [|o r IH]; intro Hn; [constructor|]. inversion Hn; subst.
  destruct (decide (P o)); [rewrite filter_cons_True by done; constructor; auto|rewrite filter_cons_False by done; auto].
Qed.

Lemma wf_row_no_merge t : wf_row t → no_merge (trow t).
Proof. unfold wf_row, no_merge. intro H. eapply Forall_impl; [exact H|]. intros o [-> | ->]; done. Qed.

Lemma idx_rel_iff rule i v (bits : gset N) :
  idx_rel rule i v (bool_decide (i ∈ bits)) ↔ (i ∈ bits ↔ ∃ x, v = Some x ∧ rule i x = true).
Proof.
  unfold idx_rel. split.
  - intro R. destruct v as [x|].
    + destruct (rule i x) eqn:Ru.
      * apply bool_decide_eq_true in R. split; [intros _; by exists x|done].
      * apply bool_decide_eq_false in R. split; [done|]. intros (y & [= <-] & Hy). congruence.
    + apply bool_decide_eq_false in R. split; [done|]. intros (y & Hy & _). done.
  - intros Hiff. destruct v as [x|].
    + destruct (rule i x) eqn:Ru.
      * apply bool_decide_eq_true, Hiff. by exists x.
      * apply bool_decide_eq_false. intros (y & [= <-] & Hy)%Hiff. congruence.
    + apply bool_decide_eq_false. intros (y & Hy & _)%Hiff. done.
Qed.

Theorem commit_block_idx_ok s t b : wf_row t → IdxOK s → IdxOK (commit_block s t b).
Proof.
  intros Hr Inv e' rule bits' col' He' Hx' Hc' Hci' i.
  (* the entry comes from an entry of s *)
  unfold commit_block in He'; cbn [comps] in He'.
  rewrite <- list_fmap_compose in He'. apply elem_of_list_fmap in He' as (e & -> & He).
  cbn [xstate xtarget compose] in *.
  set (ops := filter (λ o, in_blk b o = true) (buf t (xtarget e))) in *.
  set (mops := filter (λ o, in_blk b o = true) (trow t)) in *.
  (* its target column existed, and we know its new cells *)
  destruct (cols s !! xtarget e) as [col|] eqn:Hc.
  2:{ rewrite (commit_block_cols_none s t b _ Hc) in Hc'. done. }
  destruct (commit_block_cells2 s t b _ col Hc) as (c2 & Hc2 & Hcells).
  rewrite Hc' in Hc2. injection Hc2 as <-. specialize (Hcells i). fold ops mops in Hcells.
  assert (Hci : ∀ r, cast_invariant col' r → cast_invariant col r).
  { destruct (commit_block_cols s t b _ col Hc) as (c3 & Hc3 & _ & _ & _ & Hk & _).
    rewrite Hc' in Hc3. injection Hc3 as <-. intros r H j v. rewrite <- Hk. apply H. }
  (* the index state: an index before, processed with the rewritten ops and then the markers *)
  destruct (xstate e) as [rule0 bits0| |] eqn:Hx.
  2:{ exfalso. revert Hx'. clear. generalize (default [] (snd <$> map_imap (λ c col, Some (col_apply col (filter (λ o, in_blk b o = true) (buf t c)))) (cols s) !! xtarget e)).
      intro l. assert (G : ∀ l log, ∃ log', comp_apply (XTrigger log) l = XTrigger log').
      { clear. induction l as [|o r IH]; intro log; [by exists log|]. unfold comp_apply; cbn [foldl].
        unfold comp_step. destruct (ok o); apply IH. }
      destruct (G l log) as (l1 & ->). destruct (G mops l1) as (l2 & ->). done. }
  2:{ exfalso. revert Hx'. clear. generalize (default [] (snd <$> map_imap (λ c col, Some (col_apply col (filter (λ o, in_blk b o = true) (buf t c)))) (cols s) !! xtarget e)).
      intro l. assert (G : ∀ l tree, ∃ tree', comp_apply (XSorted tree) l = XSorted tree').
      { clear. induction l as [|o r IH]; intro tree; [by exists tree|]. unfold comp_apply; cbn [foldl].
        unfold comp_step. destruct (ok o); apply IH. }
      destruct (G l tree) as (l1 & ->). destruct (G mops l1) as (l2 & ->). done. }
  assert (Hrw : default [] (snd <$> map_imap (λ c col, Some (col_apply col (filter (λ o, in_blk b o = true) (buf t c)))) (cols s) !! xtarget e)
                = snd (col_apply col ops)).
  { by rewrite map_lookup_imap, Hc. }
  rewrite Hrw in Hx'.
  destruct (idx_apply rule0 bits0 (snd (col_apply col ops))) as (b1 & E1 & M1). rewrite E1 in Hx'.
  destruct (idx_apply rule0 b1 mops) as (b2 & E2 & M2). rewrite E2 in Hx'. injection Hx' as <- <-.
  apply idx_rel_iff. rewrite Hcells, M2, M1, col_apply_rw.
  assert (Hnm : no_merge (filter (λ o, ooff o = i) mops)).
  { apply no_merge_filter. unfold mops. apply no_merge_filter. by apply wf_row_no_merge. }
  rewrite <- (rw_list_no_merge col (foldl (cstep col) (cells col !! i) (filter (λ o, ooff o = i) ops)) _ Hnm) at 2.
  apply idx_rel_rw; [by apply Hci|]. apply idx_rel_rw; [by apply Hci|].
  apply idx_rel_iff. exact (Inv e rule0 bits0 col He Hx Hc (Hci _ Hci') i).
Qed.

Theorem commit_idx_ok s t : wf_row t → IdxOK s → IdxOK (commit s t).
Proof.
  intros Hr. unfold commit. generalize (dirty_blocks t). intro bs. revert s.
  induction bs as [|b bs IH]; intros s Inv; [done|]. cbn. apply IH. by apply commit_block_idx_ok.
Qed.

(* an index created on existing data is exact from the start *)
Theorem create_index_ok s id tg rule bits0 :
  IdxOK s → IdxOK (create_computed s id tg (XIndex rule bits0)).
Proof.
  intros Inv e r bits col He Hx Hc Hci i. unfold create_computed in *.
  destruct (cols s !! tg) as [ct|] eqn:Ht; [|by eapply Inv].
  cbn [comps cols] in *. apply elem_of_app in He as [He|He]; [by eapply Inv|].
  apply elem_of_list_singleton in He. subst e. cbn [xstate xtarget build_computed] in *.
  rewrite Ht in Hx. injection Hx as <- <-. rewrite Ht in Hc. injection Hc as <-.
  rewrite elem_of_dom. unfold is_Some. setoid_rewrite map_filter_lookup_Some. cbn [fst snd].
  split; [intros (v & Hv & Hr); by exists v|intros (v & Hv & Hr); by exists v].
Qed.
