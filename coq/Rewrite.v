(* L0, more of commit/buffer.go and commit/reader.go:
   - Reader.Seek: reading a whole buffer from the start (CreateIndex back-fill, snapshot blocks);
   - Reader.Swap* for fixed-size values and same-length byte strings: the in-place rewrite of a
     merge into a put of the merged value produces exactly the bytes the writer would have
     produced for that put, so every later reader decodes the put. *)
From Coq Require Import NArith List Lia ZArith Bool.
From Coq Require Import ZifyN ZifyNat ZifyBool.
From ColumnV Require Import GenConsts Bytes Ops Buffer.
Import ListNotations.
Local Open Scope N_scope.

(* ---- Seek ---- *)

(* a buffer whose operations all lie in one block is one run starting at offset 0 *)
Lemma enc_run_of_fold ops :
  forall b, bbytes (fold_left put ops b) = bbytes b ++ enc_run (blast b) ops.
Proof.
  induction ops as [|o r IH]; intros b; cbn [fold_left enc_run]; [now rewrite app_nil_r|].
  rewrite (IH (put b o)). unfold put; cbn [bbytes blast]. now rewrite <- app_assoc.
Qed.

(* Reader.Seek then Next...: decodes the whole byte string from offset 0 *)
Theorem seek_reads_all ops :
  Forall wf_op ops ->
  read_seg (bbytes (fold_left put ops empty)) 0 = ops.
Proof.
  intro Hwf. rewrite (enc_run_of_fold ops empty). cbn [bbytes blast empty app].
  unfold read_seg. apply decode_enc_run; [unfold M32; lia|exact Hwf|apply enc_run_length_ge].
Qed.

(* ---- Swap in place ---- *)

(* writeSwap / SwapBytes (same length): header & 0xf0 | Put, value bytes overwritten *)
Definition set_put (h : N) : N := N.lor (N.land h 240) c_commit_buffer_Put.

Definition same_shape (v v' : value) : Prop :=
  match v, v' with
  | V2 _, V2 _ | V4 _, V4 _ | V8 _, V8 _ => True
  | VB a, VB b => length a = length b
  | _, _ => False
  end.

Lemma hdr_set_put k v v' nxt : same_shape v v' -> set_put (hdr k v nxt) = hdr KPut v' nxt.
Proof. destruct k, v, v', nxt; cbn; try contradiction; intros _; vm_compute; reflexivity. Qed.

Lemma be_length w n : length (be w n) = w.
Proof. unfold be. now rewrite rev_length, le_length. Qed.

Lemma vbytes_length v v' : same_shape v v' -> wf_value v -> wf_value v' -> length (vbytes v) = length (vbytes v').
Proof.
  destruct v, v'; cbn [same_shape vbytes]; try contradiction; intros H _ _; rewrite ?app_length, ?be_length; try reflexivity.
  now rewrite H.
Qed.

(* the in-place rewrite of one encoded op: new header, new value bytes, the offset bytes untouched *)
Definition swap_in_place (l : list N) (v' : value) : list N :=
  match l with
  | h :: rest => set_put h :: vbytes v' ++ skipn (length (vbytes v')) rest
  | [] => []
  end.

Theorem swap_is_put last k off v v' :
  same_shape v v' -> wf_value v -> wf_value v' ->
  swap_in_place (enc last (mkop k off v)) v' = enc last (mkop KPut off v').
Proof.
  intros Hs Hv Hv'. unfold enc; cbn [ok ooff oval].
  pose proof (vbytes_length v v' Hs Hv Hv') as Hl.
  destruct (delta last off =? 1); cbn [swap_in_place]; rewrite (hdr_set_put k v v' _ Hs); f_equal.
  - rewrite <- Hl, skipn_all. now rewrite app_nil_r.
  - rewrite <- Hl. rewrite skipn_app, skipn_all, Nat.sub_diag. reflexivity.
Qed.

(* hence a later reader decodes the put of the merged value, and goes on exactly where it would have *)
Corollary later_reader_sees_put last k off v v' rest :
  last < M32 -> off < M32 -> same_shape v v' -> wf_value v -> wf_value v' ->
  next (swap_in_place (enc last (mkop k off v)) v' ++ rest) last = Some (mkop KPut off v', rest).
Proof.
  intros Hl Ho Hs Hv Hv'. rewrite (swap_is_put last k off v v' Hs Hv Hv').
  apply next_enc; [exact Hl|split; [exact Ho|exact Hv']].
Qed.
