(* C16  Sorted-index iteration is complete and ordered.

   [SortOK s]: the tree of every sorted index holds exactly the rows that hold a value in the
   indexed column, each under its current value; it is established by index creation on existing
   data and preserved by every commit (puts, merges, deletes, offset reuse - any transaction).
   [c16_ascend]: Ascend returns the offsets of a list of (value, offset) items that is strongly
   sorted by the index order (bytewise value order, ties by offset - so rows with EQUAL values
   are all present), has no repeated offset, and contains exactly the rows of the current
   selection that are in the tree - by SortOK, those that hold a value.
   tidwall/btree is modelled as an ordered set for the comparator it is given (trusted). *)
From stdpp Require Import gmap sorting.
From ColumnV Require Import Bytes Store StoreProofs StoreProofs3 StoreProofs6.

Theorem c16_tree_exact_after_commit : ∀ s t, wf_row t → SortOK s → SortOK (commit s t).
Proof. exact commit_sort_ok. Qed.
Print Assumptions c16_tree_exact_after_commit.

Theorem c16_tree_exact_on_creation : ∀ s id tg tree0, SortOK s → SortOK (create_computed s id tg (XSorted tree0)).
Proof. exact create_sorted_ok. Qed.
Print Assumptions c16_tree_exact_on_creation.

Theorem c16_ascend : ∀ s t x e tree,
  find_comp s x = Some e → xstate e = XSorted tree →
  ∃ items : list (bytes * N),
    ascend_list s t x = snd <$> items ∧
    StronglySorted item_le items ∧ NoDup (snd <$> items) ∧
    ∀ k i, (k, i) ∈ items ↔ tree !! i = Some k ∧ i ∈ sel_of s t.
Proof. exact ascend_spec. Qed.
Print Assumptions c16_ascend.

Example c16_example :
  let s0 := create_column coll0 1 (mkcol false (λ a b, b) V0 id ∅) false in
  let s1 := create_computed s0 7 1 (XSorted ∅) in
  let t := foldl (λ t p, push t 1 (mkop KPut (fst p) (VB (snd p)))) txn0
                 [(0, [98]); (1, [97]); (2, [98]); (3, [97]); (4, [99])]%N in
  let t' := mktxn None (tbufs t) [mkop KInsert 0 V0; mkop KInsert 1 V0; mkop KInsert 2 V0; mkop KInsert 3 V0; mkop KInsert 4 V0]%N [] in
  ascend_list (commit s1 t') txn0 7 = [1; 3; 0; 2; 4]%N.
Proof. vm_compute. done. Qed.

(* over whole histories: in every state reachable from the empty collection by admissible
   histories (StoreProofs6.history_ok) the invariant holds *)
Theorem c16_reachable : ∀ h, history_ok coll0 h → SortOK (foldl hrun coll0 h).
Proof. intros h H. by destruct (reachable_inv h H). Qed.
Print Assumptions c16_reachable.
