(* C13  Truncated snapshot or log files never restore silently wrong state.

   Model (Wire.v): parsers over byte lists returning Ok value rest | Short | Bad.  An encoder /
   decoder pair is [safe] when decoding a complete encoding followed by anything succeeds leaving
   the rest untouched, and decoding ANY strict prefix of an encoding reports Short.  Proved safe:
   uvarint below 2^64 (iostream WriteUvarint/ReadUvarint), length-prefixed bytes, sequencing
   ([safe_bind]), the commit frame (chunk, id, payload).
   [c13_log_prefix]: for every prefix of a log of frames, ranging delivers a prefix of the frames,
   each whole and in order - for every log, every cut point, no bound.
   [c13_restore_prefix]: for every prefix of state ++ log, Restore fails or yields the complete
   state plus a prefix of the logged commits.
   [c13_real_commit_log_prefix]: the same for the commit frame exactly as commit/commit.go lays it
   out (WireCommit.v: uvarint chunk and id, counted updates, each with its column name, counted
   little-endian shard headers and payload); this encoder is diffed byte for byte against the real
   Commit.WriteTo, and its decoder's verdict on prefixes against the real Commit.ReadFrom (engine wire).
   Parsers are structurally recursive on the byte list (or on fuel = its length, every frame
   consuming at least one byte), so "never hangs" holds of the model by construction.
   [c13_real_restore_prefix]: the same for a whole snapshot with nothing left abstract but s2: the
   state stream exactly as snapshot.go writeState lays it out (WireState.v: version, buffers per
   block, counted blocks, each its last commit id and that many serialized buffers) followed by the
   recorded commits; [c13_real_restore_full]: the complete file restores to exactly what was
   written; [c13_state_bad_version]: another version is refused.  WireState's encoder and decoder
   are diffed against real snapshots (s2 removed) parsed by the real readers (engine wire).
   [c13_s2_prefix], [c13_file_prefix_restores]: the s2 FRAMING around both streams is modelled
   (S2Frame.v: chunks of type byte, 3-byte length and body; the reader consumes whole chunks, a cut
   header or body is an error, a cut on a chunk boundary a clean end): for every prefix of a
   snapshot file, what the reader delivers is the payload of the chunks wholly inside the prefix,
   and restoring it fails or yields the complete state plus a prefix of the commits.  The framing
   model is diffed against the real s2 reader on real snapshot files and cuts (engine wire).
   NOT modelled (trusted, DESIGN.md section 7): what a chunk's body decodes to (the s2 block
   compressor and CRC) - an arbitrary function of the chunk in S2Frame.v; that the two readers the
   real Restore stacks on one file (state, then log) together see the file as ONE framed stream
   (the first does not read past its last chunk).  This and the panic / hang freedom of the real
   readers are checked by the trunc engine: every prefix (every byte in the thorough tier) of real
   snapshot and log files is restored. *)
From Coq Require Import NArith List.
From ColumnV Require Import Wire WireCommit WireState S2Frame.
Import ListNotations.
Local Open Scope N_scope.

Theorem c13_log_prefix : forall (fs : list frame) p,
  Forall frame_ok fs -> prefix_of p (log_bytes frame_enc fs) ->
  exists k, range_log frame_dec (length p) p = firstn k fs.
Proof. exact commit_log_prefix. Qed.
Print Assumptions c13_log_prefix.

Theorem c13_restore_prefix :
  forall (St : Type) (enc_s : St -> list N) (dec_s : parser St) (ok_s : St -> Prop),
  safe enc_s dec_s ok_s ->
  forall st (fs : list frame) p, ok_s st -> Forall frame_ok fs ->
  prefix_of p (enc_s st ++ log_bytes frame_enc fs) ->
  restore_bytes dec_s frame_dec p = None \/ exists k, restore_bytes dec_s frame_dec p = Some (st, firstn k fs).
Proof. intros. eapply restore_prefix; eauto using frame_safe, frame_nonempty. Qed.
Print Assumptions c13_restore_prefix.

Theorem c13_uvarint_safe : safe uv64_enc uv64_dec (fun x => x < 2^64).
Proof. exact uv64_safe. Qed.
Print Assumptions c13_uvarint_safe.

Theorem c13_bytes_safe : safe bytes_enc bytes_dec (fun b => N.of_nat (length b) < 2^64).
Proof. exact bytes_safe. Qed.
Print Assumptions c13_bytes_safe.

Theorem c13_frame_safe : safe frame_enc frame_dec frame_ok.
Proof. exact frame_safe. Qed.
Print Assumptions c13_frame_safe.

Example c13_example :
  let fs := [(0, (7, [1;2;3])); (1, (8, []))] in
  range_log frame_dec 20 (firstn 5 (log_bytes frame_enc fs)) = [] /\
  range_log frame_dec 20 (firstn 7 (log_bytes frame_enc fs)) = [(0, (7, [1;2;3]))] /\
  range_log frame_dec 20 (log_bytes frame_enc fs) = fs.
Proof. vm_compute. auto. Qed.

Theorem c13_real_commit_safe : safe commit_enc commit_dec commit_ok.
Proof. exact commit_safe. Qed.
Print Assumptions c13_real_commit_safe.

Theorem c13_real_commit_log_prefix : forall (cs : list commit) p,
  Forall commit_ok cs -> prefix_of p (log_bytes commit_enc cs) ->
  exists k, range_log commit_dec (length p) p = firstn k cs.
Proof. exact real_commit_log_prefix. Qed.
Print Assumptions c13_real_commit_log_prefix.

Theorem c13_state_safe : safe state_enc state_dec state_ok.
Proof. exact state_safe. Qed.
Print Assumptions c13_state_safe.

Theorem c13_real_restore_prefix : forall (st : state) (cs : list commit) p,
  state_ok st -> Forall commit_ok cs ->
  prefix_of p (state_enc st ++ log_bytes commit_enc cs) ->
  restore_bytes state_dec commit_dec p = None \/
  exists k, restore_bytes state_dec commit_dec p = Some (st, firstn k cs).
Proof. exact real_restore_prefix. Qed.
Print Assumptions c13_real_restore_prefix.

Theorem c13_real_restore_full : forall (st : state) (cs : list commit),
  state_ok st -> Forall commit_ok cs ->
  restore_bytes state_dec commit_dec (state_enc st ++ log_bytes commit_enc cs) = Some (st, cs).
Proof. exact real_restore_full. Qed.
Print Assumptions c13_real_restore_full.

Theorem c13_state_bad_version : forall v rest, v < 2^64 -> v <> version -> state_dec (uv64_enc v ++ rest) = Bad.
Proof. exact state_bad_version. Qed.
Print Assumptions c13_state_bad_version.

(* non-vacuity: a state of one block with two (empty) buffers and one recorded commit *)
Example c13_state_example :
  let b : wbuffer := ([114; 111; 119], (0, ([], []))) in
  let st : state := (2, [(7, [b; b])]) in
  let c : commit := (0, (8, [])) in
  state_ok st /\ commit_ok c /\
  restore_bytes state_dec commit_dec (state_enc st ++ log_bytes commit_enc [c]) = Some (st, [c]) /\
  restore_bytes state_dec commit_dec (firstn 9 (state_enc st ++ log_bytes commit_enc [c])) = None.
Proof.
  cbn zeta. split; [|split; [|split; vm_compute; reflexivity]].
  - unfold state_ok, body_ok, schunk_ok, wbuffer_ok, bheaders_ok, blob_ok, u32. cbn. repeat split; try reflexivity; repeat constructor.
  - unfold commit_ok. cbn. repeat split; try reflexivity. constructor.
Qed.

Theorem c13_s2_prefix : forall body_dec cs p fuel hdr,
  Forall (chunk_ok body_dec) cs -> starts_ok hdr cs -> prefix_of p (stream_enc cs) -> (length p <= fuel)%nat ->
  exists k st, unframe body_dec fuel hdr p = (payloads body_dec (firstn k cs), st) /\ st <> Corrupt /\
               (st = End <-> p = stream_enc (firstn k cs)).
Proof. intros body_dec cs. exact (unframe_prefix body_dec cs). Qed.
Print Assumptions c13_s2_prefix.

Theorem c13_file_prefix_restores : forall body_dec (st : state) (cs : list commit) (chunks : list wchunk) p,
  state_ok st -> Forall commit_ok cs -> Forall (chunk_ok body_dec) chunks -> starts_ok false chunks ->
  payloads body_dec chunks = state_enc st ++ log_bytes commit_enc cs ->
  prefix_of p (stream_enc chunks) ->
  let delivered := fst (unframe body_dec (length p) false p) in
  restore_bytes state_dec commit_dec delivered = None \/
  exists k, restore_bytes state_dec commit_dec delivered = Some (st, firstn k cs).
Proof. exact file_prefix_restores. Qed.
Print Assumptions c13_file_prefix_restores.

Theorem c13_s2_full : forall body_dec cs,
  Forall (chunk_ok body_dec) cs -> starts_ok false cs ->
  unframe body_dec (length (stream_enc cs)) false (stream_enc cs) = (payloads body_dec cs, End).
Proof. exact unframe_full. Qed.
Print Assumptions c13_s2_full.

(* non-vacuity: identifier chunk + one uncompressed data chunk (body = 4 checksum bytes + payload) *)
Example c13_s2_example :
  let dec := fun (ty : N) (body : list N) => if ty =? 255 then Some [] else Some (skipn 4 body) in
  let cs : list wchunk := [(255, [83; 50; 115; 84; 119; 79]); (1, [0; 0; 0; 0; 7; 8; 9])] in
  Forall (chunk_ok dec) cs /\ starts_ok false cs /\
  unframe dec 30 false (stream_enc cs) = ([7; 8; 9], End) /\
  unframe dec 30 false (firstn 15 (stream_enc cs)) = ([], Cut) /\
  unframe dec 30 false (firstn 10 (stream_enc cs)) = ([], End).
Proof. cbn zeta. split; [|split; [right; reflexivity|vm_compute; auto]]. repeat constructor; cbn; discriminate. Qed.
