(* C09  Concurrent merges are never lost.

   (a) protocol, any number of threads, any scheduler (Conc.v): in every reachable state the
       block's applied list contains the commit of every writer that is past its apply step
       exactly once, and nothing else; the order of the list is the order in which the writers
       held the block's write latch.
   (b) data, for every merge function (StoreProofs.v): applying a list of operations to a column
       gives, for every cell, the fold of that cell's operations in list order starting from the
       stored value (or the zero value) - so the value of a row after the commits c1..cn applied in
       latch order is the initial value combined with every delta once, in that order; and the
       rewritten (absolute) operations a consumer of the stream sees reproduce the same value.
   (a)+(b) is the property; that the implementation's read-modify-write really happens inside the
   latch is validated by replaying recorded schedules through [lock_step] and by the scheduler
   scenario 'rows' (order-sensitive merge v*3+d, final value = fold in latch order). *)
From stdpp Require Import gmap list.
From ColumnV Require Import Bytes Store StoreProofs.
From ColumnV Require Conc.
Local Open Scope N_scope.

Theorem c09_every_commit_applied_exactly_once : ∀ threads s,
  Conc.wf_init threads → Conc.reach (Conc.init threads) s →
  NoDup (Conc.applied s) ∧
  (∀ t p n, Conc.pcs s !! t = Some p → Conc.in_applied p = Some n → n ∈ Conc.applied s) ∧
  (∀ n, n ∈ Conc.applied s → ∃ t p, Conc.pcs s !! t = Some p ∧ Conc.in_applied p = Some n).
Proof. exact Conc.every_commit_applied_exactly_once. Qed.
Print Assumptions c09_every_commit_applied_exactly_once.

Theorem c09_cell_is_fold_in_apply_order : ∀ c ops i,
  cells (fst (col_apply c ops)) !! i = foldl (cstep c) (cells c !! i) (filter (λ o, ooff o = i) ops).
Proof. exact col_apply_cells. Qed.
Print Assumptions c09_cell_is_fold_in_apply_order.

Theorem c09_stream_carries_absolute_values : ∀ c v l, foldl (cstep c) v (rw_list c v l) = foldl (cstep c) v l.
Proof. exact rw_list_same. Qed.
Print Assumptions c09_stream_carries_absolute_values.

Example c09_example :
  let col := mkcol true (λ a b, match a, b with V8 x, V8 y => V8 (x * 3 + y) | _, _ => b end) (V8 0) id ∅ in
  cells (fst (col_apply col [mkop KMerge 0 (V8 1); mkop KMerge 0 (V8 2)])) !! 0%N = Some (V8 5) ∧
  cells (fst (col_apply col [mkop KMerge 0 (V8 2); mkop KMerge 0 (V8 1)])) !! 0%N = Some (V8 7).
Proof. vm_compute. done. Qed.
