(* C09  Concurrent merges are never lost.

   (a) protocol, any number of threads, any scheduler (Conc.v): in every reachable state the
       block's applied list contains the commit of every writer that is past its apply step
       exactly once, and nothing else; the order of the list is the order in which the writers
       held the block's write latch.
   (b) data, for every merge function (StoreProofs.v): applying a list of operations to a column
       gives, for every cell, the fold of that cell's operations in list order starting from the
       stored value (or the zero value) - so the value of a row after the commits c1..cn applied in
       latch order is the initial value combined with every delta once, in that order; and the
       rewritten (absolute) operations a consumer of the stream sees reproduce the same value.
   (c) both together, on the real store model (ConcStore.v): ANY number of writer threads, each
       committing its own transaction (any operations, any number of blocks) block after block
       under the block's latch, interleaved in ANY way over one shared collection:
       [c09_cell_is_fold_under_any_interleaving] - in every reachable state every cell holds the
       fold, over the transactions applied to its block in apply order, of the operations they
       queued for it (initial value combined with every committed delta exactly once, in the
       order the commits were applied to the row's block; any merge function);
       [c09_no_commit_lost_or_doubled] - every thread applied exactly a prefix of its dirty
       blocks, each once, and all of them once it has finished;
       [c09_some_thread_moves] - and the protocol cannot get stuck.
       The LTS is executable ([ConcStore.run]); ConcCheck.v replays through it every finished run of
       the controlled scheduler's scenario 'rows' (the writers' transactions as the API queued them,
       the recorded latch order): it must accept the schedule, apply in the same order, finish, and
       end with the values, liveness and Count the implementation shows (engine sched).
   (a)+(b) is the property; that the implementation's read-modify-write really happens inside the
   latch is validated by replaying recorded schedules through [lock_step] and by the scheduler
   scenario 'rows' (order-sensitive merge v*3+d, final value = fold in latch order). *)
From stdpp Require Import gmap list.
From ColumnV Require Import Bytes Store StoreProofs.
From ColumnV Require Conc ConcStore.
Local Open Scope N_scope.

Theorem c09_every_commit_applied_exactly_once : ∀ threads s,
  Conc.wf_init threads → Conc.reach (Conc.init threads) s →
  NoDup (Conc.applied s) ∧
  (∀ t p n, Conc.pcs s !! t = Some p → Conc.in_applied p = Some n → n ∈ Conc.applied s) ∧
  (∀ n, n ∈ Conc.applied s → ∃ t p, Conc.pcs s !! t = Some p ∧ Conc.in_applied p = Some n).
Proof. exact Conc.every_commit_applied_exactly_once. Qed.
Print Assumptions c09_every_commit_applied_exactly_once.

Theorem c09_cell_is_fold_in_apply_order : ∀ c ops i,
  cells (fst (col_apply c ops)) !! i = foldl (cstep c) (cells c !! i) (filter (λ o, ooff o = i) ops).
Proof. exact col_apply_cells. Qed.
Print Assumptions c09_cell_is_fold_in_apply_order.

Theorem c09_stream_carries_absolute_values : ∀ c v l, foldl (cstep c) v (rw_list c v l) = foldl (cstep c) v l.
Proof. exact rw_list_same. Qed.
Print Assumptions c09_stream_carries_absolute_values.

Example c09_example :
  let col := mkcol true (λ a b, match a, b with V8 x, V8 y => V8 (x * 3 + y) | _, _ => b end) (V8 0) id ∅ in
  cells (fst (col_apply col [mkop KMerge 0 (V8 1); mkop KMerge 0 (V8 2)])) !! 0%N = Some (V8 5) ∧
  cells (fst (col_apply col [mkop KMerge 0 (V8 2); mkop KMerge 0 (V8 1)])) !! 0%N = Some (V8 7).
Proof. vm_compute. done. Qed.

Theorem c09_store_is_fold_of_block_commits : ∀ s0 txns s,
  ConcStore.reach (ConcStore.init s0 txns) s → ConcStore.st s = foldl ConcStore.apply_entry s0 (ConcStore.trace s).
Proof. exact ConcStore.store_is_fold. Qed.
Print Assumptions c09_store_is_fold_of_block_commits.

Theorem c09_cell_is_fold_under_any_interleaving : ∀ s0 txns s c col i,
  ConcStore.reach (ConcStore.init s0 txns) s → cols s0 !! c = Some col →
  read (ConcStore.st s) c i = hist_cell col (read s0 c i) c i (ConcStore.block_txns (blk i) (ConcStore.trace s)).
Proof. exact ConcStore.cell_is_fold_of_trace. Qed.
Print Assumptions c09_cell_is_fold_under_any_interleaving.

Theorem c09_no_commit_lost_or_doubled : ∀ s0 txns s t w,
  ConcStore.reach (ConcStore.init s0 txns) s → ConcStore.ths s !! t = Some w →
  ∃ k, ConcStore.eblk <$> filter (λ e, ConcStore.etid e = t) (ConcStore.trace s) = take k (dirty_blocks (ConcStore.wtxn w)) ∧
       Forall (λ e, ConcStore.etxn e = ConcStore.wtxn w) (filter (λ e, ConcStore.etid e = t) (ConcStore.trace s)) ∧
       NoDup (ConcStore.eblk <$> filter (λ e, ConcStore.etid e = t) (ConcStore.trace s)) ∧
       (ConcStore.wtodo w = [] → ConcStore.whold w = None → k = length (dirty_blocks (ConcStore.wtxn w))).
Proof. exact ConcStore.thread_progress. Qed.
Print Assumptions c09_no_commit_lost_or_doubled.

Theorem c09_finished_means_all_applied : ∀ s0 txns s t x,
  ConcStore.reach (ConcStore.init s0 txns) s → ConcStore.finished s → txns !! t = Some x →
  ConcStore.eblk <$> filter (λ e, ConcStore.etid e = t) (ConcStore.trace s) = dirty_blocks x.
Proof. exact ConcStore.finished_all_applied. Qed.
Print Assumptions c09_finished_means_all_applied.

Theorem c09_some_thread_moves : ∀ s0 txns s t w,
  ConcStore.reach (ConcStore.init s0 txns) s → ConcStore.ths s !! t = Some w →
  ¬ (ConcStore.wtodo w = [] ∧ ConcStore.whold w = None) → ∃ u s', ConcStore.do_step s u = Some s'.
Proof. exact ConcStore.some_thread_moves. Qed.
Print Assumptions c09_some_thread_moves.

(* non-vacuity: two writers with an order-sensitive merge (v*3+d) on row 5; the second also writes
   block 1; schedule: T2 commits block 0, T1 locks and applies block 0, T2 locks block 1, T1 unlocks,
   T2 applies and unlocks.  The run is a reachable state of the LTS and row 5 holds (0*3+2)*3+1 *)
Definition ex_col := mkcol true (λ a b, match a, b with V8 x, V8 y => V8 (x * 3 + y) | _, _ => b end) (V8 0) id ∅.
Definition ex_s0 := create_column coll0 1 ex_col false.
Definition ex_txns : gmap nat txn :=
  {[ 1%nat := push txn0 1 (mkop KMerge 5 (V8 1));
     2%nat := push (push txn0 1 (mkop KMerge 5 (V8 2))) 1 (mkop KMerge 20000 (V8 7)) ]}.
Definition ex_sched := [2; 2; 2; 1; 1; 2; 1; 2; 2]%nat.
Example c09_concurrent_example : ∃ s,
  ConcStore.reach (ConcStore.init ex_s0 ex_txns) s ∧ ConcStore.run (ConcStore.init ex_s0 ex_txns) ex_sched = Some s ∧
  read (ConcStore.st s) 1 5 = Some (V8 7) ∧ (ConcStore.eblk <$> ConcStore.trace s) = [0; 0; 1] ∧
  (ConcStore.etid <$> ConcStore.trace s) = [2; 1; 2]%nat ∧ (rid <$> emitted (ConcStore.st s)) = [1; 2; 3].
Proof.
  destruct (ConcStore.run (ConcStore.init ex_s0 ex_txns) ex_sched) as [s|] eqn:E; [|by vm_compute in E].
  exists s. split; [by eapply ConcStore.run_reach; [apply ConcStore.r_refl|]|]. split; [done|].
  assert (H : (λ s, (read (ConcStore.st s) 1 5, ConcStore.eblk <$> ConcStore.trace s, ConcStore.etid <$> ConcStore.trace s, rid <$> emitted (ConcStore.st s)))
                <$> ConcStore.run (ConcStore.init ex_s0 ex_txns) ex_sched = Some (Some (V8 7), [0; 0; 1], [2; 1; 2]%nat, [1; 2; 3])) by (vm_compute; reflexivity).
  rewrite E in H. cbn in H. by injection H as -> -> -> ->.
Qed.
