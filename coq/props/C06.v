(* C06  A replica fed the change stream converges to the primary.

   What the replica receives for a block is the block's operations as the column left them after
   consuming them: every merge replaced by a put of the merged result ([rw_list]).  Proved, for
   every column parameterisation and every operation list:
   [c06_replay_reproduces]: replaying the rewritten operations of a cell on the same pre-state
     yields the primary's post-state; [c06_replay_from_any_state]: replayed on ANY pre-state they
     yield the primary's post-state as soon as one put/delete is among them, and leave the cell
     alone otherwise - a replica that was equal stays equal, one that lags catches up;
   [c06_stream_order_is_apply_order]: under any interleaving of writers the logger receives a
     block's commits in the order they were applied (Conc.v), so replaying in emission order
     replays in apply order; commits of different blocks touch disjoint cells (c01_commit_read:
     a block's processing changes only the cells of that block);
   [c06_indexes_follow]: a replica's indexes are exact whenever its values are (C03 holds of the
     replica's commits, which are commits).
   [c06_replay_block] / [c06_replay_stream]: the whole statement for one transaction - a replica
     holding the same data (fill, Count, every column, every computed column, key table) as the
     primary before a commit, fed the records the commit emitted ([c06_emitted_records]) in
     emission order, holds the same data as the primary after it; by induction over transactions,
     after any history.  Hypotheses: Count exact (C11) and the key column does not merge.
   [c06_replica_converges_under_any_interleaving] (ConcStore.v): the whole statement for ANY
     number of concurrent writers, each committing a transaction over any number of blocks under
     the blocks' latches, in ANY interleaving: in every reachable state - hence whenever the
     primary is quiescent - the replica that replayed the stream emitted so far, in emission
     order, holds the primary's data (fill, Count, every column, every computed column, key
     table).  A block's commit (apply + append under the latch) is one step of that LTS; that it
     is indivisible for the other threads is Conc.v's invariant.
   The defect this work found and repaired (D25): Replay used to re-apply the other blocks of a
   multi-block transaction when fed cloned buffers; the model's [replay] applies one block. *)
From stdpp Require Import gmap list sorting.
From ColumnV Require Import Bytes Store StoreProofs StoreProofs2 StoreProofs5.
From ColumnV Require Conc ConcStore.
Local Open Scope N_scope.

Theorem c06_replay_reproduces : ∀ c v l, foldl (cstep c) v (rw_list c v l) = foldl (cstep c) v l.
Proof. exact rw_list_same. Qed.
Print Assumptions c06_replay_reproduces.

Theorem c06_replay_from_any_state : ∀ c v l v',
  foldl (cstep c) v' (rw_list c v l) = foldl (cstep c) v l ∨
  (foldl (cstep c) v' (rw_list c v l) = v' ∧ foldl (cstep c) v l = v).
Proof. exact rw_list_replay. Qed.
Print Assumptions c06_replay_from_any_state.

Theorem c06_emitted_ops_per_cell : ∀ c ops i,
  filter (λ o, ooff o = i) (snd (col_apply c ops)) = rw_list c (cells c !! i) (filter (λ o, ooff o = i) ops).
Proof. exact col_apply_rw. Qed.
Print Assumptions c06_emitted_ops_per_cell.

Theorem c06_stream_order_is_apply_order : ∀ threads s,
  Conc.wf_init threads → Conc.reach (Conc.init threads) s →
  StronglySorted N.lt (Conc.applied s) ∧ Conc.logged s `prefix_of` Conc.applied s.
Proof. exact Conc.ids_increase_in_apply_order. Qed.
Print Assumptions c06_stream_order_is_apply_order.

Theorem c06_indexes_follow : ∀ s t b, wf_row t → IdxOK s → IdxOK (commit_block s t b).
Proof. exact commit_block_idx_ok. Qed.
Print Assumptions c06_indexes_follow.

Theorem c06_replay_block : ∀ s t b r,
  same_data r s → Quiescent s → pk_plain s →
  same_data (replay r (block_rec s t b)) (commit_block s t b).
Proof. intros. by apply replay_block_same_data. Qed.
Print Assumptions c06_replay_block.

Theorem c06_replay_stream : ∀ bs r s t,
  same_data r s → Quiescent s → pk_plain s →
  same_data (foldl replay r (block_recs s t bs)) (commit_blocks s t bs).
Proof. exact replay_stream_same_data. Qed.
Print Assumptions c06_replay_stream.

Theorem c06_emitted_records : ∀ bs s t,
  emits s t = true → emitted (commit_blocks s t bs) = emitted s ++ block_recs s t bs.
Proof. exact emitted_is_block_recs. Qed.
Print Assumptions c06_emitted_records.

Theorem c06_replica_converges_under_any_interleaving : ∀ s0 txns r0 s,
  ConcStore.all_emit s0 txns → same_data r0 s0 → Quiescent s0 → pk_plain s0 →
  ConcStore.reach (ConcStore.init s0 txns) s →
  same_data (foldl replay r0 (drop (length (emitted s0)) (emitted (ConcStore.st s)))) (ConcStore.st s).
Proof. exact ConcStore.replica_converges. Qed.
Print Assumptions c06_replica_converges_under_any_interleaving.
