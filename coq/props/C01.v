(* C01  Committed values read back exactly, for every column type and offset.

   Full statement (properties.jsonl): after any sequence of committed transactions, reading any
   column of any live row returns exactly the value most recently committed for that row and
   column - bit for bit / byte for byte - or reports it absent if nothing was stored since the
   row was inserted; for every column type, block, capacity, and for columns created later.

   In the model a value is a bit pattern of its width or a byte string (Bytes.value), so equality
   of values IS bit-for-bit equality.  [cell_final] is the declarative reading: the operations the
   transaction issued on that cell folded in issue order (put = replace, merge = the column's
   merge function from the zero value if absent, delete = absent), then the row's markers.
   The theorems quantify over every state, every transaction (any number of ops per cell, any
   offsets, any blocks), every column parameterisation (merge function, zero, kind) - no bound.
   A put stores [ccast col v]: the identity for every column but int / uint, which accept narrower
   integers through SetAny / SetMany and widen them (Reader.Int sign-extends, Reader.Uint zero-
   extends; Check.widen_signed / widen_unsigned, Widen.v): "exactly the value committed" is then
   the same NUMBER at the column's width.  [c01_widening] shows what that is.
   Domain: enum columns are modelled without hash collisions (finding K3) and strings are below
   65536 bytes (finding K4); both are named in DESIGN.md. *)
From stdpp Require Import gmap.
From ColumnV Require Import GenShape Bytes Ops Buffer Store StoreProofs Link Check Widen ReadInt.

(* one transaction *)
Theorem c01_commit_read : ∀ s t c col i,
  cols s !! c = Some col →
  read (commit s t) c i =
    cell_final col (read s c i) (filter (λ o, ooff o = i) (buf t c)) (filter (λ o, ooff o = i) (trow t)).
Proof. exact commit_read. Qed.
Print Assumptions c01_commit_read.

(* any history of committed transactions *)
Theorem c01_history_read : ∀ s ts c col i,
  cols s !! c = Some col → read (foldl commit s ts) c i = hist_cell col (read s c i) c i ts.
Proof. exact history_read. Qed.
Print Assumptions c01_history_read.

(* "absent if nothing was stored since the row was inserted": an unoccupied offset holds no
   value in any column, in every state reachable under the liveness invariant *)
Theorem c01_free_offset_is_clean : ∀ s c i, CellsLive s → i ∉ fill s → read s c i = None.
Proof. exact free_offset_is_clean. Qed.
Print Assumptions c01_free_offset_is_clean.

Theorem c01_invariant_preserved : ∀ s t, CellsLive s → wf_writes s t → wf_row t → CellsLive (commit s t).
Proof. exact commit_cells_live. Qed.
Print Assumptions c01_invariant_preserved.

(* non-vacuity: a concrete column and transaction exercising put, merge and delete on one cell *)
Example c01_example :
  let col := mkcol true (λ a b, match a, b with V8 x, V8 y => V8 (x + y) | _, _ => b end) (V8 0) id ∅ in
  let s := create_column coll0 1 col false in
  let t := push (push (push txn0 1 (mkop KPut 5 (V8 7))) 1 (mkop KMerge 5 (V8 3))) 1 (mkop KMerge 9 (V8 4)) in
  read (commit s t) 1 5 = Some (V8 10) ∧ read (commit s t) 1 9 = Some (V8 4) ∧ read (commit s t) 1 6 = None.
Proof. vm_compute. done. Qed.

(* narrow integers handed to an int / uint column: the stored value has the same signed (resp.
   unsigned) reading as the entry, and storing a stored value again changes nothing *)
Theorem c01_widening : ∀ v,
  signed_view (widen_signed v) = signed_view v ∧ raw (widen_unsigned v) = raw v ∧
  widen_signed (widen_signed v) = widen_signed v ∧ widen_unsigned (widen_unsigned v) = widen_unsigned v.
Proof. intro v. split; [apply signed_view_widen|]. split; [apply raw_widen_unsigned|]. split; [apply widen_signed_idem|apply widen_unsigned_idem]. Qed.
Print Assumptions c01_widening.

(* ... and that stored value is what the byte-level Reader.Int / Reader.Uint (ReadInt.v; diffed
   against the real accessors on every numeric entry the codec engine decodes) return for the bytes
   the writer produced *)
Theorem c01_int_column_stores_what_reader_int_returns : ∀ v,
  numeric v → wf_value v →
  widen_signed v = V8 (Z.to_N (reader_int (vbytes v) mod 2 ^ 64)) ∧ widen_unsigned v = V8 (reader_uint (vbytes v)).
Proof. intros v Hn Hw. split; [by apply int_column_stores_reader_int|by apply uint_column_stores_reader_uint]. Qed.
Print Assumptions c01_int_column_stores_what_reader_int_returns.

Theorem c01_stored_values_are_fixed : ∀ s t, CastFixed s → CastFixed (commit s t).
Proof. exact commit_cast_fixed. Qed.
Print Assumptions c01_stored_values_are_fixed.

Example c01_narrow_example :
  let s := create_column coll0 1 (col_int merge_add) false in
  let t := push (push txn0 1 (mkop KPut 5 (V2 65531))) 1 (mkop KMerge 5 (V8 1)) in
  read (commit s t) 1 5 = Some (V8 18446744073709551612).
Proof. vm_compute. done. Qed.

(* the tie between the layers: the operations the L2 model takes for block b are what the L0
   byte-level reader decodes from the bytes the L0 writer produced for them *)
Theorem c01_block_ops_via_codec : ∀ ops b,
  Forall wf_op ops → filter (λ o, in_blk b o = true) ops = range (fold_left put ops empty) b.
Proof. exact block_ops_via_codec. Qed.
Print Assumptions c01_block_ops_via_codec.

(* regenerated from the source on every run: the ten generated numeric Apply loops are one piece of
   code up to the type name (so one numeric column model stands for all ten), and within a block
   the updates are applied before the row markers (the order the model follows) *)
Theorem c01_shape : shape_numeric_apply_loops_identical = true ∧ shape_updates_before_markers = true.
Proof. split; reflexivity. Qed.
Print Assumptions c01_shape.
