(* C04  Filters, iteration and aggregates follow set semantics over live rows.

   Word level (Bitmap.v), for bitmaps of ANY lengths: the per-block And / AndNot of the selection
   window with a column's presence or index bitmap are set intersection / difference
   ([c04_and], [c04_andnot]); Or is union provided the source has no bit beyond the window
   ([c04_or], [c04_or_inside]) - which the collection's length invariants give (presence and
   index bits lie inside the fill list; the selection is cloned from the fill list and never
   shorter); a selection truncated to length zero absorbs nothing, which was defect D24.
   The word-level model is diffed against the real kelindar/bitmap on generated windows.
   Set level (Store.v): the selection algebra of With / Without / Union / WithUnion / With<T> is
   [do_fop]; [c04_range_order]: iteration visits the selection in strictly ascending offset
   order, each selected row exactly once; Count is the size of the selection; Sum / Min / Max
   fold the values of the selected rows that hold a value ([sel_values] is defined as exactly
   that list).  The set-level model is diffed against the implementation by the filter profile of
   the history engine (chains x layouts x aggregates).
   The AVX2 / generic kernels of kelindar/bitmap and simd are trusted to implement and / andnot /
   or / sum / min / max on words; they are exercised only through these differential runs. *)
From stdpp Require Import gmap sorting.
From ColumnV Require Import Bytes Store Bitmap.
From ColumnV Require Import FloatInt.
Local Open Scope N_scope.

Theorem c04_and : ∀ a b i, mem (bm_and a b) i = mem a i && mem b i.
Proof. exact mem_and. Qed.
Print Assumptions c04_and.

Theorem c04_andnot : ∀ a b i, mem (bm_andnot a b) i = mem a i && negb (mem b i).
Proof. exact mem_andnot. Qed.
Print Assumptions c04_andnot.

Theorem c04_or : ∀ a b i, mem (bm_or a b) i = mem a i || (mem b i && Nat.ltb (N.to_nat (i / 64)) (length a)).
Proof. exact mem_or. Qed.
Print Assumptions c04_or.

Theorem c04_or_inside : ∀ a b,
  (∀ i, mem b i = true → (N.to_nat (i / 64) < length a)%nat) → ∀ i, mem (bm_or a b) i = mem a i || mem b i.
Proof. exact mem_or_inside. Qed.
Print Assumptions c04_or_inside.

(* iteration order: strictly ascending, every selected offset exactly once *)
Theorem c04_range_order : ∀ X : gset N,
  StronglySorted N.le (sorted_elems X) ∧ NoDup (sorted_elems X) ∧ ∀ i, i ∈ sorted_elems X ↔ i ∈ X.
Proof.
  intro X. unfold sorted_elems. split; [|split].
  - apply StronglySorted_merge_sort; [apply _|]. intros x y. lia.
  - rewrite merge_sort_Permutation. apply NoDup_elements.
  - intro i. by rewrite merge_sort_Permutation, elem_of_elements.
Qed.
Print Assumptions c04_range_order.

(* the chain operators, as set algebra over the selection *)
Theorem c04_chain_semantics : ∀ s t c y,
  index_set s c = Some y →
  sel_of s (do_fop s t (FWith c)) = sel_of s (initialize s t) ∩ y ∧
  sel_of s (do_fop s t (FWithout c)) = sel_of s (initialize s t) ∖ y ∧
  (tsel t ≠ None → sel_of s (do_fop s t (FUnion c)) = sel_of s (initialize s t) ∪ y).
Proof.
  intros s t c y Hy. unfold do_fop. rewrite Hy. cbn [sel_of set_sel tsel default]. split; [done|]. split; [done|].
  intro Hn. rewrite bool_decide_eq_false_2 by done. done.
Qed.
Print Assumptions c04_chain_semantics.

Theorem c04_missing_column : ∀ s t c,
  index_set s c = None →
  sel_of s (do_fop s t (FWith c)) = ∅ ∧ sel_of s (do_fop s t (FWithout c)) = sel_of s (initialize s t).
Proof. intros s t c Hy. unfold do_fop. rewrite Hy. done. Qed.
Print Assumptions c04_missing_column.

(* float columns are exercised with integral values (merges, WithFloat, Sum / Min / Max): the
   model computes on them through the IEEE-754 encodings of integers, which are inverse to each
   other on the whole range where float arithmetic on integers is exact *)
Theorem c04_float_integers_round_trip : ∀ z,
  ((Z.abs z < 2 ^ 53)%Z → fdec (V8 (fenc64 z)) = Some z) ∧ ((Z.abs z < 2 ^ 24)%Z → fdec (V4 (fenc32 z)) = Some z).
Proof. intro z. split; [apply fdec_fenc64|apply fdec_fenc32]. Qed.
Print Assumptions c04_float_integers_round_trip.
