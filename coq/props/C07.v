(* C07  Restore of a snapshot reproduces the collection exactly.

   [c07_restore_snapshot]: for every collection s satisfying the liveness invariant (cells exist
   only at occupied offsets - preserved by every commit, props/C11.v) and [CastFixed] (what a
   column stores is what it reads back from its own stored form: the int / uint columns widen
   narrow put values once, and a widened value is not changed again - preserved by every commit,
   StoreProofs.commit_cast_fixed, part of [Inv]), restoring its snapshot
   into a fresh collection with the same schema yields a collection in which EVERY column reads
   the same at EVERY offset, whose fill list is equal (so Count is equal and no later insert can
   be handed a restored row's offset), with the same column parameters - for any number of
   blocks, any sparse or dense layout.  The snapshot is the model of snapshot.go writeState (per
   block: the fill list's insert markers and one put per present value); restore replays it block
   by block through the ordinary commit path.
   [c07_indexes_after_restore]: bitmap indexes (C03) and sorted indexes (C16) are maintained by
   that commit path, so on the restored collection they equal their definition over the restored
   - hence the original - values.  Key lookups: props/C12.v.
   "Behaves like the original afterwards" follows: every theorem about commits applies to the
   restored collection, which satisfies the same invariants.
   Byte level ([c07_file_round_trip]): the state stream exactly as writeState lays it out
   (WireState.v) followed by the recorded commits, inside the s2 framing (S2Frame.v; the block
   compressor is an arbitrary function of each chunk), is read back by the model of
   Restore's readers as exactly the state and commits that were written. *)
From stdpp Require Import gmap.
From ColumnV Require Import Bytes Store StoreProofs StoreProofs4 Check.
From ColumnV Require Wire WireCommit WireState S2Frame.

Theorem c07_restore_snapshot : ∀ s,
  CellsLive s → CastFixed s →
  let r := restore (fresh_of s) (snapshot s) in
  (∀ c i, read r c i = read s c i) ∧ fill r = fill s ∧ same_schema r s.
Proof. exact restore_snapshot. Qed.
Print Assumptions c07_restore_snapshot.

Theorem c07_indexes_after_restore : ∀ s e rule bits e' bits' col col',
  CellsLive s → CastFixed s → IdxOK s → IdxOK (restore (fresh_of s) (snapshot s)) →
  e ∈ comps s → xstate e = XIndex rule bits → cols s !! xtarget e = Some col → cast_invariant col rule →
  e' ∈ comps (restore (fresh_of s) (snapshot s)) → xstate e' = XIndex rule bits' → xtarget e' = xtarget e →
  cols (restore (fresh_of s) (snapshot s)) !! xtarget e' = Some col' →
  bits' = bits.
Proof. exact restore_index_membership. Qed.
Print Assumptions c07_indexes_after_restore.

Example c07_example :
  let col := mkcol true (λ a b, b) (V8 0) id ∅ in
  let s0 := create_column coll0 1 col false in
  let t := mktxn None {[1%N := [mkop KPut 5 (V8 7); mkop KPut 20000 (V8 9)]]} [mkop KInsert 5 V0; mkop KInsert 20000 V0] [] in
  let s := commit s0 t in
  dump (restore (fresh_of s) (snapshot s)) = dump s ∧ dump s ≠ [].
Proof. vm_compute. split; [done|discriminate]. Qed.

Theorem c07_file_round_trip : ∀ body_dec (st : WireState.state) (cs : list WireCommit.commit) (chunks : list S2Frame.wchunk),
  WireState.state_ok st → Forall WireCommit.commit_ok cs →
  Forall (S2Frame.chunk_ok body_dec) chunks → S2Frame.starts_ok false chunks →
  S2Frame.payloads body_dec chunks = WireState.state_enc st ++ Wire.log_bytes WireCommit.commit_enc cs →
  Wire.restore_bytes WireState.state_dec WireCommit.commit_dec
    (fst (S2Frame.unframe body_dec (length (S2Frame.stream_enc chunks)) false (S2Frame.stream_enc chunks))) = Some (st, cs).
Proof.
  intros body_dec st cs chunks Hst Hcs Hok Hs Hp.
  rewrite (S2Frame.unframe_full body_dec chunks Hok Hs). cbn [fst]. rewrite Hp.
  by apply WireState.real_restore_full.
Qed.
Print Assumptions c07_file_round_trip.
