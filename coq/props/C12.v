(* C12  Primary keys behave like a map from key to one row.

   [KeyBij cells keys]: the lookup table is exactly the inverse of the key column:
       keys !! k = Some i  <->  the key cell of row i holds k.
   It implies: at most one row holds any key ([c12_unique]); a lookup reaches exactly the row
   whose key it is ([c12_lookup_sound], [c12_lookup_complete]).
   [c12_step] / [c12_buffer]: the bijection is preserved by every key-column operation - a put
   (new row, or a row changing its key: the old key is released) and a delete - provided a put
   does not hand a row a key that ANOTHER row holds.  That proviso is what the API establishes
   when the operation is issued (InsertKey / UpsertKey / SetKey consult the table); it fails for
   two issuing operations of one new key inside one transaction (finding K5) and for two
   concurrent upserts of one new key (finding K6), both listed in KNOWN_FINDINGS.txt.
   [c12_deleted_key_is_free]: after a row is deleted its key no longer resolves.
   The statement results of InsertKey / UpsertKey / QueryKey / DeleteKey in the model are lookups
   in that table ([do_stmt]); with the bijection, "fails iff the key exists" reads "iff some live
   row holds the key". *)
From stdpp Require Import gmap.
From ColumnV Require Import Bytes Store StoreProofs StoreProofs2 StoreProofs4 StoreProofs6 StoreProofs7 StoreProofs8.

Theorem c12_step : ∀ cs keys o,
  KeyBij cs keys → key_op_ok cs o → KeyBij (fst (key_step (cs, keys) o)) (snd (key_step (cs, keys) o)).
Proof. exact key_step_bij. Qed.
Print Assumptions c12_step.

Theorem c12_buffer : ∀ ops cs keys,
  KeyBij cs keys → key_ops_ok cs keys ops → KeyBij (fst (foldl key_step (cs, keys) ops)) (key_apply cs keys ops).
Proof. exact key_apply_bij. Qed.
Print Assumptions c12_buffer.

Theorem c12_lookup_sound : ∀ cs keys k i, KeyBij cs keys → keys !! k = Some i → cs !! i = Some (VB k).
Proof. exact key_lookup_sound. Qed.
Print Assumptions c12_lookup_sound.

Theorem c12_lookup_complete : ∀ cs keys k i, KeyBij cs keys → cs !! i = Some (VB k) → keys !! k = Some i.
Proof. exact key_lookup_complete. Qed.
Print Assumptions c12_lookup_complete.

Theorem c12_unique : ∀ cs keys k i j, KeyBij cs keys → cs !! i = Some (VB k) → cs !! j = Some (VB k) → i = j.
Proof. exact key_unique. Qed.
Print Assumptions c12_unique.

Theorem c12_deleted_key_is_free : ∀ cs keys o k,
  KeyBij cs keys → ok o = KDelete → cs !! ooff o = Some (VB k) → snd (key_step (cs, keys) o) !! k = None.
Proof. exact deleted_key_is_free. Qed.
Print Assumptions c12_deleted_key_is_free.

(* K5, stated: two puts of one new key on different rows break the bijection *)
Theorem c12_duplicate_key_in_one_buffer_K5 :
  ∃ ops, let r := foldl key_step (∅, ∅) ops in
         fst r !! 0%N = Some (VB [1%N]) ∧ fst r !! 1%N = Some (VB [1%N]) ∧ ¬ key_ops_ok ∅ ∅ ops.
Proof.
  exists [mkop KPut 0 (VB [1%N]); mkop KPut 1 (VB [1%N])]. cbn. split; [done|]. split; [done|].
  intros (_ & (_ & H) & _). apply (H 0%N); [done|]. by rewrite lookup_insert.
Qed.

(* at the level of the collection: across the commit of a block the key table stays the inverse
   of the key column, for every transaction whose key operations on that block are admissible *)
Theorem c12_commit_block : ∀ s t b p col,
  KeyOK s → pk s = Some p → cols s !! p = Some col →
  key_ops_ok (cells col) (keys s) (filter (λ o, in_blk b o = true) (buf t p)) →
  wf_row t → KeyOK (commit_block s t b).
Proof. exact commit_block_key_ok. Qed.
Print Assumptions c12_commit_block.

(* across a whole commit (every dirty block, each judged in the state its commit meets; the
   admissibility is the boolean Check.v evaluates on every recorded transaction) *)
Theorem c12_commit : ∀ s t,
  KeyOK s → wf_row t → blocks_keys_okb s t (dirty_blocks t) = true → KeyOK (commit s t).
Proof. exact commit_key_ok. Qed.
Print Assumptions c12_commit.

(* one transaction, committed or rolled back *)
Theorem c12_transaction : ∀ s body cp,
  Quiescent s → KeyInv s → txn_wf s body = true → txn_keys_ok s body = true → KeyInv (fst (run_txn s body cp)).
Proof. exact run_txn_key_inv. Qed.
Print Assumptions c12_transaction.

(* every state of every admissible history: the key table is the inverse of the key column, the
   key column (if one was created) exists, and without one the table is empty *)
Theorem c12_reachable : ∀ h,
  history_ok coll0 h → history_keys_ok coll0 h → KeyInv (foldl hrun coll0 h).
Proof. exact reachable_key_inv. Qed.
Print Assumptions c12_reachable.
