(* C08  A snapshot taken under concurrent commits restores to a consistent cut.

   Per 16K block (blocks are independent: each has its own latch, its own last-commit id and its
   own section of the state stream), for EVERY interleaving of any number of committing writers
   with the snapshot's steps (install recorder / read block under the read latch / uninstall /
   copy): what Restore reconstructs - the block state as read, plus the recorded commits whose id
   exceeds the block's stored id - is the block after the first m commits of its apply order, in
   order, with  recorder-installed <= block-read <= m <= applied-so-far.  Hence no commit is lost
   from the middle, applied partially or out of order, and every commit applied before the
   snapshot began is included.
   The two facts about writers this rests on are the invariants of Conc.v, proved for any number
   of threads: commit ids increase in apply order (they are drawn under the block latch), and the
   recorder receives the commits in apply order, inside the latch.
   "Never fails or panics" is not a model statement: it is checked on the implementation under the
   controlled scheduler (engine sched, scenario snap). *)
From stdpp Require Import gmap list sorting.
From ColumnV Require SnapCut Conc.
From ColumnV Require Import GenShape.
Local Open Scope N_scope.

Theorem c08_restored_is_a_prefix : ∀ s l n,
  SnapCut.reach s → SnapCut.saved s = Some l → SnapCut.snapn s = Some n →
  ∃ m, (SnapCut.openn s <= n)%nat ∧ (n <= m <= length (SnapCut.hist s))%nat ∧
       take n (SnapCut.hist s) ++ filter (λ i, SnapCut.lastid (take n (SnapCut.hist s)) < i) l = take m (SnapCut.hist s).
Proof. exact SnapCut.restored_is_a_prefix. Qed.
Print Assumptions c08_restored_is_a_prefix.

Theorem c08_ids_and_recorder_follow_apply_order : ∀ threads s,
  Conc.wf_init threads → Conc.reach (Conc.init threads) s →
  StronglySorted N.lt (Conc.applied s) ∧ Conc.logged s `prefix_of` Conc.applied s.
Proof. exact Conc.ids_increase_in_apply_order. Qed.
Print Assumptions c08_ids_and_recorder_follow_apply_order.

(* non-vacuity: two commits before the recorder, one between install and read, one after the read *)
Example c08_example :
  let s1 := SnapCut.mkst [1; 2] 2 None 0 None None in
  let s2 := SnapCut.mkst [1; 2; 3; 4] 4 None 2 (Some 3%nat) (Some [3; 4]) in
  take 3 (SnapCut.hist s2) ++ filter (λ i, SnapCut.lastid (take 3 (SnapCut.hist s2)) < i) [3; 4] = [1; 2; 3; 4].
Proof. vm_compute. done. Qed.

(* the protocol model draws a fresh id inside every block's latch; regenerated from the source on
   every run: in rangeWrite the id is drawn by a statement of the per-block callback itself, between
   the latch's Lock and Unlock, the commit callback runs there too, and both Append calls follow the
   apply steps inside it *)
Theorem c08_shape : shape_id_drawn_under_latch = true ∧ shape_callback_under_latch = true ∧ shape_appends_after_apply_inside_latch = true.
Proof. repeat split; reflexivity. Qed.
Print Assumptions c08_shape.
