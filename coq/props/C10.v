(* C10  A reader never sees a half-applied commit on a row.

   For any number of writer and reader threads on a block and EVERY interleaving of their steps
   (Conc.v: Lock / draw id / first column applied / last column applied / append / Unlock for a
   writer; RLock / read / RUnlock for a reader):
   [c10_reader_sees_one_committed_state]: all the reads one reader performs between RLock and
   RUnlock observe the block after the SAME number of commits, and never a state in which some
   commit is applied to only part of its columns;
   [c10_no_half_commit_without_latch]: a half-applied commit exists only while its writer holds
   the write latch.
   With data (ConcRead.v, over the real store model of ConcStore.v): ANY number of writers committing
   transactions block after block and ANY number of readers, each holding the read latch of one
   block while it reads cells of that block, in ANY interleaving:
   [c10_reader_sees_one_state_of_the_store] - everything one reader was handed is the content of ONE
   state of the collection, the fold of the first k block commits of the apply order: every
   transaction's changes to the block are in it completely or not at all, and every value is one a
   transaction committed (or the initial one); [c10_held_block_is_stable] - while the latch is held
   that state is the block's current one; [c10_reader_excludes_writer].
   What the model cannot exhibit (partial, runtime): that Go's sync.RWMutex provides these
   semantics and that compiled code does not reorder accesses across Lock/Unlock (the Go memory
   model) - covered by the -race runs of C18; and that QueryAt / Range really take the latch for
   the whole callback - covered by replaying recorded schedules through [lock_step]: a thread
   that gets past an acquisition the protocol forbids is a violation. *)
From stdpp Require Import gmap list.
From ColumnV Require Import Conc.
From ColumnV Require Bytes Store ConcStore ConcRead.

Theorem c10_reader_sees_one_committed_state : ∀ threads s t seen,
  wf_init threads → reach (init threads) s → pcs s !! t = Some (RDone seen) →
  ∃ k, Forall (λ x, x = (k, false)) seen.
Proof. exact reader_sees_one_committed_state. Qed.
Print Assumptions c10_reader_sees_one_committed_state.

Theorem c10_no_half_commit_without_latch : ∀ threads s,
  wf_init threads → reach (init threads) s → wlatch s = None → half s = false.
Proof. exact no_half_commit_without_latch. Qed.
Print Assumptions c10_no_half_commit_without_latch.

Theorem c10_protocol_invariant : ∀ threads s, wf_init threads → reach (init threads) s → Inv s.
Proof. exact inv_reach. Qed.
Print Assumptions c10_protocol_invariant.

(* non-vacuity: a writer and a reader, the reader is excluded while the commit is half applied *)
Example c10_example :
  let th : gmap nat pc := {[0%nat := WIdle; 1%nat := RIdle]} in
  wf_init th ∧ ∃ s, reach (init th) s ∧ half s = true ∧ wlatch s = Some 0%nat.
Proof.
  split.
  - intros t p H. apply lookup_insert_Some in H as [[_ <-]|[_ H]]; [by left|].
    apply lookup_singleton_Some in H as [_ <-]. by right.
  - eexists. split.
    + eapply r_step; [eapply r_step; [eapply r_step; [apply r_refl|]|]|].
      * apply (s_lock _ 0%nat); done.
      * apply (s_id _ 0%nat). cbn. by rewrite lookup_insert.
      * eapply (s_apply1 _ 0%nat). cbn. by rewrite lookup_insert.
    + done.
Qed.

Theorem c10_reader_sees_one_state_of_the_store : ∀ s0 txns readers s t r,
  ConcRead.xreach (ConcRead.xinit s0 txns readers) s → ConcRead.rds s !! t = Some r →
  ∃ k, (k <= length (ConcStore.trace (ConcRead.base s)))%nat ∧
       ∀ c i v, (c, i, v) ∈ ConcRead.rseen r →
                v = Store.read (foldl ConcStore.apply_entry s0 (take k (ConcStore.trace (ConcRead.base s)))) c i.
Proof. exact ConcRead.reader_sees_one_committed_state. Qed.
Print Assumptions c10_reader_sees_one_state_of_the_store.

Theorem c10_held_block_is_stable : ∀ s0 txns readers s t r m c i,
  ConcRead.xreach (ConcRead.xinit s0 txns readers) s → ConcRead.rds s !! t = Some r →
  ConcRead.rstate r = ConcRead.RHold m → Store.blk i = ConcRead.rblk r →
  Store.read (ConcStore.st (ConcRead.base s)) c i =
  Store.read (foldl ConcStore.apply_entry s0 (take m (ConcStore.trace (ConcRead.base s)))) c i.
Proof. exact ConcRead.held_block_is_stable. Qed.
Print Assumptions c10_held_block_is_stable.

Theorem c10_reader_excludes_writer : ∀ s0 txns readers s t r m u w,
  ConcRead.xreach (ConcRead.xinit s0 txns readers) s → ConcRead.rds s !! t = Some r →
  ConcRead.rstate r = ConcRead.RHold m → ConcStore.ths (ConcRead.base s) !! u = Some w →
  ConcStore.whold w ≠ Some (ConcRead.rblk r).
Proof. exact ConcRead.reader_excludes_writer. Qed.
Print Assumptions c10_reader_excludes_writer.

Theorem c10_writers_part_is_a_run_of_the_writer_lts : ∀ s0 txns readers s,
  ConcRead.xreach (ConcRead.xinit s0 txns readers) s → ConcStore.reach (ConcStore.init s0 txns) (ConcRead.base s).
Proof. exact ConcRead.xreach_base. Qed.
Print Assumptions c10_writers_part_is_a_run_of_the_writer_lts.

(* non-vacuity: a reader on block 0 takes the latch, reads a cell and releases; the value it was
   handed is recorded *)
Example c10_reader_example :
  let s0 := Store.coll0 in
  let readers : gmap nat N := {[ 5%nat := 0%N ]} in
  ∃ s r, ConcRead.xreach (ConcRead.xinit s0 ∅ readers) s ∧ ConcRead.rds s !! 5%nat = Some r ∧
         ConcRead.rstate r = ConcRead.RDone 0 ∧ ConcRead.rseen r = [(1%N, 3%N, None)].
Proof.
  cbn zeta. eexists _, _. split.
  { eapply ConcRead.xr_step. eapply ConcRead.xr_step. eapply ConcRead.xr_step. apply ConcRead.xr_refl.
    - eapply (ConcRead.x_rlock _ 5%nat); reflexivity.
    - eapply (ConcRead.x_read _ 5%nat _ _ 1%N 3%N); [apply lookup_insert|reflexivity|reflexivity].
    - eapply (ConcRead.x_runlock _ 5%nat); [apply lookup_insert|reflexivity]. }
  cbn [ConcRead.rds]. rewrite lookup_insert. repeat split; reflexivity.
Qed.
