(* C10  A reader never sees a half-applied commit on a row.

   For any number of writer and reader threads on a block and EVERY interleaving of their steps
   (Conc.v: Lock / draw id / first column applied / last column applied / append / Unlock for a
   writer; RLock / read / RUnlock for a reader):
   [c10_reader_sees_one_committed_state]: all the reads one reader performs between RLock and
   RUnlock observe the block after the SAME number of commits, and never a state in which some
   commit is applied to only part of its columns;
   [c10_no_half_commit_without_latch]: a half-applied commit exists only while its writer holds
   the write latch.
   What the model cannot exhibit (partial, runtime): that Go's sync.RWMutex provides these
   semantics and that compiled code does not reorder accesses across Lock/Unlock (the Go memory
   model) - covered by the -race runs of C18; and that QueryAt / Range really take the latch for
   the whole callback - covered by replaying recorded schedules through [lock_step]: a thread
   that gets past an acquisition the protocol forbids is a violation. *)
From stdpp Require Import gmap list.
From ColumnV Require Import Conc.

Theorem c10_reader_sees_one_committed_state : ∀ threads s t seen,
  wf_init threads → reach (init threads) s → pcs s !! t = Some (RDone seen) →
  ∃ k, Forall (λ x, x = (k, false)) seen.
Proof. exact reader_sees_one_committed_state. Qed.
Print Assumptions c10_reader_sees_one_committed_state.

Theorem c10_no_half_commit_without_latch : ∀ threads s,
  wf_init threads → reach (init threads) s → wlatch s = None → half s = false.
Proof. exact no_half_commit_without_latch. Qed.
Print Assumptions c10_no_half_commit_without_latch.

Theorem c10_protocol_invariant : ∀ threads s, wf_init threads → reach (init threads) s → Inv s.
Proof. exact inv_reach. Qed.
Print Assumptions c10_protocol_invariant.

(* non-vacuity: a writer and a reader, the reader is excluded while the commit is half applied *)
Example c10_example :
  let th : gmap nat pc := {[0%nat := WIdle; 1%nat := RIdle]} in
  wf_init th ∧ ∃ s, reach (init th) s ∧ half s = true ∧ wlatch s = Some 0%nat.
Proof.
  split.
  - intros t p H. apply lookup_insert_Some in H as [[_ <-]|[_ H]]; [by left|].
    apply lookup_singleton_Some in H as [_ <-]. by right.
  - eexists. split.
    + eapply r_step; [eapply r_step; [eapply r_step; [apply r_refl|]|]|].
      * apply (s_lock _ 0%nat); done.
      * apply (s_id _ 0%nat). cbn. by rewrite lookup_insert.
      * eapply (s_apply1 _ 0%nat). cbn. by rewrite lookup_insert.
    + done.
Qed.
