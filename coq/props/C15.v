(* C15  The change stream is exactly-once, per-block ordered and identifiable.

   Sequential part, for every state and every transaction: a committing transaction appends to
   the stream exactly one commit per block it queued operations for, in ascending block order,
   carrying consecutive ids starting at the collection's counter (hence distinct, and increasing
   in apply order for every block); nothing else; a transaction that queued nothing returns the
   collection unchanged (no commit, no id); a rolled back transaction leaves the stream and the
   counter untouched (c02_rollback_no_trace).  The per-block id order under concurrent writers
   is the L3 invariant of props/C08.v (ids drawn under the block latch). *)
From stdpp Require Import gmap sorting.
From ColumnV Require Import GenShape Bytes Store StoreProofs StoreProofs2.
Local Open Scope N_scope.

Theorem c15_commit_stream : ∀ s t,
  ∃ recs, emitted (commit s t) = emitted s ++ recs ∧
          (if emits s t
           then rblk <$> recs = dirty_blocks t ∧
                rid <$> recs = (λ k, nextid s + N.of_nat k) <$> seq 0 (length (dirty_blocks t))
           else recs = []) ∧
          StronglySorted N.lt (dirty_blocks t).
Proof. exact commit_stream. Qed.
Print Assumptions c15_commit_stream.

Theorem c15_dirty_blocks_exact : ∀ t,
  NoDup (dirty_blocks t) ∧ ∀ b, b ∈ dirty_blocks t ↔ ∃ o, o ∈ all_ops t ∧ blk (ooff o) = b.
Proof. exact dirty_blocks_spec. Qed.
Print Assumptions c15_dirty_blocks_exact.

Theorem c15_empty_txn_silent : ∀ s t, all_ops t = [] → commit s t = s.
Proof. exact empty_txn_silent. Qed.
Print Assumptions c15_empty_txn_silent.

Theorem c15_rollback_emits_nothing : ∀ s body,
  Quiescent s → Forall fresh_res (snd (run_txn s body false)) →
  emitted (fst (run_txn s body false)) = emitted s ∧ nextid (fst (run_txn s body false)) = nextid s.
Proof. intros s body Q F. by rewrite (rollback_no_trace s body Q F). Qed.
Print Assumptions c15_rollback_emits_nothing.

Example c15_example :
  let col := mkcol true (λ a b, b) (V8 0) id ∅ in
  let s := create_column coll0 1 col false in
  let t := push (push txn0 1 (mkop KPut 5 (V8 7))) 1 (mkop KPut 20000 (V8 9)) in
  (rblk <$> emitted (commit s t)) = [0; 1] ∧ (rid <$> emitted (commit s t)) = [1; 2].
Proof. vm_compute. done. Qed.

(* regenerated from the source on every run: the id is drawn, the commit applied and both appends
   (snapshot recorder, logger) made between Lock and Unlock of the block latch - the step structure
   Conc.v's invariant (ids increase in apply order = logger order) is about *)
Theorem c15_shape : shape_id_drawn_under_latch = true ∧ shape_callback_under_latch = true ∧ shape_appends_after_apply_inside_latch = true.
Proof. repeat split; reflexivity. Qed.
Print Assumptions c15_shape.
