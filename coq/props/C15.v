(* C15  The change stream is exactly-once, per-block ordered and identifiable.

   Sequential part, for every state and every transaction: a committing transaction appends to
   the stream exactly one commit per block it queued operations for, in ascending block order,
   carrying consecutive ids starting at the collection's counter (hence distinct, and increasing
   in apply order for every block); nothing else; a transaction that queued nothing returns the
   collection unchanged (no commit, no id); a rolled back transaction leaves the stream and the
   counter untouched (c02_rollback_no_trace).  The per-block id order under concurrent writers
   is the L3 invariant of props/C08.v (ids drawn under the block latch).
   [c15_stream_under_any_interleaving] (ConcStore.v): for ANY number of concurrent writers in ANY
   interleaving, the stream is exactly one record per applied block commit, in apply order, for
   the block it was applied to, with consecutive - hence distinct, non-zero after the first draw and
   strictly increasing - ids; [c15_each_block_once]: a finished transaction contributed exactly its
   dirty blocks, each once. *)
From stdpp Require Import gmap sorting.
From ColumnV Require Import GenShape Bytes Store StoreProofs StoreProofs2.
From ColumnV Require ConcStore.
Local Open Scope N_scope.

Theorem c15_commit_stream : ∀ s t,
  ∃ recs, emitted (commit s t) = emitted s ++ recs ∧
          (if emits s t
           then rblk <$> recs = dirty_blocks t ∧
                rid <$> recs = (λ k, nextid s + N.of_nat k) <$> seq 0 (length (dirty_blocks t))
           else recs = []) ∧
          StronglySorted N.lt (dirty_blocks t).
Proof. exact commit_stream. Qed.
Print Assumptions c15_commit_stream.

Theorem c15_dirty_blocks_exact : ∀ t,
  NoDup (dirty_blocks t) ∧ ∀ b, b ∈ dirty_blocks t ↔ ∃ o, o ∈ all_ops t ∧ blk (ooff o) = b.
Proof. exact dirty_blocks_spec. Qed.
Print Assumptions c15_dirty_blocks_exact.

Theorem c15_empty_txn_silent : ∀ s t, all_ops t = [] → commit s t = s.
Proof. exact empty_txn_silent. Qed.
Print Assumptions c15_empty_txn_silent.

Theorem c15_rollback_emits_nothing : ∀ s body,
  Quiescent s → Forall fresh_res (snd (run_txn s body false)) →
  emitted (fst (run_txn s body false)) = emitted s ∧ nextid (fst (run_txn s body false)) = nextid s.
Proof. intros s body Q F. by rewrite (rollback_no_trace s body Q F). Qed.
Print Assumptions c15_rollback_emits_nothing.

Example c15_example :
  let col := mkcol true (λ a b, b) (V8 0) id ∅ in
  let s := create_column coll0 1 col false in
  let t := push (push txn0 1 (mkop KPut 5 (V8 7))) 1 (mkop KPut 20000 (V8 9)) in
  (rblk <$> emitted (commit s t)) = [0; 1] ∧ (rid <$> emitted (commit s t)) = [1; 2].
Proof. vm_compute. done. Qed.

(* regenerated from the source on every run: the id is drawn, the commit applied and both appends
   (snapshot recorder, logger) made between Lock and Unlock of the block latch - the step structure
   Conc.v's invariant (ids increase in apply order = logger order) is about *)
Theorem c15_shape : shape_id_drawn_under_latch = true ∧ shape_callback_under_latch = true ∧ shape_appends_after_apply_inside_latch = true.
Proof. repeat split; reflexivity. Qed.
Print Assumptions c15_shape.

Theorem c15_stream_under_any_interleaving : ∀ s0 txns s,
  ConcStore.all_emit s0 txns → ConcStore.reach (ConcStore.init s0 txns) s →
  ∃ recs, emitted (ConcStore.st s) = emitted s0 ++ recs ∧ recs = ConcStore.trace_recs s0 (ConcStore.trace s) ∧
          rblk <$> recs = ConcStore.eblk <$> ConcStore.trace s ∧
          rid <$> recs = (λ k, nextid s0 + N.of_nat k) <$> seq 0 (length (ConcStore.trace s)).
Proof. exact ConcStore.stream_is_trace. Qed.
Print Assumptions c15_stream_under_any_interleaving.

Theorem c15_each_block_once : ∀ s0 txns s t x,
  ConcStore.reach (ConcStore.init s0 txns) s → ConcStore.finished s → txns !! t = Some x →
  ConcStore.eblk <$> filter (λ e, ConcStore.etid e = t) (ConcStore.trace s) = dirty_blocks x.
Proof. exact ConcStore.finished_all_applied. Qed.
Print Assumptions c15_each_block_once.
