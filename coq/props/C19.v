(* C19  Triggers fire once per committed change, with the final value.

   [c19_commit_log]: the log of a trigger after a commit is its log before, followed - for each
   block the transaction touched, in ascending order - by one event per operation of the watched
   column's rewritten buffer for that block (a store event for every put, in issue order) and then
   one deletion event per row-delete marker of the block.  [c19_events_per_row]: restricted to one
   row, the rewritten buffer is the issued operations in issue order with every merge turned into
   a put, one for one, so there is exactly one event per committed store; [c19_final_value]: the
   value a store event carries is the value the cell holds right after that operation (the merged
   result for a merge).  A rolled back transaction changes nothing (c02_rollback_no_trace: the
   whole collection, trigger logs included, is unchanged).
   Whether a block's deletions come before or after its stores is the code's choice (after, since
   the updates-before-markers repair); the property fixes only the order among one row's stores. *)
From stdpp Require Import gmap.
From ColumnV Require Import Bytes Store StoreProofs StoreProofs3.

Theorem c19_commit_log : ∀ s t id e log,
  find_comp s id = Some e → xstate e = XTrigger log →
  trig_log (commit s t) id = log ++ commit_events s t (xtarget e) (dirty_blocks t).
Proof. exact commit_trigger. Qed.
Print Assumptions c19_commit_log.

Theorem c19_block_log : ∀ s t b id e log,
  find_comp s id = Some e → xstate e = XTrigger log →
  trig_log (commit_block s t b) id = log ++ block_events s t (xtarget e) b.
Proof. exact commit_block_trigger. Qed.
Print Assumptions c19_block_log.

Theorem c19_events_per_row : ∀ s t b c col i,
  cols s !! c = Some col → blk i = b →
  filter (λ o, ooff o = i) (rw_block s t b c) = rw_list col (cells col !! i) (filter (λ o, ooff o = i) (buf t c))
  ∧ length (rw_list col (cells col !! i) (filter (λ o, ooff o = i) (buf t c))) = length (filter (λ o, ooff o = i) (buf t c)).
Proof. intros. split; [by apply rw_block_offset|apply rw_list_length]. Qed.
Print Assumptions c19_events_per_row.

Theorem c19_final_value : ∀ c v o, ok (rstep c v o) = KPut → cstep c v o = Some (ccast c (oval (rstep c v o))).
Proof. exact rstep_put_value. Qed.
Print Assumptions c19_final_value.

Example c19_example :
  let col := mkcol true (λ a b, match a, b with V8 x, V8 y => V8 (x + y) | _, _ => b end) (V8 0) id ∅ in
  let s0 := create_column coll0 1 col false in
  let s1 := create_computed s0 7 1 (XTrigger []) in
  let t := push_row (push (push txn0 1 (mkop KPut 5 (V8 3))) 1 (mkop KMerge 5 (V8 4))) (mkop KDelete 9 V0) in
  trig_log (commit s1 t) 7 = [TStored 5 (V8 3); TStored 5 (V8 7); TDeleted 9]%N.
Proof. vm_compute. done. Qed.
