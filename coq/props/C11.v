(* C11  Insert offsets never collide and reused offsets carry no stale data.

   (a) allocator: [c11_find_free_fresh] (Alloc.v) - the offset findFreeIndex computes from the
       fill-list words and the counter is not occupied, for every fill list and counter with
       count > |fill| - and its word-level model is diffed against the real findFreeIndex.
   (b) [c11_inserts_distinct]: the offsets reserved by the inserts of a transaction are pairwise
       distinct and disjoint from the rows occupied when it started; reserved offsets stay in the
       shared fill list, so no later insert (of any transaction) can receive them.
   (c) [c11_count_inflight] / [c11_count_commit]: Count equals the number of occupied offsets at
       every statement boundary and after every commit; after a rollback by c02_rollback_no_trace.
   (d) [c11_no_stale_data]: an unoccupied offset holds no value in any column
       ([CellsLive] is preserved by every commit), so a newly inserted row exposes exactly the
       fold of its own insert's writes (c01_commit_read from the cell value None), and by C03 it
       is in no index unless its own value satisfies the rule. *)
From stdpp Require Import gmap.
From ColumnV Require Import Bytes Store StoreProofs StoreProofs2 StoreProofs6 Alloc.

Theorem c11_inserts_distinct : ∀ s body,
  Quiescent s → Forall fresh_res (snd (do_stmts s txn0 body)) →
  NoDup (tres (snd (fst (do_stmts s txn0 body)))) ∧ ∀ i, i ∈ tres (snd (fst (do_stmts s txn0 body))) → i ∉ fill s.
Proof. exact inserts_distinct. Qed.
Print Assumptions c11_inserts_distinct.

Theorem c11_count_inflight : ∀ s body,
  Quiescent s → Forall fresh_res (snd (do_stmts s txn0 body)) → Quiescent (fst (fst (do_stmts s txn0 body))).
Proof. exact inflight_count. Qed.
Print Assumptions c11_count_inflight.

Theorem c11_count_commit : ∀ s t, Quiescent s → Quiescent (commit s t).
Proof. exact commit_quiescent. Qed.
Print Assumptions c11_count_commit.

Theorem c11_no_stale_data : ∀ s c i, CellsLive s → i ∉ fill s → read s c i = None.
Proof. exact free_offset_is_clean. Qed.
Print Assumptions c11_no_stale_data.

Theorem c11_cells_live_preserved : ∀ s t, CellsLive s → wf_writes s t → wf_row t → CellsLive (commit s t).
Proof. exact commit_cells_live. Qed.
Print Assumptions c11_cells_live_preserved.

Theorem c11_fill_after_commit : ∀ s t i,
  bool_decide (i ∈ fill (commit s t)) = foldl live_step (bool_decide (i ∈ fill s)) (filter (λ o, ooff o = i) (trow t)).
Proof. exact commit_fill. Qed.
Print Assumptions c11_fill_after_commit.

(* (a) the allocator, at word level: for every fill list of 64-bit words and every counter value
   exceeding the number of occupied offsets, the offset computed by findFreeIndex is free *)
Theorem c11_find_free_fresh : ∀ ws count,
  Forall (λ w, (w < 2 ^ 64)%N) ws → (occupied ws < count)%N → contains ws (find_free ws count) = false.
Proof. exact find_free_fresh_count. Qed.
Print Assumptions c11_find_free_fresh.

Example c11_alloc_example : find_free [N.ones 64; 5%N] 67 = 65%N ∧ find_free [N.ones 64] 65 = 64%N ∧ find_free [] 1 = 0%N.
Proof. vm_compute. done. Qed.

(* the invariants together, in EVERY state reachable from the empty collection by any history of
   schema changes and transactions (committed or rolled back) whose transactions meet the decidable
   side conditions [txn_wf] - which Check.v evaluates on every recorded history (tag WF) *)
Theorem c11_reachable_invariants : ∀ h, history_ok coll0 h → Inv (foldl hrun coll0 h).
Proof. exact reachable_inv. Qed.
Print Assumptions c11_reachable_invariants.
