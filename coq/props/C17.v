(* C17  Rows expire only after their deadline, and then do expire.

   Expire.v states the cleanup's decision over the Store model with the clock as an argument:
   one pass deletes row i iff it holds a deadline d in the expire column with d <> 0 and d < now
   ([c17_pass_exact]); the values - deadlines included - of the rows that survive are untouched;
   hence over ANY sequence of passes a row without a deadline, with deadline 0 or with a deadline
   not before the latest pass is never removed ([c17_no_ttl_never_expires],
   [c17_future_deadline_survives]), and a row whose deadline has passed is gone after the first
   pass that starts after it ([c17_expired_is_removed]).  Setting or extending the TTL is a put /
   an additive merge on the deadline cell (C01); the deadline is an ordinary int64 cell, so it
   survives snapshot/restore and replication by C07 / C06.
   Partial (runtime): "within a few cleanup intervals" depends on the ticker and the scheduler,
   which no model exhibits; the ttl engine brackets it on the real vacuum goroutine and clock.
   Extend on a row WITHOUT a deadline sets it to 1970 + delta (0 + delta): the row expires at
   once.  The property does not define this case; it is documented (O1), not asserted. *)
From stdpp Require Import gmap.
From ColumnV Require Import Bytes Store StoreProofs Check Expire.

Theorem c17_pass_exact : ∀ now s i, i ∈ fill (vacuum now s) ↔ i ∈ fill s ∧ expired now s i = false.
Proof. exact vacuum_fill. Qed.
Print Assumptions c17_pass_exact.

Theorem c17_survivors_untouched : ∀ now s c col i,
  cols s !! c = Some col → expired now s i = false → read (vacuum now s) c i = read s c i.
Proof. exact vacuum_keeps_values. Qed.
Print Assumptions c17_survivors_untouched.

Theorem c17_no_ttl_never_expires : ∀ nows s i,
  is_Some (cols s !! expire_col) → i ∈ fill s → (deadline s i = None ∨ deadline s i = Some 0%Z) → i ∈ fill (passes nows s).
Proof. exact no_ttl_never_expires. Qed.
Print Assumptions c17_no_ttl_never_expires.

Theorem c17_future_deadline_survives : ∀ nows s i d,
  is_Some (cols s !! expire_col) → i ∈ fill s → deadline s i = Some d → (∀ n, n ∈ nows → (n <= d)%Z) → i ∈ fill (passes nows s).
Proof. exact future_deadline_survives. Qed.
Print Assumptions c17_future_deadline_survives.

Theorem c17_expired_is_removed : ∀ now s i d,
  deadline s i = Some d → d ≠ 0%Z → (d < now)%Z → i ∉ fill (vacuum now s).
Proof. exact expired_is_removed. Qed.
Print Assumptions c17_expired_is_removed.

(* "setting or extending the TTL moves the deadline accordingly": the deadline cell after the Set /
   Extend operations of one transaction (with c01_commit_read: of any history) is the fold of
   ttl_step - every Extend adds to what the cell holds at that point *)
Theorem c17_set_extend_arithmetic : ∀ i l d,
  foldl (cstep ttl_col) (Some (V8 d)) (ttl_to_op i <$> l) = Some (V8 (foldl ttl_step d l)).
Proof. exact ttl_ops_fold. Qed.
Print Assumptions c17_set_extend_arithmetic.
