(* C02  Transactions are atomic: commit applies all, rollback leaves no trace.

   (a) [c02_rollback_no_trace]: a transaction whose callback returns an error leaves the
       collection EQUAL, as a mathematical object, to the collection before it ran: rows, values,
       indexes, key lookups, Count, fill list (hence the behaviour of later inserts), commit id
       counter and change stream.  Hypotheses: Count was exact before ([Quiescent]) and every
       insert of the body received an offset that was free when handed out ([fresh_res] - the
       allocator's contract, proved for findFreeIndex in props/C11.v and monitored on the
       implementation by the FRESH tag).  The body is ANY list of statements: successful and
       failing inserts, updates, merges, deletes, key operations, filters, iteration with writes.
   (b) [c02_commit_applies_all]: a committing transaction applies every queued operation: each
       cell ends as the fold of all operations queued for it (props/C01.v).
   (c) [c02_inflight_invisible]: until the commit, committed storage (all columns, computed
       columns, key table, stream) is untouched, so every reader reads the committed values,
       the transaction's own reads included.
   NOT proved because it is false of the code (finding K1, see DESIGN.md): the OFFSET of an
   in-flight insert is visible to other transactions through the shared fill list (Count and an
   empty row); its values are not.  [c02_inflight_invisible] therefore speaks of storage, and
   the fill list is covered by [inflight] (fill = committed fill + own reserved offsets). *)
From stdpp Require Import gmap.
From ColumnV Require Import Bytes Store StoreProofs StoreProofs2.

Theorem c02_rollback_no_trace : ∀ s body,
  Quiescent s → Forall fresh_res (snd (run_txn s body false)) → fst (run_txn s body false) = s.
Proof. exact rollback_no_trace. Qed.
Print Assumptions c02_rollback_no_trace.

Theorem c02_commit_applies_all : ∀ s t c col i,
  cols s !! c = Some col →
  read (commit s t) c i =
    cell_final col (read s c i) (filter (λ o, ooff o = i) (buf t c)) (filter (λ o, ooff o = i) (trow t)).
Proof. exact commit_read. Qed.
Print Assumptions c02_commit_applies_all.

Theorem c02_inflight_invisible : ∀ s body, same_store (fst (fst (do_stmts s txn0 body))) s.
Proof. exact inflight_invisible. Qed.
Print Assumptions c02_inflight_invisible.

(* K1, stated: the reserved offset of an in-flight insert IS in the shared fill list *)
Theorem c02_inflight_insert_offset_visible_K1 :
  ∃ s body, let s1 := fst (fst (do_stmts s txn0 body)) in 0%N ∈ fill s1 ∧ 0%N ∉ fill s ∧ count s1 = 1%N.
Proof. exists coll0, [SInsert 0 [] false]. vm_compute. split; [|split]; [set_solver|set_solver|done]. Qed.

Example c02_example :
  let col := mkcol true (λ a b, b) (V8 0) id ∅ in
  let s := create_column coll0 1 col false in
  let body := [SInsert 0 [WPut 1 (V8 5)] false; SInsert 1 [] true] in
  Quiescent s ∧ Forall fresh_res (snd (run_txn s body false)) ∧ dump (fst (run_txn s body false)) = [].
Proof. vm_compute. split; [done|]. split; [|done]. repeat constructor. Qed.
