(* C05  Commit buffers, commits and logs round-trip every operation sequence.

   Sentence 1 [c05_range_put_all]: for EVERY sequence of well-formed operations (every kind and
   value shape, offsets in any order, repeats, decreasing, jumps between blocks; no length bound),
   reading block c of the buffer they were written to yields exactly the operations of block c,
   in write order.  wf_op: offset < 2^32, value fits its width, byte strings shorter than 65536
   bytes (finding K4: the format's 2-byte length field) with every byte < 256.  The model is the
   byte-level writer and reader (header byte, big-endian value, 1-5 byte varint delta or the
   "next" flag, chunk headers), built on constants regenerated from commit/buffer.go.
   [c05_next_enc]: one operation, decoded from its own bytes followed by anything.
   Sentence 3 [c05_rewrite_per_offset]: after a column consumed a block, every offset reads the
   sequence it was written with every merge turned into a put of the merged result, one for one
   ([rw_list]); [c05_rewrite_idempotent]: replaying rewritten operations on the same pre-state
   reproduces the post-state.  Finding K2 (length-changing merge re-appended at the end) is
   outside this model of the rewrite: see KNOWN_FINDINGS.txt.
   Sentence 2 [c05_buffer_wire], [c05_commit_wire]: a serialized buffer / commit, laid out exactly as
   Buffer.WriteTo / Commit.WriteTo do (WireCommit.v, diffed byte for byte against them), decodes
   to itself whatever follows, and no strict prefix of it is accepted; logs: props/C13.v. *)
From stdpp Require Import gmap.
From ColumnV Require Import Bytes Ops Buffer Rewrite Store StoreProofs Wire WireCommit.
Local Open Scope N_scope.

Theorem c05_range_put_all : ∀ ops c,
  Forall wf_op ops →
  range (fold_left put ops empty) c = List.filter (λ o, chunk_of (ooff o) =? c) ops.
Proof. exact range_put_all. Qed.
Print Assumptions c05_range_put_all.

Theorem c05_next_enc : ∀ last o rest,
  last < M32 → wf_op o → next (enc last o ++ rest) last = Some (o, rest).
Proof. exact next_enc. Qed.
Print Assumptions c05_next_enc.

Theorem c05_varint_roundtrip : ∀ d rest, d < 4294967296 → rvar (wvar d ++ rest) = Some (d, rest).
Proof. exact rvar_wvar. Qed.
Print Assumptions c05_varint_roundtrip.

Theorem c05_rewrite_per_offset : ∀ c ops i,
  filter (λ o, ooff o = i) (snd (col_apply c ops)) = rw_list c (cells c !! i) (filter (λ o, ooff o = i) ops).
Proof. exact col_apply_rw. Qed.
Print Assumptions c05_rewrite_per_offset.

Theorem c05_rewrite_idempotent : ∀ c v l, foldl (cstep c) v (rw_list c v l) = foldl (cstep c) v l.
Proof. exact rw_list_same. Qed.
Print Assumptions c05_rewrite_idempotent.

Theorem c05_rewrite_replay_anywhere : ∀ c v l v',
  foldl (cstep c) v' (rw_list c v l) = foldl (cstep c) v l ∨
  (foldl (cstep c) v' (rw_list c v l) = v' ∧ foldl (cstep c) v l = v).
Proof. exact rw_list_replay. Qed.
Print Assumptions c05_rewrite_replay_anywhere.

Example c05_example :
  range (fold_left put [mkop KPut 5 (V8 7); mkop KMerge 20000 (VB [1;2]); mkop KDelete 3 V0; mkop KInsert 20001 V0] empty) 1
  = [mkop KMerge 20000 (VB [1;2]); mkop KInsert 20001 V0].
Proof. vm_compute. reflexivity. Qed.

Theorem c05_buffer_wire : safe wbuffer_enc wbuffer_dec wbuffer_ok.
Proof. exact wbuffer_safe. Qed.
Print Assumptions c05_buffer_wire.

Theorem c05_commit_wire : safe commit_enc commit_dec commit_ok.
Proof. exact commit_safe. Qed.
Print Assumptions c05_commit_wire.

(* Reader.Seek: a buffer read from its start yields every operation written to it (one block) *)
Theorem c05_seek_reads_all : ∀ ops, Forall wf_op ops → read_seg (bbytes (fold_left put ops empty)) 0 = ops.
Proof. exact seek_reads_all. Qed.
Print Assumptions c05_seek_reads_all.

(* sentence 3 at byte level: Swap* for fixed-size values and same-length byte strings overwrites the
   operation with exactly the bytes of a put of the new value; every later reader decodes that put *)
Theorem c05_swap_is_put : ∀ last k off v v',
  same_shape v v' → wf_value v → wf_value v' →
  swap_in_place (enc last (mkop k off v)) v' = enc last (mkop KPut off v').
Proof. exact swap_is_put. Qed.
Print Assumptions c05_swap_is_put.

Theorem c05_later_reader_sees_put : ∀ last k off v v' rest,
  last < M32 → off < M32 → same_shape v v' → wf_value v → wf_value v' →
  next (swap_in_place (enc last (mkop k off v)) v' ++ rest) last = Some (mkop KPut off v', rest).
Proof. exact later_reader_sees_put. Qed.
Print Assumptions c05_later_reader_sees_put.
