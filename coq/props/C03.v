(* C03  Bitmap indexes always equal their predicate over the current values.

   Whenever no transaction is committing, a bitmap index selects exactly the live rows whose
   current value in the indexed column satisfies the index predicate - however the value got
   there (insert, overwrite, merge, delete, offset reuse, replay, restore) and whether the index
   was created before or after the data.

   [IdxOK s]: for every registered bitmap index, for every offset i,
       i ∈ bits  <->  exists v, (target column's cell at i) = Some v  /\  rule i v = true.
   (for rules that are [cast_invariant]: they read an entry the way the column does, so that they
   cannot tell a narrow integer handed to an int / uint column from its widened stored form -
   trivially every rule on every other column; Widen.v proves it for the signed / unsigned
   comparisons the generated cases register.)
   The theorems hold for EVERY such rule function, every column parameterisation, every transaction.
   Replay and restore are commits of a transaction built from a logged commit ([replay] =
   [commit_blocks] of [txn_of_rec]), so they are instances of the same theorems.
   Domain: wf_row (the marker buffer holds only inserts and deletes) - true of every transaction
   the API can build; the length-changing string merge of finding K2 is outside the model. *)
From stdpp Require Import gmap.
From ColumnV Require Import Bytes Store StoreProofs StoreProofs6 Check Widen.

Theorem c03_commit_keeps_indexes_exact : ∀ s t, wf_row t → IdxOK s → IdxOK (commit s t).
Proof. exact commit_idx_ok. Qed.
Print Assumptions c03_commit_keeps_indexes_exact.

Theorem c03_block_commit_keeps_indexes_exact : ∀ s t b, wf_row t → IdxOK s → IdxOK (commit_block s t b).
Proof. exact commit_block_idx_ok. Qed.
Print Assumptions c03_block_commit_keeps_indexes_exact.

Theorem c03_index_created_after_data_is_exact : ∀ s id tg rule bits0,
  IdxOK s → IdxOK (create_computed s id tg (XIndex rule bits0)).
Proof. exact create_index_ok. Qed.
Print Assumptions c03_index_created_after_data_is_exact.

Example c03_example :
  let col := mkcol true (λ a b, match a, b with V8 x, V8 y => V8 (x + y) | _, _ => b end) (V8 0) id ∅ in
  let s0 := create_column coll0 1 col false in
  let s1 := create_computed s0 7 1 (XIndex (λ _ v, match v with V8 n => (5 <? n)%N | _ => false end) ∅) in
  let t := push (push (push txn0 1 (mkop KPut 5 (V8 3))) 1 (mkop KMerge 5 (V8 4))) 1 (mkop KPut 9 (V8 1)) in
  idx_of (commit s1 t) 5 = [7%N] ∧ idx_of (commit s1 t) 9 = [].
Proof. vm_compute. done. Qed.

Theorem c03_rules_read_like_the_column : ∀ m c (k : Z) (k' : N),
  cast_invariant (col_int m) (λ _ v, eval_pred (PSigned c k) v) ∧
  cast_invariant (col_uint m) (λ _ v, eval_pred (PUnsigned c k') v) ∧
  ∀ col rule, ccast col = id → cast_invariant col rule.
Proof. intros. split; [apply signed_rule_invariant|]. split; [apply unsigned_rule_invariant|apply id_rule_invariant]. Qed.
Print Assumptions c03_rules_read_like_the_column.

(* over whole histories: in every state reachable from the empty collection by admissible
   histories (StoreProofs6.history_ok) the invariant holds *)
Theorem c03_reachable : ∀ h, history_ok coll0 h → IdxOK (foldl hrun coll0 h).
Proof. intros h H. by destruct (reachable_inv h H). Qed.
Print Assumptions c03_reachable.
