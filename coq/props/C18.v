(* C18  Concurrent use is free of data races and deadlocks.

   Deadlocks (proved): the translator extracts from /repo, on every run, the relation "lock class
   B is acquired while lock class A is held" (GenLockGraph.v; classes: collection mutex, a block
   latch, column lock, key-table lock, sort-index lock, log lock).  [c18_lock_order_acyclic]: a
   rank function exists under which every extracted acquisition goes strictly upwards (computed
   from the regenerated graph and checked by the kernel's evaluator - the graph is finite);
   [c18_no_two_latches]: two block latches are never held together.  [c18_no_deadlock]: for ANY
   number of threads that acquire writer-preferring RW locks upwards along a rank function and
   release what they hold, some thread can always move.  A new lock inversion in the source
   makes the first theorem fail; the check then searches for a deadlocking schedule with the
   controlled scheduler.
   Data races (partial): an unsynchronised conflicting access is a fact of the compiled program
   under the Go memory model; no executable Gallina model exhibits it.  The oracle is the Go race
   detector on free-running workloads (engine race), with the lock protocol of Conc.v stating
   which latch protects what.  Known findings K9 and K11 are listed in KNOWN_FINDINGS.txt. *)
From Coq Require Import List Arith Bool.
From ColumnV Require Import GenLockGraph GenShape Locks LockOrder.
Import ListNotations.

Theorem c18_lock_order_acyclic : upward lock_rank lock_edges = true.
Proof. exact lock_order_acyclic. Qed.
Print Assumptions c18_lock_order_acyclic.

Theorem c18_edges_go_up : forall a b, In (a, b) lock_edges -> lock_rank a < lock_rank b.
Proof. exact edges_go_up. Qed.
Print Assumptions c18_edges_go_up.

Theorem c18_no_two_latches : existsb (fun e => Nat.eqb (fst e) 1 && Nat.eqb (snd e) 1) lock_edges = false.
Proof. exact no_two_latches. Qed.
Print Assumptions c18_no_two_latches.

Theorem c18_all_locks_classified : lock_unclassified = 0.
Proof. exact all_locks_classified. Qed.
Print Assumptions c18_all_locks_classified.

Theorem c18_no_deadlock : forall (s : sys),
  Forall (wf_thread lock_rank) s -> (exists t, In t s /\ unfinished t = true) ->
  exists t, In t s /\ enabled s t = true.
Proof. exact column_locks_no_deadlock. Qed.
Print Assumptions c18_no_deadlock.

(* the thread model of Locks.v has every thread release what it acquired; re-derived from the source
   on every run (translate/shape.go lockBalance): every Lock / RLock statement of the two packages is
   followed in its statement list by the matching release or its defer, with no return, goto, panic
   or region-leaving break / continue in between *)
Theorem c18_locks_released_on_every_path : shape_locks_released_on_every_path = true.
Proof. reflexivity. Qed.
Print Assumptions c18_locks_released_on_every_path.
