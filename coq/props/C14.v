(* C14  A failed snapshot reports the error and leaves the collection usable.

   Snap.v: Snapshot as a state machine over a destination writer whose calls fail according to an
   ARBITRARY outcome list (fail once, fail forever, at any call).  [c14_fail_safe]: Snapshot
   returns an error exactly when a write failed; in every case the recorder is uninstalled and no
   temporary log stays open - so the next Snapshot is not refused and commits are not diverted
   into a dead recorder; [c14_any_sequence]: by induction, any sequence of failed and successful
   snapshots leaves the collection idle with the same number of open temporary files.
   "Transactions commit normally, a later snapshot restores correctly" are C02/C01/C07 of the
   collection, whose data the snapshot never writes to.
   Runtime remainder (partial): open descriptors and files in TMPDIR are facts of the process,
   observed by the fault engine (descriptor count after two GC cycles, TMPDIR listing), as is the
   correspondence with the model: for every fault plan the harness reports (a write failed,
   Snapshot returned an error, recorder still installed) and Snap.v's [snap_mismatches] must be
   empty. *)
From Coq Require Import List Bool.
From ColumnV Require Import GenShape Snap.
Import ListNotations.

Theorem c14_fail_safe : forall c sw cw,
  idle c ->
  let '(r, c') := snapshot c sw cw in
  idle c' /\ tmp_open c' = tmp_open c /\
  (r = RErr <-> first_failure sw = true \/ first_failure cw = true /\ first_failure sw = false).
Proof. exact snapshot_fail_safe. Qed.
Print Assumptions c14_fail_safe.

Theorem c14_any_sequence : forall c runs, idle c -> idle (snapshots c runs) /\ tmp_open (snapshots c runs) = tmp_open c.
Proof. exact snapshots_stay_idle. Qed.
Print Assumptions c14_any_sequence.

Example c14_example :
  snapshot (mkc false 0) [false; true; false] [] = (RErr, mkc false 0) /\
  snapshot (mkc false 0) [false] [false; true] = (RErr, mkc false 0) /\
  snapshot (mkc false 0) [false] [false] = (ROk, mkc false 0).
Proof. vm_compute. auto. Qed.

(* "the collection keeps working": no path out of Snapshot - the error paths included - leaves a
   block latch or the collection lock held (regenerated from the source on every run,
   translate/shape.go lockBalance) *)
Theorem c14_no_lock_left_behind : shape_locks_released_on_every_path = true.
Proof. reflexivity. Qed.
Print Assumptions c14_no_lock_left_behind.
