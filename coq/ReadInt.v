(* L0 <-> L2 for the width-generic reads: Reader.Int / Reader.Uint (commit/reader.go:118-141) decide
   by the LENGTH of the entry's value bytes: 2 -> int16 / uint16, 4 -> int32 / uint32, otherwise the
   8-byte word.  [reader_int] / [reader_uint] are those functions on the byte level; the theorems
   say that on the bytes the L0 writer produced for a value they return the value's signed resp.
   unsigned reading - which is what the L2 column casts (Check.widen_signed / widen_unsigned) store.
   The codec engine records Reader.Int() and Reader.Uint() of every decoded numeric entry and
   [check_reads] compares them with these functions. *)
From stdpp Require Import gmap.
From Coq Require Import ZifyN ZifyBool.
From ColumnV Require Import GenConsts Bytes Ops Store Check Widen.
Local Open Scope N_scope.

Definition reader_uint (l : list N) : N := unbe l.
Definition reader_int (l : list N) : Z :=
  let n := unbe l in
  match length l with
  | 2%nat => if n <? 32768 then Z.of_N n else (Z.of_N n - 65536)%Z
  | 4%nat => if n <? 2147483648 then Z.of_N n else (Z.of_N n - 4294967296)%Z
  | _ => if n <? 9223372036854775808 then Z.of_N n else (Z.of_N n - 18446744073709551616)%Z
  end.

Definition numeric (v : value) : Prop := match v with V2 _ | V4 _ | V8 _ => True | _ => False end.

Lemma be_length w n : length (be w n) = w.
Proof. unfold be. rewrite rev_length. apply le_length. Qed.

Lemma p2 : 256 ^ N.of_nat 2 = 65536. Proof. reflexivity. Qed.
Lemma p4 : 256 ^ N.of_nat 4 = 4294967296. Proof. reflexivity. Qed.
Lemma p8 : 256 ^ N.of_nat 8 = 18446744073709551616. Proof. reflexivity. Qed.

Theorem reader_uint_raw v : numeric v → wf_value v → reader_uint (vbytes v) = raw v.
Proof.
  destruct v as [|n|n|n|b]; try done; intros _ H; cbn [vbytes raw wf_value] in *; unfold reader_uint; apply unbe_be.
  - by rewrite p2. - by rewrite p4. - by rewrite p8.
Qed.

Theorem reader_int_view v : numeric v → wf_value v → reader_int (vbytes v) = signed_view v.
Proof.
  destruct v as [|n|n|n|b]; try done; intros _ H; cbn [vbytes wf_value] in *; unfold reader_int;
    rewrite be_length, unbe_be by (by rewrite ?p2, ?p4, ?p8); unfold signed_view; cbn [width_bits raw].
  - rewrite pow16, pow15. cbn [N.eqb Pos.eqb]. destruct (n <? 32768); lia.
  - rewrite pow32, pow31. cbn [N.eqb Pos.eqb]. destruct (n <? 2147483648); lia.
  - rewrite pow64, pow63. cbn [N.eqb Pos.eqb]. destruct (n <? 9223372036854775808); lia.
Qed.

(* what the int column stores for a put entry is the 64-bit two's complement of Reader.Int of its
   bytes; what the uint column stores is Reader.Uint of its bytes *)
Theorem int_column_stores_reader_int v :
  numeric v → wf_value v → widen_signed v = V8 (Z.to_N (reader_int (vbytes v) mod 2 ^ 64)).
Proof.
  intros Hn Hw. rewrite (reader_int_view v Hn Hw).
  destruct v as [|n|n|n|b]; try done; cbn [wf_value] in Hw; unfold widen_signed; cbn [width_bits].
  - rewrite pow16. assert (E : (n <? 65536) = true) by lia. by rewrite E.
  - rewrite pow32. assert (E : (n <? 4294967296) = true) by lia. by rewrite E.
  - f_equal. unfold signed_view. cbn [width_bits raw]. rewrite pow64, pow63, zpow64. cbn [N.eqb Pos.eqb].
    destruct (n <? 9223372036854775808) eqn:E.
    + rewrite Z.mod_small by lia. lia.
    + assert (Hm : ((Z.of_N n - Z.of_N 18446744073709551616) mod 18446744073709551616 = Z.of_N n)%Z).
      { symmetry. apply (Z.mod_unique_pos _ _ (-1)); lia. }
      rewrite Hm. lia.
Qed.

Theorem uint_column_stores_reader_uint v :
  numeric v → wf_value v → widen_unsigned v = V8 (reader_uint (vbytes v)).
Proof. intros Hn Hw. rewrite (reader_uint_raw v Hn Hw). by destruct v. Qed.

(* correspondence: (width in bytes, the entry's value as an unsigned number, Reader.Int(), Reader.Uint()) *)
Definition check_read (r : N * N * Z * N) : bool :=
  let '(w, n, i, u) := r in
  let l := be (N.to_nat w) n in
  (reader_int l =? i)%Z && (reader_uint l =? u).
Definition check_reads (n0 : N) (cases : list (list (N * N * Z * N))) : list N :=
  let fix go (k : N) (l : list (list (N * N * Z * N))) : list N :=
    match l with
    | [] => []
    | c :: r => (if forallb check_read c then [] else [k]) ++ go (k + 1) r
    end in go n0 cases.

Example reads_example :
  reader_int [255; 251] = (-5)%Z ∧ reader_uint [255; 251] = 65531 ∧
  reader_int [255; 255; 255; 255] = (-1)%Z ∧ reader_int [0; 0; 0; 0; 0; 0; 1; 0] = 256%Z.
Proof. vm_compute. done. Qed.
