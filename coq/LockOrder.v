(* C18: the "acquired while holding" relation extracted from /repo (GenLockGraph.v, regenerated on
   every run) is a strict partial order: a rank function exists under which every acquisition goes
   strictly upwards, which is the hypothesis of Locks.ordered_locks_no_deadlock. *)
From Coq Require Import List Arith Bool Lia.
From ColumnV Require Import GenLockGraph Locks.
Import ListNotations.

(* longest-path rank, kept as a table and computed by relaxing the edges |classes| times *)
Definition relax (tbl : list nat) (edges : list (nat * nat)) : list nat :=
  map (fun c => fold_left (fun acc e => if Nat.eqb (snd e) c then Nat.max acc (S (nth (fst e) tbl 0)) else acc) edges (nth c tbl 0))
      (seq 0 (length tbl)).
Fixpoint ranks (n : nat) (tbl : list nat) (edges : list (nat * nat)) : list nat :=
  match n with O => tbl | S k => ranks k (relax tbl edges) edges end.
Definition rank_table : list nat := Eval vm_compute in ranks lock_classes (repeat 0 lock_classes) lock_edges.
Definition lock_rank (c : nat) : nat := nth c rank_table 0.

Definition upward (rank : nat -> nat) (edges : list (nat * nat)) : bool :=
  forallb (fun e => Nat.ltb (rank (fst e)) (rank (snd e))) edges.

(* the regenerated graph is acyclic: every edge goes strictly up the computed rank *)
Theorem lock_order_acyclic : upward lock_rank lock_edges = true.
Proof. vm_compute. reflexivity. Qed.

(* two latches of the sharded mutex are never held together, and every lock expression of the
   source was classified *)
Theorem no_two_latches : existsb (fun e => Nat.eqb (fst e) 1 && Nat.eqb (snd e) 1) lock_edges = false.
Proof. vm_compute. reflexivity. Qed.
Theorem all_locks_classified : lock_unclassified = 0.
Proof. reflexivity. Qed.

Corollary edges_go_up a b : In (a, b) lock_edges -> lock_rank a < lock_rank b.
Proof.
  intro H. pose proof lock_order_acyclic as U. unfold upward in U. rewrite forallb_forall in U.
  specialize (U (a, b) H). cbn in U. now apply Nat.ltb_lt in U.
Qed.

(* hence: threads whose acquisitions follow the extracted order (every lock taken is ranked above
   everything held) and that release what they hold never deadlock *)
Theorem column_locks_no_deadlock (s : sys) :
  Forall (wf_thread lock_rank) s -> (exists t, In t s /\ unfinished t = true) ->
  exists t, In t s /\ enabled s t = true.
Proof. apply ordered_locks_no_deadlock. Qed.
