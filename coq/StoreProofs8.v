(* C12 over whole commits and whole histories: the key table stays the inverse of the key column in
   every state reachable by transactions whose key operations are admissible in the state each of
   them meets.  Admissibility is a boolean ([key_ops_okb], [txn_keys_ok]) that Check.v evaluates on
   every recorded history next to [txn_wf] (tag WF), so the hypothesis is measured, not assumed. *)
From stdpp Require Import gmap sorting.
From ColumnV Require Import GenConsts Bytes Store StoreProofs StoreProofs2 StoreProofs3 StoreProofs4 StoreProofs5 StoreProofs6 StoreProofs7.
Local Open Scope N_scope.

(* ---- admissibility as a boolean ---- *)
Lemma key_op_okb_spec cs o : key_op_okb cs o = true → key_op_ok cs o.
Proof.
  unfold key_op_okb, key_op_ok. destruct (ok o); try done.
  intros [H1 H2]%andb_prop. split.
  - destruct (oval o); try done. by eexists.
  - apply bool_decide_eq_true in H2. intros j Hj E. destruct (H2 j (oval o) E) as [->|Hne]; done.
Qed.

Lemma key_ops_okb_spec ops : ∀ cs keys, key_ops_okb cs keys ops = true → key_ops_ok cs keys ops.
Proof.
  induction ops as [|o r IH]; intros cs keys H; [done|]. cbn in *. apply andb_prop in H as [H1 H2].
  split; [by apply key_op_okb_spec|by apply IH].
Qed.

(* ---- one block, then all of them ---- *)
Lemma commit_block_key_ok' s t b :
  KeyOK s → wf_row t → block_keys_okb s t b = true → KeyOK (commit_block s t b).
Proof.
  intros Hk Hr Hb. destruct (pk s) as [p|] eqn:Hp.
  - destruct (cols s !! p) as [col|] eqn:Hc.
    + eapply commit_block_key_ok; [exact Hk|exact Hp|exact Hc| |exact Hr].
      apply key_ops_okb_spec. unfold block_keys_okb in Hb. by rewrite Hp, Hc in Hb.
    + intros p' col' Hp' Hc'. rewrite cb_pk, Hp in Hp'. injection Hp' as <-.
      rewrite (commit_block_cols_none s t b p Hc) in Hc'. done.
  - intros p' col' Hp'. rewrite cb_pk, Hp in Hp'. done.
Qed.

Theorem commit_blocks_key_ok t bs : ∀ s,
  KeyOK s → wf_row t → blocks_keys_okb s t bs = true → KeyOK (commit_blocks s t bs).
Proof.
  induction bs as [|b r IH]; intros s Hk Hr H; [exact Hk|].
  cbn in H. apply andb_prop in H as [H1 H2]. cbn [commit_blocks foldl]. apply IH; [|exact Hr|exact H2].
  by apply commit_block_key_ok'.
Qed.

Theorem commit_key_ok s t :
  KeyOK s → wf_row t → blocks_keys_okb s t (dirty_blocks t) = true → KeyOK (commit s t).
Proof. apply commit_blocks_key_ok. Qed.

(* ---- one transaction ---- *)
Lemma key_ok_store a b : same_store a b → KeyOK b → KeyOK a.
Proof. intros (C & _ & P & K & _) H p col Hp Hc. rewrite P in Hp. rewrite C in Hc. rewrite K. exact (H p col Hp Hc). Qed.

Theorem run_txn_key_ok s body cp :
  Quiescent s → KeyOK s → txn_wf s body = true → txn_keys_ok s body = true → KeyOK (fst (run_txn s body cp)).
Proof.
  intros Q Hk W Wk. unfold txn_wf, txn_keys_ok, run_txn in *.
  destruct (do_stmts s txn0 body) as [[s1 t1] rs] eqn:E.
  apply andb_prop in W as [W Ww]. apply andb_prop in W as [Wf Wr].
  pose proof (do_stmts_store s txn0 body) as St. rewrite E in St. cbn in St.
  destruct cp; cbn [fst].
  - apply commit_key_ok; [by eapply key_ok_store|by apply wf_row_of_bool|exact Wk].
  - pose proof (rollback_no_trace s body Q) as R. unfold run_txn in R. rewrite E in R. cbn in R.
    rewrite (R (fresh_of_bool rs Wf)). exact Hk.
Qed.

(* ---- the registration of the key column ---- *)
Definition KeyReg (s : coll) : Prop :=
  (pk s = None → keys s = ∅) ∧ (∀ p, pk s = Some p → is_Some (cols s !! p)).
Definition KeyInv (s : coll) : Prop := KeyOK s ∧ KeyReg s.

Definition key_column_ok (c : column) : Prop := cmerges c = false ∧ (∀ v, ccast c v = v) ∧ cells c = ∅.

Lemma create_column_key_inv s id col k : (k = true → key_column_ok col) → KeyInv s → KeyInv (create_column s id col k).
Proof.
  intros Hcol (Hk & He & Hx). unfold create_column. destruct (cols s !! id) eqn:E; [done|].
  assert (Hne : ∀ p0, pk s = Some p0 → p0 ≠ id).
  { intros p0 Hp0 ->. destruct (Hx id Hp0) as [c0 Hc0]. congruence. }
  split; [|split]; cbn [pk cols keys].
  - intros p c Hp Hc. cbn [pk cols keys] in *. destruct (pk s) as [p0|] eqn:Hp0.
    + assert (p = p0) as -> by (destruct k; cbn in Hp; congruence).
      rewrite lookup_insert_ne in Hc by (apply not_eq_sym; by apply Hne). exact (Hk p0 c Hp0 Hc).
    + destruct k; [|done]. injection Hp as <-. rewrite lookup_insert in Hc. injection Hc as <-.
      destruct (Hcol eq_refl) as (M & Hid & Hc0). split; [done|]. split; [done|].
      rewrite Hc0, (He eq_refl). split; [intros i v Hv; by rewrite lookup_empty in Hv|].
      intros kk i. by rewrite !lookup_empty.
  - destruct k; [|exact He]. destruct (pk s); [done|]. done.
  - intros p Hp. cbn [pk cols keys] in *. destruct (pk s) as [p0|] eqn:Hp0.
    + assert (p = p0) as -> by (destruct k; cbn in Hp; congruence).
      rewrite lookup_insert_ne by (apply not_eq_sym; by apply Hne). by apply Hx.
    + destruct k; [|done]. injection Hp as <-. rewrite lookup_insert. by eexists.
Qed.

Lemma commit_blocks_pk t bs : ∀ s, pk (commit_blocks s t bs) = pk s.
Proof. induction bs as [|b r IH]; intro s; [done|]. cbn [commit_blocks foldl]. fold (commit_blocks (commit_block s t b) t r). by rewrite IH, cb_pk. Qed.

Lemma commit_block_keys_nopk s t b : pk s = None → keys (commit_block s t b) = keys s.
Proof. intro H. rewrite cb_keys, H. unfold cb_keys1. by rewrite H. Qed.

Lemma commit_blocks_keys_nopk t bs : ∀ s, pk s = None → keys (commit_blocks s t bs) = keys s.
Proof.
  induction bs as [|b r IH]; intros s H; [done|]. cbn [commit_blocks foldl]. fold (commit_blocks (commit_block s t b) t r).
  rewrite IH by (by rewrite cb_pk). by apply commit_block_keys_nopk.
Qed.

Lemma commit_key_reg s t : KeyReg s → KeyReg (commit s t).
Proof.
  intros [He Hx]. unfold commit. split.
  - rewrite commit_blocks_pk. intro H. rewrite commit_blocks_keys_nopk by done. by apply He.
  - rewrite commit_blocks_pk. intros p Hp. destruct (Hx p Hp) as [col Hc].
    destruct (commit_col_params s t p col Hc) as (c' & Hc' & _). unfold commit in Hc'. by eexists.
Qed.

Lemma key_reg_store a b : same_store a b → KeyReg b → KeyReg a.
Proof. intros (C & _ & P & K & _) [He Hx]. split; [rewrite P, K; exact He|]. intros p Hp. rewrite C. apply Hx. by rewrite <- P. Qed.

Theorem run_txn_key_inv s body cp :
  Quiescent s → KeyInv s → txn_wf s body = true → txn_keys_ok s body = true → KeyInv (fst (run_txn s body cp)).
Proof.
  intros Q [Hk Hr] W Wk. split; [by apply run_txn_key_ok|].
  unfold txn_wf, run_txn in *. destruct (do_stmts s txn0 body) as [[s1 t1] rs] eqn:E.
  apply andb_prop in W as [W Ww]. apply andb_prop in W as [Wf Wr].
  pose proof (do_stmts_store s txn0 body) as St. rewrite E in St. cbn in St.
  destruct cp; cbn [fst].
  - apply commit_key_reg. by eapply key_reg_store.
  - pose proof (rollback_no_trace s body Q) as R. unfold run_txn in R. rewrite E in R. cbn in R.
    rewrite (R (fresh_of_bool rs Wf)). exact Hr.
Qed.

Lemma create_computed_key_inv s id tg x : KeyInv s → KeyInv (create_computed s id tg x).
Proof. intros H. unfold create_computed. destruct (cols s !! tg); exact H. Qed.
Lemma drop_computed_key_inv s id : KeyInv s → KeyInv (drop_computed s id).
Proof. intros H. exact H. Qed.

(* ---- whole histories ---- *)
Definition hstep_keys_ok (s : coll) (h : hstep) : Prop :=
  match h with
  | HCol _ c k => k = true → key_column_ok c
  | HTxn body _ => txn_keys_ok s body = true
  | _ => True
  end.
Fixpoint history_keys_ok (s : coll) (h : list hstep) : Prop :=
  match h with [] => True | x :: r => hstep_keys_ok s x ∧ history_keys_ok (hrun s x) r end.

Lemma key_inv_coll0 : KeyInv coll0.
Proof. split; [intros p col Hp; done|]. split; [done|]. intros p Hp. done. Qed.

Theorem history_key_inv h : ∀ s,
  Inv s → KeyInv s → history_ok s h → history_keys_ok s h → KeyInv (foldl hrun s h).
Proof.
  induction h as [|x r IH]; intros s I K H HK; [exact K|]. destruct H as [Hx Hr]. destruct HK as [Kx Kr].
  cbn [foldl]. apply IH; [|  |exact Hr|exact Kr].
  - destruct x; cbn [hrun hstep_ok] in *.
    + destruct Hx. by apply create_column_inv.
    + by apply create_computed_inv.
    + by apply drop_computed_inv.
    + by apply run_txn_inv.
  - destruct x; cbn [hrun hstep_ok hstep_keys_ok] in *.
    + by apply create_column_key_inv.
    + by apply create_computed_key_inv.
    + by apply drop_computed_key_inv.
    + apply run_txn_key_inv; [by destruct I|exact K|exact Hx|exact Kx].
Qed.

Corollary reachable_key_inv h : history_ok coll0 h → history_keys_ok coll0 h → KeyInv (foldl hrun coll0 h).
Proof. apply history_key_inv; [apply inv_coll0|apply key_inv_coll0]. Qed.
