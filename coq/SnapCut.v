(* L3, snapshot: the recorder / block read / copy protocol of snapshot.go for one block, beside any
   number of committing writers (whose commit is the atomic step proved in Conc.v: apply and
   recorder append happen under the block latch, with an id drawn under the latch).
     hist   ids of the commits applied to the block, in apply order
     rec    the recorder's content for this block while a snapshot is open
     openn  number of commits applied when the recorder was installed
     snapn  number of commits applied when the snapshot read the block (under the read latch)
     saved  the recorder content copied behind the state when the snapshot finished
   Restore applies the block state, then replays the saved commits whose id exceeds the id stored
   with the block.  The theorem: what it reconstructs is a PREFIX of the block's apply order that
   contains every commit applied before the recorder was installed. *)
From stdpp Require Import gmap list sorting.
From Coq Require Import NArith Lia Sorting.Sorted.
Local Open Scope N_scope.

Record st := mkst { hist : list N; ctr : N; rec : option (list N); openn : nat; snapn : option nat; saved : option (list N) }.
Definition init := mkst [] 0 None 0 None None.

Inductive step : st -> st -> Prop :=
| Commit s : step s (mkst (hist s ++ [ctr s + 1]) (ctr s + 1) ((λ l, l ++ [ctr s + 1]) <$> rec s) (openn s) (snapn s) (saved s))
| Other s : step s (mkst (hist s) (ctr s + 1) (rec s) (openn s) (snapn s) (saved s))
| SnapOpen s : rec s = None ->
    step s (mkst (hist s) (ctr s) (Some []) (length (hist s)) None None)
| SnapRead s : rec s ≠ None -> snapn s = None ->
    step s (mkst (hist s) (ctr s) (rec s) (openn s) (Some (length (hist s))) None)
| SnapClose s l : rec s = Some l -> snapn s ≠ None ->
    step s (mkst (hist s) (ctr s) None (openn s) (snapn s) (Some l)).

Inductive reach : st -> Prop :=
| r0 : reach init
| r1 s s' : reach s -> step s s' -> reach s'.

Definition lastid (l : list N) : N := default 0 (last l).

Record Inv (s : st) : Prop := {
  i_pos : Forall (λ i, 0 < i <= ctr s) (hist s);
  i_sorted : StronglySorted N.lt (hist s);
  i_rec : ∀ l, rec s = Some l -> l = drop (openn s) (hist s) ∧ (openn s <= length (hist s))%nat;
  i_snap : ∀ n, snapn s = Some n -> (openn s <= n <= length (hist s))%nat;
  i_saved : ∀ l, saved s = Some l ->
     ∃ m, (openn s <= m <= length (hist s))%nat ∧ l = drop (openn s) (take m (hist s)) ∧ ∀ n, snapn s = Some n -> (n <= m)%nat;
}.

Lemma sorted_snoc (l : list N) x : StronglySorted N.lt l -> Forall (λ i, i < x) l -> StronglySorted N.lt (l ++ [x]).
Proof.
  induction l as [|a l IH]; intros Hs Hf; cbn; [repeat constructor|].
  inversion Hs; subst. inversion Hf; subst. constructor; [auto|].
  apply Forall_app; split; [assumption|repeat constructor; assumption].
Qed.

Lemma inv_init : Inv init.
Proof. constructor; cbn; try constructor; intros; done. Qed.

Lemma inv_step s s' : Inv s -> step s s' -> Inv s'.
Proof.
  intros [Hr Hs Hrec Hsn Hsv] St. inversion St; subst; constructor; cbn.
  - apply Forall_app; split; [eapply Forall_impl; [exact Hr|cbn; intros; lia]|repeat constructor; lia].
  - apply sorted_snoc; [exact Hs|]. eapply Forall_impl; [exact Hr|cbn; intros; lia].
  - intros l Hl. destruct (rec s) as [l0|] eqn:E; cbn in Hl; [|done]. injection Hl as <-.
    destruct (Hrec l0 eq_refl) as [-> Hle]. split; [by rewrite drop_app_le by lia|rewrite app_length; cbn; lia].
  - intros n Hn. specialize (Hsn n Hn). rewrite app_length; cbn; lia.
  - intros l Hl. destruct (Hsv l Hl) as (m & Hm & -> & Hnm). exists m. split; [rewrite app_length; cbn; lia|].
    split; [|exact Hnm]. by rewrite take_app_le by lia.
  - eapply Forall_impl; [exact Hr|cbn; intros; lia].
  - done.
  - done.
  - done.
  - done.
  - done.
  - done.
  - intros l [= <-]. rewrite drop_all. split; [done|lia].
  - intros n Hn; done.
  - intros l Hl; done.
  - done.
  - done.
  - done.
  - intros n [= <-]. destruct (rec s) as [l0|] eqn:E; [|done]. destruct (Hrec l0 eq_refl); lia.
  - intros l Hl; done.
  - done.
  - done.
  - intros l0 Hl0; done.
  - done.
  - intros l0 [= <-]. destruct (Hrec l H) as [-> Hle]. exists (length (hist s)). split; [lia|].
    split; [by rewrite take_ge by lia|]. intros n Hn. specialize (Hsn n Hn). lia.
Qed.

Theorem inv_reach s : reach s -> Inv s.
Proof. induction 1; [apply inv_init|by eapply inv_step]. Qed.

(* ---- what Restore reconstructs ---- *)

Lemma lastid_snoc l x : lastid (l ++ [x]) = x.
Proof. unfold lastid. by rewrite last_snoc. Qed.

Lemma sorted_app_lt (h1 h2 : list N) : StronglySorted N.lt (h1 ++ h2) -> ∀ x y, x ∈ h1 -> y ∈ h2 -> x < y.
Proof.
  induction h1 as [|a h1 IH]; intros S x y Hx Hy; [by apply elem_of_nil in Hx|].
  cbn in S. inversion S as [|? ? S' F]; subst. apply elem_of_cons in Hx as [->|Hx].
  - rewrite Forall_forall in F. apply F. apply elem_of_app. by right.
  - by eapply IH.
Qed.

Lemma sorted_le_last (h : list N) : StronglySorted N.lt h -> ∀ x, x ∈ h -> x <= lastid h.
Proof.
  induction h as [|a h IH] using rev_ind; intros S x Hx; [by apply elem_of_nil in Hx|].
  rewrite lastid_snoc. apply elem_of_app in Hx as [Hx|Hx].
  - assert (x < a); [|lia]. eapply sorted_app_lt; [exact S|exact Hx|by left].
  - apply elem_of_list_singleton in Hx. subst. lia.
Qed.

(* of a block's history split at the point the snapshot read it, replaying the recorded commits
   with an id above the block's stored id yields exactly the part after that point *)
Lemma filter_cut (h1 h2 : list N) (k : nat) :
  StronglySorted N.lt (h1 ++ h2) -> Forall (λ i, 0 < i) (h1 ++ h2) -> (k <= length h1)%nat ->
  filter (λ i, lastid h1 < i) (drop k (h1 ++ h2)) = h2.
Proof.
  intros S P Hk. rewrite drop_app_le by exact Hk. rewrite filter_app.
  assert (E1 : filter (λ i, lastid h1 < i) (drop k h1) = []).
  { assert (S1 : StronglySorted N.lt h1) by (eapply StronglySorted_app_inv_l; exact S).
    assert (G : ∀ l' : list N, (∀ y, y ∈ l' -> y ∈ h1) -> filter (λ i, lastid h1 < i) l' = []).
    { induction l' as [|y l' IHl]; intro Hin; [done|].
      rewrite filter_cons_False; [apply IHl; intros; apply Hin; by right|].
      pose proof (sorted_le_last h1 S1 y (Hin y ltac:(by left))). lia. }
    apply G. intros y Hy. apply elem_of_list_lookup in Hy as [i Hi]. rewrite lookup_drop in Hi.
    by eapply elem_of_list_lookup_2. }
  rewrite E1. cbn.
  assert (G2 : ∀ l' : list N, (∀ y, y ∈ l' -> y ∈ h2) -> filter (λ i, lastid h1 < i) l' = l').
  { induction l' as [|y l' IHl]; intro Hin; [done|].
    rewrite filter_cons_True; [f_equal; apply IHl; intros; apply Hin; by right|].
    assert (Hy : y ∈ h2) by (apply Hin; by left).
    destruct h1 as [|a h1'] using rev_ind.
    - unfold lastid; cbn. rewrite Forall_forall in P. apply P. by apply elem_of_app; right.
    - rewrite lastid_snoc. eapply sorted_app_lt; [exact S| |exact Hy]. apply elem_of_app. right. by left. }
  by apply G2.
Qed.

(* C08: the restored block is the block after a prefix of its commits, in order, nothing missing
   from the middle; the prefix contains every commit applied before the snapshot began to record
   and ends no later than the snapshot's copy *)
Theorem restored_is_a_prefix s l n :
  reach s -> saved s = Some l -> snapn s = Some n ->
  ∃ m, (openn s <= n)%nat ∧ (n <= m <= length (hist s))%nat ∧
       take n (hist s) ++ filter (λ i, lastid (take n (hist s)) < i) l = take m (hist s).
Proof.
  intros R Hl Hn. pose proof (inv_reach s R) as [Hr Hs Hrec Hsn Hsv].
  destruct (Hsv l Hl) as (m & Hm & -> & Hnm). specialize (Hnm n Hn). specialize (Hsn n Hn).
  exists m. split; [lia|]. split; [lia|].
  set (h := take m (hist s)).
  assert (Hh : h = take n (hist s) ++ drop n h).
  { unfold h. rewrite <- (take_drop n (take m (hist s))) at 1. f_equal. rewrite take_take. f_equal. lia. }
  rewrite Hh at 1.
  assert (Hsorted : StronglySorted N.lt (take n (hist s) ++ drop n h)).
  { rewrite <- Hh. unfold h. rewrite <- (take_drop m (hist s)) in Hs. by eapply StronglySorted_app_inv_l. }
  assert (Hpos : Forall (λ i, 0 < i) (take n (hist s) ++ drop n h)).
  { rewrite <- Hh. unfold h. apply Forall_take. eapply Forall_impl; [exact Hr|]. cbn; intros; lia. }
  rewrite (filter_cut _ _ (openn s) Hsorted Hpos) by (rewrite take_length; lia).
  by rewrite <- Hh.
Qed.
