(* C18, generic: threads that acquire writer-preferring RW locks in an order compatible with a rank
   function, and release what they hold, never deadlock - for any number of threads. *)
From Coq Require Import List Arith Lia Bool.
Import ListNotations.

(* Writer-preferring RW locks, any number of threads, each following a fixed acquisition program.
   rank : lock -> nat is the (linearised) lock order extracted from the source. *)
Inductive mode := R | W.
Inductive act := Acq (l : nat) (m : mode) | Rel (l : nat).
Record thread := mkT { tid : nat; held : list (nat * mode); pending : bool; prog : list act }.
Definition sys := list thread.

Section order.
  Variable rank : nat -> nat.

  (* static discipline of one thread: every acquisition is strictly above everything held (so no
     re-acquisition either); a thread that holds something still has work to do (it will release) *)
  Fixpoint wf (h : list (nat * mode)) (p : list act) : Prop :=
    match p with
    | [] => h = []
    | Acq l m :: p' => Forall (fun x => rank (fst x) < rank l) h /\ wf ((l, m) :: h) p'
    | Rel l :: p' => wf (filter (fun x => negb (Nat.eqb (fst x) l)) h) p'
    end.
  Definition wf_thread (t : thread) := wf (held t) (prog t).

  Definition holds (t : thread) (l : nat) := existsb (fun x => Nat.eqb (fst x) l) (held t).
  Definition holdsW (t : thread) (l : nat) :=
    existsb (fun x => Nat.eqb (fst x) l && match snd x with W => true | R => false end) (held t).
  Definition wantsW (t : thread) (l : nat) := match prog t with Acq l' W :: _ => Nat.eqb l' l | _ => false end.

  (* Go's RWMutex: a writer needs the lock free; a reader needs no writer holding it and no writer
     that has already announced itself (pending) *)
  Definition can_acq (s : sys) (t : thread) (l : nat) (m : mode) : bool :=
    match m with
    | W => forallb (fun u => Nat.eqb (tid u) (tid t) || negb (holds u l)) s
    | R => forallb (fun u => Nat.eqb (tid u) (tid t) || (negb (holdsW u l) && negb (pending u && wantsW u l))) s
    end.

  Definition enabled (s : sys) (t : thread) : bool :=
    match prog t with
    | Acq l m :: _ => can_acq s t l m
    | Rel _ :: _ => true
    | [] => false
    end.

  Definition unfinished (t : thread) := match prog t with [] => false | _ => true end.
  Definition next_is_rel (t : thread) := match prog t with Rel _ :: _ => true | _ => false end.
  Definition req_rank (t : thread) : nat := match prog t with Acq l _ :: _ => rank l | _ => 0 end.

  Lemma wf_holder_unfinished t l : wf_thread t -> holds t l = true -> unfinished t = true.
  Proof.
    unfold wf_thread, holds, unfinished. destruct (prog t); cbn; intros H Hh; [|reflexivity].
    rewrite H in Hh. discriminate.
  Qed.

  Lemma wf_holder_wants_higher t l l' m p : wf_thread t -> holds t l = true -> prog t = Acq l' m :: p -> rank l < rank l'.
  Proof.
    unfold wf_thread, holds. intros H Hh Ep. rewrite Ep in H. cbn in H. destruct H as [Hf _].
    apply existsb_exists in Hh. destruct Hh as (x & Hx & E).
    apply Nat.eqb_eq in E. subst. rewrite Forall_forall in Hf. apply Hf. exact Hx.
  Qed.

  Lemma holdsW_holds t l : holdsW t l = true -> holds t l = true.
  Proof.
    unfold holdsW, holds. intro H. apply existsb_exists in H. destruct H as (x & Hx & E).
    apply andb_prop in E. apply existsb_exists. exists x. tauto.
  Qed.

  Lemma max_req (s : sys) :
    (exists t, In t s /\ unfinished t = true) ->
    exists t, In t s /\ unfinished t = true /\ forall u, In u s -> unfinished u = true -> req_rank u <= req_rank t.
  Proof.
    induction s as [|a s IH]; intros (t & Hin & Hu); [destruct Hin|].
    destruct (existsb unfinished s) eqn:E.
    - apply existsb_exists in E. destruct E as (t' & Hin' & Hu').
      destruct (IH (ex_intro _ t' (conj Hin' Hu'))) as (tm & Hn & Hum & Hmax).
      destruct (unfinished a) eqn:Ea.
      + destruct (le_lt_dec (req_rank a) (req_rank tm)).
        * exists tm. split; [right; exact Hn|]. split; [exact Hum|]. intros u [<-|Hi] Hu2; auto.
        * exists a. split; [left; reflexivity|]. split; [exact Ea|]. intros u [<-|Hi] Hu2; [lia|].
          specialize (Hmax u Hi Hu2). lia.
      + exists tm. split; [right; exact Hn|]. split; [exact Hum|]. intros u [<-|Hi] Hu2; [congruence|auto].
    - assert (Ha : unfinished a = true).
      { destruct Hin as [<-|Hin]; [exact Hu|]. exfalso.
        assert (existsb unfinished s = true) by (apply existsb_exists; eauto). congruence. }
      exists a. split; [left; reflexivity|]. split; [exact Ha|]. intros u [<-|Hi] Hu2; [lia|].
      exfalso. assert (existsb unfinished s = true) by (apply existsb_exists; eauto). congruence.
  Qed.

  (* Progress: if every thread follows the discipline and someone is unfinished, someone can move *)
  Theorem ordered_locks_no_deadlock (s : sys) :
    Forall wf_thread s -> (exists t, In t s /\ unfinished t = true) -> exists t, In t s /\ enabled s t = true.
  Proof.
    intros Hwf Hex. rewrite Forall_forall in Hwf.
    (* 1. a thread about to release can always move *)
    destruct (existsb next_is_rel s) eqn:Erel.
    { apply existsb_exists in Erel. destruct Erel as (u & Hin & Hr). exists u. split; [exact Hin|].
      unfold enabled, next_is_rel in *. destruct (prog u) as [|[|] ?]; try discriminate. reflexivity. }
    assert (Hnorel : forall u, In u s -> next_is_rel u = false).
    { intros u Hu. destruct (next_is_rel u) eqn:E; [|reflexivity].
      assert (existsb next_is_rel s = true) by (apply existsb_exists; eauto). congruence. }
    (* 2. otherwise take the unfinished thread asking for the highest lock *)
    destruct (max_req s Hex) as (t & Hin & Hu & Hmax).
    unfold unfinished in Hu. destruct (prog t) as [|[l m|l] p] eqn:Ep; [discriminate| |].
    2:{ specialize (Hnorel t Hin). unfold next_is_rel in Hnorel. rewrite Ep in Hnorel. discriminate. }
    assert (Hreq : req_rank t = rank l) by (unfold req_rank; rewrite Ep; reflexivity).
    (* nobody holds l: a holder would be unfinished, not releasing, hence asking for something higher *)
    assert (Hnohold : forall u, In u s -> holds u l = false).
    { intros u Hu'. destruct (holds u l) eqn:Eh; [|reflexivity]. exfalso.
      pose proof (wf_holder_unfinished u l (Hwf u Hu') Eh) as Hun.
      specialize (Hmax u Hu' Hun). specialize (Hnorel u Hu').
      unfold req_rank in Hmax at 1. unfold unfinished in Hun. unfold next_is_rel in Hnorel.
      destruct (prog u) as [|[l' m'|l'] pu] eqn:Epu; [discriminate| |discriminate].
      pose proof (wf_holder_wants_higher u l l' m' pu (Hwf u Hu') Eh Epu). lia. }
    destruct m.
    - (* reader: blocked only by an announced writer, who can then take the free lock *)
      destruct (existsb (fun u => negb (Nat.eqb (tid u) (tid t)) && (pending u && wantsW u l)) s) eqn:Epw.
      + apply existsb_exists in Epw. destruct Epw as (w & Hw & Hc).
        apply andb_prop in Hc. destruct Hc as [_ Hc]. apply andb_prop in Hc. destruct Hc as [_ Hww].
        exists w. split; [exact Hw|]. unfold enabled. unfold wantsW in Hww.
        destruct (prog w) as [|[l' [|]|l'] pw]; try discriminate.
        apply Nat.eqb_eq in Hww. subst l'. cbn. apply forallb_forall. intros u Hu'.
        rewrite (Hnohold u Hu'). apply orb_true_r.
      + exists t. split; [exact Hin|]. unfold enabled. rewrite Ep. cbn. apply forallb_forall. intros u Hu'.
        destruct (Nat.eqb (tid u) (tid t)) eqn:Et; [reflexivity|]. cbn.
        assert (Hh : holdsW u l = false).
        { destruct (holdsW u l) eqn:E; [|reflexivity]. apply holdsW_holds in E. rewrite (Hnohold u Hu') in E. discriminate. }
        rewrite Hh. cbn.
        destruct (pending u && wantsW u l) eqn:Ew; [|reflexivity]. exfalso.
        assert (existsb (fun u => negb (Nat.eqb (tid u) (tid t)) && (pending u && wantsW u l)) s = true).
        { apply existsb_exists. exists u. split; [exact Hu'|]. rewrite Et, Ew. reflexivity. }
        congruence.
    - (* writer: the lock is free *)
      exists t. split; [exact Hin|]. unfold enabled. rewrite Ep. cbn. apply forallb_forall. intros u Hu'.
      rewrite (Hnohold u Hu'). apply orb_true_r.
  Qed.
End order.
