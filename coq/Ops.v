From Coq Require Import NArith List Lia ZArith Bool.
From Coq Require Import ZifyN ZifyNat ZifyBool.
From ColumnV Require Import GenConsts Bytes.
Import ListNotations.
Local Open Scope N_scope.
Ltac Zify.zify_post_hook ::= Z.div_mod_to_equations.

Definition M32 := 4294967296.
Definition size_code (v : value) : N := match v with V0 => 0 | V2 _ => 1 | V4 _ => 2 | V8 _ => 3 | VB _ => 1 end.
(* the size flag the writer ORs into the header (commit/buffer.go size0/2/4/8; strings use size2) *)
Definition size_flag (v : value) : N :=
  match v with V0 => c_commit_buffer_size0 | V2 _ => c_commit_buffer_size2 | V4 _ => c_commit_buffer_size4
             | V8 _ => c_commit_buffer_size8 | VB _ => c_commit_buffer_size2 end.
Definition is_str (v : value) := match v with VB _ => true | _ => false end.
Definition hdr (k : kind) (v : value) (nxt : bool) : N :=
  N.lor (N.lor (N.lor (kcode k) (size_flag v)) (if is_str v then c_commit_buffer_isString else 0))
        (if nxt then c_commit_buffer_isNext else 0).
Definition vbytes (v : value) : list N :=
  match v with
  | V0 => [] | V2 n => be 2 n | V4 n => be 4 n | V8 n => be 8 n
  | VB b => be 2 (N.of_nat (length b)) ++ b
  end.
Definition wf_value (v : value) : Prop :=
  match v with
  | V0 => True | V2 n => n < 256^2 | V4 n => n < 256^4 | V8 n => n < 256^8
  | VB b => (N.of_nat (length b) < 65536) /\ Forall (fun x => x < 256) b
  end.
Definition wf_op (o : op) := ooff o < M32 /\ wf_value (oval o).

(* encoding of one op given the previous offset *)
Definition delta (last idx : N) : N := (idx + M32 - last) mod M32.
Definition enc (last : N) (o : op) : list N :=
  let d := delta last (ooff o) in
  if d =? 1 then hdr (ok o) (oval o) true :: vbytes (oval o)
  else hdr (ok o) (oval o) false :: vbytes (oval o) ++ wvar d.

Fixpoint take {A} (n : nat) (l : list A) : option (list A * list A) :=
  match n with
  | O => Some ([], l)
  | S n' => match l with
            | x :: r => match take n' r with Some (a, b) => Some (x :: a, b) | None => None end
            | [] => None end
  end.
Lemma take_app {A} (a b : list A) : take (length a) (a ++ b) = Some (a, b).
Proof. induction a; simpl; auto. rewrite IHa. reflexivity. Qed.

(* readFixed: size := 1 << (v >> 4 & 0b11) & 0b1110 *)
Definition fixed_size (sc : N) : nat := N.to_nat (N.land (N.shiftl 1 sc) 14).
Lemma fs0 : fixed_size 0 = 0%nat. Proof. reflexivity. Qed.
Lemma fs1 : fixed_size 1 = 2%nat. Proof. reflexivity. Qed.
Lemma fs2 : fixed_size 2 = 4%nat. Proof. reflexivity. Qed.
Lemma fs3 : fixed_size 3 = 8%nat. Proof. reflexivity. Qed.
Definition mkfixed (sc : N) (l : list N) : value :=
  match sc with 0 => V0 | 1 => V2 (unbe l) | 2 => V4 (unbe l) | _ => V8 (unbe l) end.

(* Reader.Next on the remaining bytes; off is the running Offset (as uint32) *)
Definition next (l : list N) (off : N) : option (op * list N) :=
  match l with
  | [] => None
  | h :: r =>
    match kdecode (h mod 16) with
    | None => None
    | Some k =>
      (* Reader.Next switches on header & 0xc0 against isString / isNext|isString / isNext *)
      let top := N.land h 192 in
      let nxt := (top =? c_commit_buffer_isNext) || (top =? N.lor c_commit_buffer_isNext c_commit_buffer_isString) in
      let str := (top =? c_commit_buffer_isString) || (top =? N.lor c_commit_buffer_isNext c_commit_buffer_isString) in
      if str then
        match take 2 r with
        | Some (lb, r1) =>
          match take (N.to_nat (unbe lb)) r1 with
          | Some (body, r2) =>
            if nxt then Some (mkop k ((off + 1) mod M32) (VB body), r2)
            else match rvar r2 with
                 | Some (d, r3) => Some (mkop k ((off + d) mod M32) (VB body), r3)
                 | None => None end
          | None => None end
        | None => None end
      else
        let sc := (h / 16) mod 4 in
        match take (fixed_size sc) r with
        | Some (body, r2) =>
          if nxt then Some (mkop k ((off + 1) mod M32) (mkfixed sc body), r2)
          else match rvar r2 with
               | Some (d, r3) => Some (mkop k ((off + d) mod M32) (mkfixed sc body), r3)
               | None => None end
        | None => None end
    end
  end.

Lemma hdr_fields k v nxt :
  let h := hdr k v nxt in
  h < 256 /\ kdecode (h mod 16) = Some k /\
  ((N.land h 192 =? c_commit_buffer_isNext) || (N.land h 192 =? N.lor c_commit_buffer_isNext c_commit_buffer_isString)) = nxt /\
  ((N.land h 192 =? c_commit_buffer_isString) || (N.land h 192 =? N.lor c_commit_buffer_isNext c_commit_buffer_isString)) = is_str v /\
  (h / 16) mod 4 = size_code v.
Proof. destruct k, v, nxt; vm_compute; auto. Qed.

Lemma delta_back last idx : last < M32 -> idx < M32 -> (last + delta last idx) mod M32 = idx.
Proof. unfold delta, M32. intros. lia. Qed.
Lemma delta_lt last idx : delta last idx < M32.
Proof. unfold delta, M32. apply N.mod_lt. lia. Qed.

Lemma next_enc last o rest :
  last < M32 -> wf_op o -> next (enc last o ++ rest) last = Some (o, rest).
Proof.
  intros Hl [Ho Hv]. destruct o as [k off v]; cbn [ok ooff oval] in *.
  unfold enc; cbn [ok ooff oval].
  pose proof (delta_back last off Hl Ho) as Hb.
  pose proof (delta_lt last off) as Hd.
  destruct (delta last off =? 1) eqn:E1.
  - apply N.eqb_eq in E1. rewrite E1 in Hb.
    cbn [app next]. destruct (hdr_fields k v true) as (_ & F1 & F2 & F3 & F4).
    rewrite F1, F2, F3.
    destruct v as [|n|n|n|b]; cbn [is_str vbytes].
    + rewrite F4. cbn [size_code]. rewrite fs0. cbn [take app mkfixed]. rewrite Hb. reflexivity.
    + rewrite F4. cbn [size_code]. rewrite ?fs1, ?fs2, ?fs3. change 2%nat with (length (be 2 n)) at 1.
      rewrite take_app. cbn [mkfixed]. rewrite unbe_be by exact Hv. rewrite Hb. reflexivity.
    + rewrite F4. cbn [size_code]. rewrite ?fs1, ?fs2, ?fs3. change 4%nat with (length (be 4 n)) at 1.
      rewrite take_app. cbn [mkfixed]. rewrite unbe_be by exact Hv. rewrite Hb. reflexivity.
    + rewrite F4. cbn [size_code]. rewrite ?fs1, ?fs2, ?fs3. change 8%nat with (length (be 8 n)) at 1.
      rewrite take_app. cbn [mkfixed]. rewrite unbe_be by exact Hv. rewrite Hb. reflexivity.
    + destruct Hv as [Hlen _]. rewrite <- app_assoc.
      change 2%nat with (length (be 2 (N.of_nat (length b)))) at 1.
      rewrite take_app. rewrite unbe_be by exact Hlen. rewrite Nat2N.id, take_app. rewrite Hb. reflexivity.
  - cbn [app next]. destruct (hdr_fields k v false) as (_ & F1 & F2 & F3 & F4).
    rewrite F1, F2, F3.
    destruct v as [|n|n|n|b]; cbn [is_str vbytes].
    + rewrite F4. cbn [size_code]. rewrite fs0. cbn [take app mkfixed]. rewrite rvar_wvar by exact Hd. rewrite Hb. reflexivity.
    + rewrite F4. cbn [size_code]. rewrite ?fs1, ?fs2, ?fs3. rewrite <- app_assoc. change 2%nat with (length (be 2 n)) at 1.
      rewrite take_app. cbn [mkfixed]. rewrite unbe_be by exact Hv. rewrite rvar_wvar by exact Hd. rewrite Hb. reflexivity.
    + rewrite F4. cbn [size_code]. rewrite ?fs1, ?fs2, ?fs3. rewrite <- app_assoc. change 4%nat with (length (be 4 n)) at 1.
      rewrite take_app. cbn [mkfixed]. rewrite unbe_be by exact Hv. rewrite rvar_wvar by exact Hd. rewrite Hb. reflexivity.
    + rewrite F4. cbn [size_code]. rewrite ?fs1, ?fs2, ?fs3. rewrite <- app_assoc. change 8%nat with (length (be 8 n)) at 1.
      rewrite take_app. cbn [mkfixed]. rewrite unbe_be by exact Hv. rewrite rvar_wvar by exact Hd. rewrite Hb. reflexivity.
    + destruct Hv as [Hlen _]. rewrite <- !app_assoc.
      change 2%nat with (length (be 2 (N.of_nat (length b)))) at 1.
      rewrite take_app. rewrite unbe_be by exact Hlen. rewrite Nat2N.id, take_app.
      rewrite rvar_wvar by exact Hd. rewrite Hb. reflexivity.
Qed.
