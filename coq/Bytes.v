From Coq Require Import NArith List Lia ZArith Bool.
From Coq Require Import ZifyN ZifyNat ZifyBool.
From ColumnV Require Import GenConsts.
Import ListNotations.
Local Open Scope N_scope.
Ltac Zify.zify_post_hook ::= Z.div_mod_to_equations.

(* bytes are N < 256 *)
Definition byte_ok (b : N) := b < 256.

Inductive kind := KDelete | KInsert | KPut | KMerge | KSkip.
(* op codes come from commit/buffer.go through the translator (GenConsts.v, regenerated every run) *)
Definition kcode (k : kind) : N :=
  match k with
  | KDelete => c_commit_buffer_Delete | KInsert => c_commit_buffer_Insert | KPut => c_commit_buffer_Put
  | KMerge => c_commit_buffer_Merge | KSkip => c_commit_buffer_Skip end.
Definition kdecode (n : N) : option kind :=
  if n =? c_commit_buffer_Delete then Some KDelete else
  if n =? c_commit_buffer_Insert then Some KInsert else
  if n =? c_commit_buffer_Put then Some KPut else
  if n =? c_commit_buffer_Merge then Some KMerge else
  if n =? c_commit_buffer_Skip then Some KSkip else None.

Inductive value := V0 | V2 (n : N) | V4 (n : N) | V8 (n : N) | VB (b : list N).
Record op := mkop { ok : kind; ooff : N; oval : value }.

(* little endian digits; big endian = rev *)
Fixpoint le (w : nat) (n : N) : list N :=
  match w with O => [] | S w' => n mod 256 :: le w' (n / 256) end.
Fixpoint unle (l : list N) : N :=
  match l with [] => 0 | b :: r => b + 256 * unle r end.
Definition be w n := rev (le w n).
Definition unbe l := unle (rev l).

Lemma le_length w n : length (le w n) = w.
Proof. revert n; induction w; simpl; auto. Qed.
Lemma unle_le w n : unle (le w n) = n mod 256 ^ N.of_nat w.
Proof.
  revert n; induction w as [|w IH]; intro n.
  - simpl. rewrite N.mod_1_r. reflexivity.
  - cbn [le unle]. rewrite IH. rewrite Nat2N.inj_succ, N.pow_succ_r'.
    assert (0 < 256 ^ N.of_nat w) by (apply N.neq_0_lt_0, N.pow_nonzero; lia).
    rewrite N.mod_mul_r by lia. lia.
Qed.
Lemma unbe_be w n : n < 256 ^ N.of_nat w -> unbe (be w n) = n.
Proof. intro H. unfold unbe, be. rewrite rev_involutive, unle_le. apply N.mod_small; exact H. Qed.
Lemma le_bytes w n : Forall (fun b => b < 256) (le w n).
Proof. revert n; induction w; intro n; simpl; constructor; auto. apply N.mod_lt; lia. Qed.

(* varint of a uint32 delta, as writeOffset *)
Fixpoint varint (fuel : nat) (d : N) : list N :=
  match fuel with
  | O => [d mod 128]
  | S f => if d <? 128 then [d] else (d mod 128 + 128) :: varint f (d / 128)
  end.
Definition wvar (d : N) := varint 4 d.

(* readOffset: returns (delta, rest) ; None when input too short / malformed *)
Definition rvar (l : list N) : option (N * list N) :=
  match l with
  | b0 :: r0 => if b0 <? 128 then Some (b0, r0) else
    match r0 with
    | b1 :: r1 => if b1 <? 128 then Some ((b0 mod 128) + b1 * 128, r1) else
      match r1 with
      | b2 :: r2 => if b2 <? 128 then Some ((b0 mod 128) + (b1 mod 128) * 128 + b2 * 16384, r2) else
        match r2 with
        | b3 :: r3 => if b3 <? 128 then Some ((b0 mod 128) + (b1 mod 128) * 128 + (b2 mod 128) * 16384 + b3 * 2097152, r3) else
          match r3 with
          | b4 :: r4 => if b4 <? 128 then Some (((b0 mod 128) + (b1 mod 128) * 128 + (b2 mod 128) * 16384 + (b3 mod 128) * 2097152 + b4 * 268435456) mod 4294967296, r4) else None
          | [] => None end
        | [] => None end
      | [] => None end
    | [] => None end
  | [] => None end.

Lemma rvar_wvar d rest : d < 4294967296 -> rvar (wvar d ++ rest) = Some (d, rest).
Proof.
  intro H. unfold wvar. cbn [varint].
  destruct (d <? 128) eqn:E0.
  { cbn. rewrite E0. reflexivity. }
  destruct (d / 128 <? 128) eqn:E1.
  { cbn [app rvar].
    replace (d mod 128 + 128 <? 128) with false by (symmetry; apply N.ltb_ge; lia).
    rewrite E1. f_equal. f_equal. apply N.ltb_ge in E0. apply N.ltb_lt in E1. lia. }
  destruct (d / 128 / 128 <? 128) eqn:E2.
  { cbn [app rvar].
    replace (d mod 128 + 128 <? 128) with false by (symmetry; apply N.ltb_ge; lia).
    replace ((d / 128) mod 128 + 128 <? 128) with false by (symmetry; apply N.ltb_ge; lia).
    rewrite E2. f_equal. f_equal. apply N.ltb_lt in E2. lia. }
  destruct (d / 128 / 128 / 128 <? 128) eqn:E3.
  { cbn [app rvar].
    replace (d mod 128 + 128 <? 128) with false by (symmetry; apply N.ltb_ge; lia).
    replace ((d / 128) mod 128 + 128 <? 128) with false by (symmetry; apply N.ltb_ge; lia).
    replace ((d / 128 / 128) mod 128 + 128 <? 128) with false by (symmetry; apply N.ltb_ge; lia).
    rewrite E3. f_equal. f_equal. apply N.ltb_lt in E3. lia. }
  cbn [app rvar].
  replace (d mod 128 + 128 <? 128) with false by (symmetry; apply N.ltb_ge; lia).
  replace ((d / 128) mod 128 + 128 <? 128) with false by (symmetry; apply N.ltb_ge; lia).
  replace ((d / 128 / 128) mod 128 + 128 <? 128) with false by (symmetry; apply N.ltb_ge; lia).
  replace ((d / 128 / 128 / 128) mod 128 + 128 <? 128) with false by (symmetry; apply N.ltb_ge; lia).
  replace ((d / 128 / 128 / 128 / 128) mod 128 <? 128) with true by (symmetry; apply N.ltb_lt; lia).
  f_equal. f_equal. lia.
Qed.
