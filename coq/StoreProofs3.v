(* Computed columns other than bitmap indexes: triggers (C19) and the sorted index (C16). *)
From stdpp Require Import gmap sorting.
From ColumnV Require Import GenConsts Bytes Store StoreProofs.
Local Open Scope N_scope.

(* what the entries of the computed columns look like after one block of a commit *)
Definition rw_block (s : coll) (t : txn) (b c : N) : list op :=
  match cols s !! c with
  | Some col => snd (col_apply col (filter (λ o, in_blk b o = true) (buf t c)))
  | None => []
  end.
Definition marks_block (t : txn) (b : N) : list op := filter (λ o, in_blk b o = true) (trow t).

Lemma commit_block_comps s t b :
  comps (commit_block s t b) =
    (λ e, mkcent (xid e) (xtarget e) (comp_apply (comp_apply (xstate e) (rw_block s t b (xtarget e))) (marks_block t b))) <$> comps s.
Proof.
  unfold commit_block; cbn [comps]. rewrite <- list_fmap_compose. apply list_fmap_ext. intros _ e _. cbn.
  f_equal. f_equal. f_equal. unfold rw_block. rewrite map_lookup_imap. by destruct (cols s !! xtarget e).
Qed.

(* ------------------------------------------------------------------------------------- *)
(* C19 triggers                                                                            *)

Definition trig_events (l : list op) : list tevent :=
  omap (λ o, match ok o with
             | KPut => Some (TStored (ooff o) (oval o))
             | KDelete => Some (TDeleted (ooff o))
             | _ => None end) l.

Lemma trig_step log o : comp_step (XTrigger log) o = XTrigger (log ++ trig_events [o]).
Proof. unfold comp_step, trig_events; cbn. destruct (ok o); cbn; by rewrite ?app_nil_r. Qed.

Lemma trig_events_cons o l : trig_events (o :: l) = trig_events [o] ++ trig_events l.
Proof. unfold trig_events; cbn. by destruct (ok o). Qed.

Lemma trig_apply log l : comp_apply (XTrigger log) l = XTrigger (log ++ trig_events l).
Proof.
  revert log; induction l as [|o r IH]; intro log; [by rewrite app_nil_r|].
  unfold comp_apply in *; cbn [foldl]. rewrite trig_step, IH, (trig_events_cons o r). by rewrite app_assoc.
Qed.

(* the trigger log of one commit: per dirty block in ascending order, first the stores to the
   watched column in issue order - each carrying the value finally stored, merges included -
   then the row deletions of that block *)
Definition block_events (s : coll) (t : txn) (tg b : N) : list tevent :=
  trig_events (rw_block s t b tg) ++ trig_events (marks_block t b).

Lemma commit_block_find_comp s t b id e :
  find_comp s id = Some e →
  find_comp (commit_block s t b) id =
    Some (mkcent (xid e) (xtarget e) (comp_apply (comp_apply (xstate e) (rw_block s t b (xtarget e))) (marks_block t b))).
Proof.
  intros Hf. unfold find_comp in *. rewrite commit_block_comps.
  destruct (list_find (λ e0, xid e0 = id) (comps s)) as [[k e0]|] eqn:El; [|done]. cbn in Hf. injection Hf as ->.
  assert (G : list_find (λ e0, xid e0 = id)
             ((λ e0, mkcent (xid e0) (xtarget e0) (comp_apply (comp_apply (xstate e0) (rw_block s t b (xtarget e0))) (marks_block t b))) <$> comps s)
            = Some (k, mkcent (xid e) (xtarget e) (comp_apply (comp_apply (xstate e) (rw_block s t b (xtarget e))) (marks_block t b)))).
  { revert k El. induction (comps s) as [|a l IH]; intros k El; [done|].
    cbn [fmap list_fmap list_find] in *. destruct (decide (xid a = id)) as [E|NE].
    - cbn [xid]. rewrite decide_True by done. injection El as <- <-. done.
    - cbn [xid]. rewrite decide_False by done.
      destruct (list_find (λ e0, xid e0 = id) l) as [[k' e']|] eqn:E2; [|done].
      cbn in El. injection El as <- <-. specialize (IH k' eq_refl). cbn in IH. rewrite IH. done. }
  by rewrite G.
Qed.

Lemma commit_block_trigger s t b id e log :
  find_comp s id = Some e → xstate e = XTrigger log →
  trig_log (commit_block s t b) id = log ++ block_events s t (xtarget e) b.
Proof.
  intros Hf Hx. unfold trig_log. rewrite (commit_block_find_comp s t b id e Hf). cbn.
  rewrite Hx, !trig_apply. unfold block_events. by rewrite app_assoc.
Qed.

(* the whole commit: the blocks in ascending order, each contributing its events *)
Fixpoint commit_events (s : coll) (t : txn) (tg : N) (bs : list N) : list tevent :=
  match bs with [] => [] | b :: r => block_events s t tg b ++ commit_events (commit_block s t b) t tg r end.

Theorem commit_trigger s t id e log :
  find_comp s id = Some e → xstate e = XTrigger log →
  trig_log (commit s t) id = log ++ commit_events s t (xtarget e) (dirty_blocks t).
Proof.
  unfold commit. generalize (dirty_blocks t). intros bs. revert s e log.
  induction bs as [|b bs IH]; intros s e log Hf Hx.
  - cbn. unfold trig_log. rewrite Hf, Hx. by rewrite app_nil_r.
  - cbn [commit_blocks foldl commit_events]. fold (commit_blocks (commit_block s t b) t bs).
    pose proof (commit_block_find_comp s t b id e Hf) as Hf'.
    erewrite (IH (commit_block s t b) _ (log ++ block_events s t (xtarget e) b) Hf').
    + cbn [xtarget]. by rewrite app_assoc.
    + cbn [xstate]. rewrite Hx, !trig_apply. unfold block_events. by rewrite app_assoc.
Qed.

(* every store event carries the value the cell holds right after that operation (as the column
   reads it: [ccast] is the identity except for narrow entries of int / uint columns) *)
Lemma rstep_put_value c v o : ok (rstep c v o) = KPut → cstep c v o = Some (ccast c (oval (rstep c v o))).
Proof.
  unfold rstep, cstep, rewrite_op, cell_step. destruct (ok o) eqn:K; try (rewrite K; done).
  destruct (cmerges c); [done|]. rewrite K. done.
Qed.

(* per offset, the rewritten operations - hence the store events - are the issued operations with
   every merge turned into a put of the merged result, in issue order, one for one *)
Lemma rw_block_offset s t b c col i :
  cols s !! c = Some col → blk i = b →
  filter (λ o, ooff o = i) (rw_block s t b c) = rw_list col (cells col !! i) (filter (λ o, ooff o = i) (buf t c)).
Proof.
  intros Hc Hb. unfold rw_block. rewrite Hc, col_apply_rw, filter_off_blk. by rewrite decide_True.
Qed.

Lemma rw_list_length c v l : length (rw_list c v l) = length l.
Proof. revert v; induction l as [|o r IH]; intro v; [done|]. cbn. by rewrite IH. Qed.

(* ------------------------------------------------------------------------------------- *)
(* C16 sorted index                                                                        *)

(* the tree holds exactly the rows that hold a value in the indexed column, under their value *)
Definition sort_rel (v : option value) (e : option bytes) : Prop := e = vbytes_of <$> v.

Definition tree_step (e : option bytes) (o : op) : option bytes :=
  match ok o with KPut => Some (vbytes_of (oval o)) | KDelete => None | _ => e end.

Lemma sorted_apply tree l :
  ∃ tree', comp_apply (XSorted tree) l = XSorted tree' ∧
    ∀ i, tree' !! i = foldl tree_step (tree !! i) (filter (λ o, ooff o = i) l).
Proof.
  revert tree; induction l as [|o r IH]; intro tree; [by exists tree|].
  unfold comp_apply; cbn [foldl].
  assert (∃ t1, comp_step (XSorted tree) o = XSorted t1 ∧
            ∀ i, t1 !! i = if decide (ooff o = i) then tree_step (tree !! i) o else tree !! i) as (t1 & E1 & M1).
  { unfold comp_step, tree_step. destruct (ok o) eqn:K.
    - eexists; split; [done|]. intro i. destruct (decide (ooff o = i)) as [<-|]; [by rewrite lookup_delete|by rewrite lookup_delete_ne].
    - exists tree; split; [done|]. intro i. by destruct (decide _).
    - eexists; split; [done|]. intro i. destruct (decide (ooff o = i)) as [<-|]; [by rewrite lookup_insert|by rewrite lookup_insert_ne].
    - exists tree; split; [done|]. intro i. by destruct (decide _).
    - exists tree; split; [done|]. intro i. by destruct (decide _). }
  rewrite E1. destruct (IH t1) as (t2 & E2 & M2). exists t2. split; [exact E2|].
  intro i. rewrite M2, M1. destruct (decide (ooff o = i)).
  - by rewrite filter_cons_True.
  - by rewrite filter_cons_False.
Qed.

(* the column does not change the bytes of what it stores (true of every string column: their
   cast is the identity) *)
Definition cast_keeps_bytes (c : column) : Prop := ∀ v, vbytes_of (ccast c v) = vbytes_of v.

Lemma sort_rel_rw c v e l :
  cast_keeps_bytes c →
  sort_rel v e → sort_rel (foldl (cstep c) v l) (foldl tree_step e (rw_list c v l)).
Proof.
  intro Hk. revert v e; induction l as [|o r IH]; intros v e R; [done|].
  cbn [rw_list foldl]. apply IH.
  unfold sort_rel, cstep, rstep, tree_step, cell_step, rewrite_op in *.
  destruct (ok o) eqn:K; try (rewrite K; done); try (rewrite K; cbn; by rewrite Hk).
  destruct (cmerges c); [cbn; by rewrite Hk|]. rewrite K. done.
Qed.

Definition SortOK (s : coll) : Prop :=
  ∀ e tree col, e ∈ comps s → xstate e = XSorted tree → cols s !! xtarget e = Some col →
    cast_keeps_bytes col →
    ∀ i, tree !! i = vbytes_of <$> (cells col !! i).

Theorem commit_block_sort_ok s t b : wf_row t → SortOK s → SortOK (commit_block s t b).
Proof.
  intros Hr Inv e' tree' col' He' Hx' Hc' Hk' i.
  rewrite commit_block_comps in He'. apply elem_of_list_fmap in He' as (e & -> & He).
  cbn [xstate xtarget] in *.
  destruct (cols s !! xtarget e) as [col|] eqn:Hc.
  2:{ rewrite (commit_block_cols_none s t b _ Hc) in Hc'. done. }
  destruct (commit_block_cells2 s t b _ col Hc) as (c2 & Hc2 & Hcells).
  rewrite Hc' in Hc2. injection Hc2 as <-. specialize (Hcells i).
  assert (Hk : cast_keeps_bytes col).
  { destruct (commit_block_cols s t b _ col Hc) as (c3 & Hc3 & _ & _ & _ & Hq & _).
    rewrite Hc' in Hc3. injection Hc3 as <-. intro v. rewrite <- Hq. apply Hk'. }
  destruct (xstate e) as [| |tree0] eqn:Hx.
  - exfalso. destruct (idx_apply rule bits (rw_block s t b (xtarget e))) as (b1 & E1 & _). rewrite E1 in Hx'.
    destruct (idx_apply rule b1 (marks_block t b)) as (b2 & E2 & _). rewrite E2 in Hx'. done.
  - exfalso. rewrite !trig_apply in Hx'. done.
  - destruct (sorted_apply tree0 (rw_block s t b (xtarget e))) as (t1 & E1 & M1). rewrite E1 in Hx'.
    destruct (sorted_apply t1 (marks_block t b)) as (t2 & E2 & M2). rewrite E2 in Hx'. injection Hx' as <-.
    rewrite Hcells, M2, M1. unfold rw_block. rewrite Hc, col_apply_rw.
    assert (Hnm : no_merge (filter (λ o, ooff o = i) (marks_block t b))).
    { apply no_merge_filter. unfold marks_block. apply no_merge_filter. by apply wf_row_no_merge. }
    fold (marks_block t b).
    rewrite <- (rw_list_no_merge col (foldl (cstep col) (cells col !! i) (filter (λ o, ooff o = i) (filter (λ o, in_blk b o = true) (buf t (xtarget e))))) _ Hnm) at 1.
    apply sort_rel_rw; [done|]. apply sort_rel_rw; [done|]. exact (Inv e tree0 col He Hx Hc Hk i).
Qed.

Theorem commit_sort_ok s t : wf_row t → SortOK s → SortOK (commit s t).
Proof.
  intros Hr. unfold commit. generalize (dirty_blocks t). intro bs. revert s.
  induction bs as [|b bs IH]; intros s Inv; [done|]. cbn. apply IH. by apply commit_block_sort_ok.
Qed.

Theorem create_sorted_ok s id tg tree0 : SortOK s → SortOK (create_computed s id tg (XSorted tree0)).
Proof.
  intros Inv e tree col He Hx Hc Hk i. unfold create_computed in *.
  destruct (cols s !! tg) as [ct|] eqn:Ht; [|by eapply Inv].
  cbn [comps cols] in *. apply elem_of_app in He as [He|He]; [by eapply Inv|].
  apply elem_of_list_singleton in He. subst e. cbn [xstate xtarget build_computed] in *.
  rewrite Ht in Hx. injection Hx as <-. rewrite Ht in Hc. injection Hc as <-. by rewrite lookup_fmap.
Qed.

(* ---- the order of iteration ---- *)
Lemma bytes_cmp_refl a : bytes_cmp a a = Eq.
Proof. induction a as [|x a IH]; [done|]. cbn. by rewrite N.compare_refl. Qed.

Lemma bytes_cmp_eq a b : bytes_cmp a b = Eq → a = b.
Proof.
  revert b; induction a as [|x a IH]; intros [|y b] H; try done. cbn in H.
  destruct (x ?= y) eqn:E; try done. apply N.compare_eq in E. subst. f_equal. by apply IH.
Qed.

Lemma bytes_cmp_antisym a b : bytes_cmp b a = CompOpp (bytes_cmp a b).
Proof.
  revert b; induction a as [|x a IH]; intros [|y b]; try done. cbn.
  rewrite (N.compare_antisym x y). destruct (x ?= y); cbn; [apply IH|done|done].
Qed.

Lemma bytes_cmp_trans a b c : bytes_cmp a b = Lt → bytes_cmp b c = Lt → bytes_cmp a c = Lt.
Proof.
  revert b c; induction a as [|x a IH]; intros [|y b] [|z c] H1 H2; try done. cbn in *.
  destruct (x ?= y) eqn:E1; try done.
  - apply N.compare_eq in E1. subst y. destruct (x ?= z); try done. by eapply IH.
  - destruct (y ?= z) eqn:E2; try done.
    + apply N.compare_eq in E2. subst z. by rewrite E1.
    + apply N.compare_lt_iff in E1. apply N.compare_lt_iff in E2.
      assert (x ?= z = Lt) as -> by (apply N.compare_lt_iff; eapply N.lt_trans; eauto). done.
Qed.

Global Instance item_le_total : Total item_le.
Proof.
  intros [a i] [b j]. unfold item_le; cbn. rewrite (bytes_cmp_antisym a b).
  destruct (bytes_cmp a b); cbn; [lia|by left|by right].
Qed.

Global Instance item_le_trans : Transitive item_le.
Proof.
  intros [a i] [b j] [c k]. unfold item_le; cbn.
  destruct (bytes_cmp a b) eqn:E1; [|destruct (bytes_cmp b c) eqn:E2|done].
  - apply bytes_cmp_eq in E1. subst b. destruct (bytes_cmp a c); [lia|done|done].
  - apply bytes_cmp_eq in E2. subst c. by rewrite E1.
  - by rewrite (bytes_cmp_trans a b c).
  - done.
Qed.

Lemma StronglySorted_filter {A} (R : relation A) (P : A → Prop) `{∀ x, Decision (P x)} l :
  StronglySorted R l → StronglySorted R (filter P l).
Proof.
  induction 1 as [|x l Hs IH Hf]; [constructor|].
  destruct (decide (P x)); [rewrite filter_cons_True by done|by rewrite filter_cons_False].
  constructor; [exact IH|]. rewrite Forall_forall in *. intros y [_ Hy]%elem_of_list_filter. auto.
Qed.

Lemma NoDup_fmap_filter {A B} (f : A → B) (P : A → Prop) `{∀ x, Decision (P x)} l :
  NoDup (f <$> l) → NoDup (f <$> filter P l).
Proof.
  induction l as [|x l IH]; intro Hn; [constructor|]. cbn in Hn. apply NoDup_cons in Hn as [Hx Hn].
  destruct (decide (P x)); [rewrite filter_cons_True by done|rewrite filter_cons_False by done; auto].
  cbn. apply NoDup_cons. split; [|auto]. intros (y & E & [_ Hy]%elem_of_list_filter)%elem_of_list_fmap.
  apply Hx. apply elem_of_list_fmap. by exists y.
Qed.

(* C16: Ascend visits exactly the selected rows that hold a value, each once, in non-decreasing
   order of (value, offset) *)
Theorem ascend_spec s t x e tree :
  find_comp s x = Some e → xstate e = XSorted tree →
  ∃ items : list (bytes * N),
    ascend_list s t x = snd <$> items ∧
    StronglySorted item_le items ∧ NoDup (snd <$> items) ∧
    ∀ k i, (k, i) ∈ items ↔ tree !! i = Some k ∧ i ∈ sel_of s t.
Proof.
  intros Hf Hx. unfold ascend_list. rewrite Hf, Hx.
  set (raw := (λ kv : N * bytes, (snd kv, fst kv)) <$> map_to_list tree).
  exists (filter (λ it : bytes * N, snd it ∈ sel_of s t) (merge_sort item_le raw)).
  split; [done|]. split.
  { apply StronglySorted_filter. apply StronglySorted_merge_sort; apply _. }
  assert (Hraw : ∀ k i, (k, i) ∈ raw ↔ tree !! i = Some k).
  { intros k i. unfold raw. rewrite elem_of_list_fmap. split.
    - intros ([i' k'] & [= -> ->] & Hin). by apply elem_of_map_to_list in Hin.
    - intro Hl. exists (i, k). split; [done|]. by apply elem_of_map_to_list. }
  assert (Hnd : NoDup (snd <$> raw)).
  { unfold raw. rewrite <- list_fmap_compose.
    replace (snd ∘ (λ kv : N * bytes, (kv.2, kv.1))) with (fst : N * bytes → N) by done.
    apply NoDup_fst_map_to_list. }
  split.
  - apply NoDup_fmap_filter. by rewrite merge_sort_Permutation.
  - intros k i. rewrite elem_of_list_filter, merge_sort_Permutation, Hraw. cbn. tauto.
Qed.
