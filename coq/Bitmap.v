(* Word-level model of the bitmap operations the filters use (kelindar/bitmap And / AndNot / Or on
   the per-block window of the selection, txn.go:153-244, txn_lock.go:51-74) and the proof that
   they are set intersection, difference and union.  A bitmap is a list of 64-bit words; the
   destination is a window of the selection, the source a column's or index's bitmap of possibly
   different length: And clears the destination beyond the source, AndNot leaves it, Or cannot
   grow the window (bits of the source beyond it are dropped). *)
From Coq Require Import NArith Arith List Lia Bool Utf8.
From Coq Require Import ZifyN ZifyNat ZifyBool.
Import ListNotations.
Local Open Scope N_scope.

Definition mem (ws : list N) (i : N) : bool := N.testbit (nth (N.to_nat (i / 64)) ws 0) (i mod 64).

(* the destination keeps its length; the source is zero-extended / truncated to it *)
Fixpoint zipw (f : N → N → N) (a b : list N) : list N :=
  match a with
  | [] => []
  | x :: a' => match b with [] => f x 0 :: zipw f a' [] | y :: b' => f x y :: zipw f a' b' end
  end.

Definition bm_and := zipw N.land.
Definition bm_andnot := zipw N.ldiff.
Definition bm_or := zipw N.lor.

Lemma zipw_length f a b : length (zipw f a b) = length a.
Proof. revert b; induction a as [|x a IH]; intros [|y b]; cbn; auto. Qed.

Lemma zipw_nth f a b (k : nat) :
  nth k (zipw f a b) 0 = if Nat.ltb k (length a) then f (nth k a 0) (nth k b 0) else 0.
Proof.
  revert b k; induction a as [|x a IH]; intros b k.
  - cbn. destruct k; reflexivity.
  - destruct b as [|y b]; destruct k as [|k]; cbn [zipw nth length]; try reflexivity.
    + rewrite IH. destruct k; reflexivity.
    + rewrite IH. reflexivity.
Qed.

Lemma mem_beyond ws i : (length ws <= N.to_nat (i / 64))%nat → mem ws i = false.
Proof. intro H. unfold mem. rewrite nth_overflow by exact H. apply N.bits_0. Qed.

Section ops.
  Variable f : N → N → N.
  Variable fb : bool → bool → bool.
  Hypothesis f_spec : ∀ x y k, N.testbit (f x y) k = fb (N.testbit x k) (N.testbit y k).

  Lemma mem_zipw a b i :
    mem (zipw f a b) i = if Nat.ltb (N.to_nat (i / 64)) (length a) then fb (mem a i) (mem b i) else false.
  Proof.
    unfold mem. rewrite zipw_nth. destruct (Nat.ltb (N.to_nat (i / 64)) (length a)); [apply f_spec|apply N.bits_0].
  Qed.
End ops.

(* C04, word level: With = intersection, Without = difference, for bitmaps of ANY lengths *)
Theorem mem_and a b i : mem (bm_and a b) i = mem a i && mem b i.
Proof.
  unfold bm_and. rewrite (mem_zipw N.land andb N.land_spec).
  destruct (Nat.ltb (N.to_nat (i / 64)) (length a)) eqn:E; [reflexivity|].
  apply Nat.ltb_ge in E. now rewrite (mem_beyond a i E).
Qed.

Theorem mem_andnot a b i : mem (bm_andnot a b) i = mem a i && negb (mem b i).
Proof.
  unfold bm_andnot. rewrite (mem_zipw N.ldiff (fun x y => x && negb y) N.ldiff_spec).
  destruct (Nat.ltb (N.to_nat (i / 64)) (length a)) eqn:E; [reflexivity|].
  apply Nat.ltb_ge in E. now rewrite (mem_beyond a i E).
Qed.

(* Union: exact as soon as the source has no bit beyond the window - which is what the length
   invariants of the collection give (index and presence bits lie inside the fill list, and the
   selection is at least as long as the fill list it was cloned from) *)
Theorem mem_or a b i :
  mem (bm_or a b) i = mem a i || (mem b i && Nat.ltb (N.to_nat (i / 64)) (length a)).
Proof.
  unfold bm_or. rewrite (mem_zipw N.lor orb N.lor_spec).
  destruct (Nat.ltb (N.to_nat (i / 64)) (length a)) eqn:E; [now rewrite andb_true_r|].
  apply Nat.ltb_ge in E. rewrite (mem_beyond a i E). now rewrite andb_false_r.
Qed.

Corollary mem_or_inside a b :
  (∀ i, mem b i = true → (N.to_nat (i / 64) < length a)%nat) →
  ∀ i, mem (bm_or a b) i = mem a i || mem b i.
Proof.
  intros H i. rewrite mem_or. destruct (mem b i) eqn:E; [|now rewrite andb_false_l].
  apply H in E. apply Nat.ltb_lt in E. now rewrite E.
Qed.

(* an emptied selection must keep its length for a later union to work (defect D24): a
   selection truncated to length zero absorbs nothing *)
Example truncated_selection_loses_union : bm_or [] [5] = [] ∧ bm_or [0] [5] = [5].
Proof. split; reflexivity. Qed.

(* correspondence: (op, destination window, source, observed window afterwards) *)
Definition bm_apply (op : N) (a b : list N) : list N :=
  match op with 0 => bm_and a b | 1 => bm_andnot a b | _ => bm_or a b end.
Definition bm_mismatches (cases : list (N * list N * list N * list N)) : list nat :=
  let fix go (n : nat) (l : list (N * list N * list N * list N)) : list nat :=
    match l with
    | [] => []
    | (op, a, b, r) :: rest =>
        (if list_eq_dec N.eq_dec (bm_apply op a b) r then [] else [n]) ++ go (S n) rest
    end in go 0%nat cases.
