(* Correspondence for ConcStore.v: schedules of the controlled scheduler's scenario "rows" (2-3
   writers merging into / overwriting overlapping rows of up to three blocks, one of them possibly
   deleting a seeded row or keeping an inserted one), run on the implementation, are replayed through
   the executable LTS [ConcStore.run]: the writers' transactions as the API queued them, the order
   in which the threads acquired the block latches as recorded by the scheduler.  The LTS must
   accept the schedule, produce the same apply order, finish, and end with the values, liveness
   and Count the implementation shows.
   Schema of the scenario: 1 a, 2 b (int64, additive merge), 3 m (int64, merge v*3+d), 4 rec (binary
   record: big-endian int64 with the user merge v*3+d), 5 g (int64), 6 h (bool). *)
From stdpp Require Import gmap list.
From ColumnV Require Import Bytes Store StoreProofs2 Check ConcStore.
Local Open Scope N_scope.

Definition be8 (n : N) : list N :=
  [(n / 2^56) mod 256; (n / 2^48) mod 256; (n / 2^40) mod 256; (n / 2^32) mod 256;
   (n / 2^24) mod 256; (n / 2^16) mod 256; (n / 2^8) mod 256; n mod 256].
Definition unbe (l : list N) : N := foldl (λ a x, a * 256 + x) 0 l.
Definition merge_rec_affine (a b : value) : value := VB (be8 ((unbe (vbytes_of a) * 3 + unbe (vbytes_of b)) mod 2^64)).

Definition rows_schema : coll :=
  foldl (λ s (p : N * column), create_column s (fst p) (snd p) false) coll0
        [(1, col_num 64 merge_add); (2, col_num 64 merge_add); (3, col_num 64 merge_affine);
         (4, col_str merge_rec_affine); (5, col_num 64 merge_add); (6, col_plain)].

Definition mk (bufs : list (N * list op)) (row : list op) : txn := mktxn None (list_to_map bufs) row [].

Definition obsrow := (N * bool * list (N * option value))%type.

(* 1 the LTS does not accept the schedule; 2 another apply order; 3 a thread is not finished;
   4 liveness of a row differs; 5 a value differs; 6 Count differs *)
Definition conc_check (seed : txn) (ws : list (nat * txn)) (order : list (nat * N)) (obs : list obsrow) (cnt : N) : list N :=
  let s0 := commit rows_schema seed in
  let txns : gmap nat txn := list_to_map ws in
  let sched := flat_map (λ e : nat * N, [fst e; fst e; fst e]) order in
  match run (init s0 txns) sched with
  | None => [1]
  | Some s =>
      (if decide (((λ e, (etid e, eblk e)) <$> trace s) = order) then [] else [2]) ++
      (if decide (map_Forall (λ _ w, wtodo w = [] ∧ whold w = None) (ths s)) then [] else [3]) ++
      flat_map (λ o : obsrow,
                  let off := fst (fst o) in
                  (if decide (bool_decide (off ∈ fill (st s)) = snd (fst o)) then [] else [4]) ++
                  flat_map (λ cv : N * option value, if decide (read (st s) (fst cv) off = snd cv) then [] else [5]) (snd o)) obs ++
      (if decide (count (st s) = cnt) then [] else [6])
  end.

Fixpoint conc_mismatches (n : N) (cases : list (txn * list (nat * txn) * list (nat * N) * list obsrow * N)) : list (N * N) :=
  match cases with
  | [] => []
  | (seed, ws, order, obs, cnt) :: rest => ((λ t, (n, t)) <$> conc_check seed ws order obs cnt) ++ conc_mismatches (n + 1) rest
  end.

(* what an accepted case means: the end state is a reachable state of the LTS (so every theorem of
   ConcStore.v applies to it) *)
Lemma conc_run_reach s0 txns sched s : run (init s0 txns) sched = Some s → reach (init s0 txns) s.
Proof. intro H. eapply run_reach; [apply r_refl|exact H]. Qed.
