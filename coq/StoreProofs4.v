(* C07: restoring a snapshot reproduces every cell and the fill list.  C12: the key table. *)
From stdpp Require Import gmap sorting.
From ColumnV Require Import GenConsts Bytes Store StoreProofs StoreProofs2.
Local Open Scope N_scope.

(* ------------------------------------------------------------------------------------- *)
(* list_to_map over a key-tagged list                                                      *)

Lemma lookup_tagged {A} (f : N → A) (l : list N) c :
  NoDup l → (list_to_map ((λ c, (c, f c)) <$> l) : gmap N A) !! c = if decide (c ∈ l) then Some (f c) else None.
Proof.
  intro ND. destruct (decide (c ∈ l)) as [Hin|Hnin].
  - apply elem_of_list_to_map_1.
    + rewrite <- list_fmap_compose. replace (fst ∘ (λ c0, (c0, f c0))) with (id : N → N) by done. by rewrite list_fmap_id.
    + apply elem_of_list_fmap. by exists c.
  - apply not_elem_of_list_to_map_1. rewrite <- list_fmap_compose.
    replace (fst ∘ (λ c0, (c0, f c0))) with (id : N → N) by done. by rewrite list_fmap_id.
Qed.

Lemma filter_tagged_ops (mk : N → op) (l : list N) i :
  (∀ j, ooff (mk j) = j) → NoDup l →
  filter (λ o, ooff o = i) (mk <$> l) = if decide (i ∈ l) then [mk i] else [].
Proof.
  intros Hoff. induction l as [|x l IH]; intro ND; [done|]. apply NoDup_cons in ND as [Hx ND]. cbn [fmap list_fmap].
  destruct (decide (x = i)) as [->|NE].
  - rewrite filter_cons_True by apply Hoff. rewrite IH by done. rewrite decide_False by done.
    rewrite decide_True by (by left). done.
  - rewrite filter_cons_False by (by rewrite Hoff). rewrite IH by done.
    destruct (decide (i ∈ l)); [rewrite decide_True by (by right)|rewrite decide_False by (intros [?|?]%elem_of_cons; done)]; done.
Qed.

Lemma sorted_elems_nodup (X : gset N) : NoDup (sorted_elems X).
Proof. unfold sorted_elems. rewrite merge_sort_Permutation. apply NoDup_elements. Qed.
Lemma elem_of_sorted_elems (X : gset N) i : i ∈ sorted_elems X ↔ i ∈ X.
Proof. unfold sorted_elems. by rewrite merge_sort_Permutation, elem_of_elements. Qed.

(* ------------------------------------------------------------------------------------- *)
(* what one block of a snapshot contains                                                   *)

Definition snap_txn (s : coll) (b : N) : txn := txn_of_rec (snapshot_block s b).

Lemma snap_trow s b i :
  filter (λ o, ooff o = i) (trow (snap_txn s b)) = if decide (i ∈ fill s ∧ blk i = b) then [mkop KInsert i V0] else [].
Proof.
  unfold snap_txn, txn_of_rec, snapshot_block; cbn [trow rrow].
  rewrite (filter_tagged_ops (λ j, mkop KInsert j V0)); [|done|apply NoDup_filter, sorted_elems_nodup].
  destruct (decide (i ∈ fill s ∧ blk i = b)) as [[H1 H2]|Hn].
  - rewrite decide_True; [done|]. apply elem_of_list_filter. split; [done|by apply elem_of_sorted_elems].
  - rewrite decide_False; [done|]. intros [H2 H1%elem_of_sorted_elems]%elem_of_list_filter. by apply Hn.
Qed.

Lemma snap_buf s b c col i :
  cols s !! c = Some col →
  filter (λ o, ooff o = i) (buf (snap_txn s b) c)
  = match cells col !! i with Some v => if decide (blk i = b) then [mkop KPut i v] else [] | None => [] end.
Proof.
  intro Hc. unfold snap_txn, txn_of_rec, snapshot_block, buf; cbn [tbufs rcols].
  assert (ND : NoDup (merge_sort N.le (elements (dom (cols s))))) by (rewrite merge_sort_Permutation; apply NoDup_elements).
  rewrite (lookup_tagged _ _ c ND).
  rewrite decide_True by (rewrite merge_sort_Permutation, elem_of_elements; apply elem_of_dom; by exists col).
  cbn beta iota delta [default]. rewrite Hc. cbn beta iota. unfold id.
  rewrite (filter_tagged_ops (λ j, mkop KPut j (default V0 (cells col !! j)))); [|done|apply NoDup_filter, sorted_elems_nodup].
  destruct (cells col !! i) as [v|] eqn:E.
  - destruct (decide (blk i = b)) as [Hb|Hb].
    + rewrite decide_True; [done|]. apply elem_of_list_filter. split; [done|]. apply elem_of_sorted_elems, elem_of_dom. by exists v.
    + rewrite decide_False; [done|]. intros [H2 _]%elem_of_list_filter. done.
  - rewrite decide_False; [done|]. intros [_ H1%elem_of_sorted_elems]%elem_of_list_filter.
    apply elem_of_dom in H1 as [v Hv]. congruence.
Qed.

(* ------------------------------------------------------------------------------------- *)
(* C07: restoring block after block                                                        *)

(* a collection with the same columns (same parameters), possibly other contents *)
Definition same_schema (r s : coll) : Prop :=
  ∀ c, match cols r !! c, cols s !! c with
       | Some a, Some b => cmerges a = cmerges b ∧ cmrg a = cmrg b ∧ czero a = czero b ∧ ccast a = ccast b
       | None, None => True
       | _, _ => False end.

Definition restored_upto (r s : coll) (bs : list N) : Prop :=
  same_schema r s ∧
  (∀ c i, read r c i = if decide (blk i ∈ bs) then read s c i else None) ∧
  (∀ i, i ∈ fill r ↔ i ∈ fill s ∧ blk i ∈ bs).

Lemma same_schema_commit_block r s t b : same_schema r s → same_schema (commit_block r t b) s.
Proof.
  intros H c. specialize (H c). destruct (cols r !! c) as [a|] eqn:E.
  - destruct (commit_block_cols r t b c a E) as (a' & -> & M1 & M2 & M3 & M4 & _).
    destruct (cols s !! c); [|done]. by rewrite M1, M2, M3, M4.
  - by rewrite (commit_block_cols_none r t b c E).
Qed.

Lemma read_same_schema_none r s c i : same_schema r s → cols s !! c = None → read r c i = None.
Proof. intros H Hc. specialize (H c). unfold read. rewrite Hc in H. by destruct (cols r !! c). Qed.

(* replaying one block of the snapshot on a collection that holds the blocks [bs] already *)
Lemma restore_one_block r s bs b :
  CastFixed s →
  b ∉ bs → restored_upto r s bs → restored_upto (replay r (snapshot_block s b)) s (b :: bs).
Proof.
  intros HF Hb (Hs & Hr & Hf). unfold replay. cbn [commit_blocks foldl rblk snapshot_block].
  fold (snap_txn s b). split; [by apply same_schema_commit_block|]. split.
  - intros c i. destruct (cols s !! c) as [col|] eqn:Hc.
    2:{ rewrite (read_same_schema_none _ s c i (same_schema_commit_block r s _ b Hs) Hc).
        unfold read. rewrite Hc. by destruct (decide _). }
    pose proof (Hs c) as Hsc. rewrite Hc in Hsc. destruct (cols r !! c) as [rc|] eqn:Hrc; [|done].
    destruct Hsc as (M1 & M2 & M3 & M4).
    destruct (commit_block_cols r (snap_txn s b) b c rc Hrc) as (rc' & Hrc' & _ & _ & _ & _ & Hcells).
    unfold read at 1. rewrite Hrc', Hcells.
    destruct (decide (blk i = b)) as [Eb|NEb].
    + rewrite decide_True by (rewrite Eb; by left).
      rewrite (snap_buf s b c col i Hc), snap_trow.
      assert (Hold : cells rc !! i = None).
      { specialize (Hr c i). unfold read in Hr. rewrite Hrc in Hr. rewrite Hr. rewrite decide_False; [done|]. by rewrite Eb. }
      rewrite Hold. unfold read. rewrite Hc.
      destruct (cells col !! i) as [v|] eqn:Ev.
      * rewrite decide_True by done. unfold cell_final, cstep, cell_step; cbn.
        rewrite M4, (proj2 (HF c col Hc) i v Ev).
        destruct (decide (i ∈ fill s ∧ blk i = b)); done.
      * unfold cell_final, cstep, cell_step; cbn. destruct (decide (i ∈ fill s ∧ blk i = b)); done.
    + specialize (Hr c i). unfold read in Hr at 1. rewrite Hrc in Hr. rewrite Hr.
      destruct (decide (blk i ∈ bs)) as [Hin|Hnin].
      * rewrite decide_True by (by right). done.
      * rewrite decide_False; [done|]. intros [?|?]%elem_of_cons; done.
  - intro i. pose proof (commit_block_fill r (snap_txn s b) b i) as F. rewrite snap_trow in F.
    destruct (decide (blk i = b)) as [Eb|NEb].
    + destruct (decide (i ∈ fill s ∧ blk i = b)) as [[H1 _]|Hn]; unfold foldl, live_step in F; cbn [ok] in F.
      * apply bool_decide_eq_true in F. split; [intros _; split; [done|rewrite Eb; by left]|done].
      * assert (Hnr : i ∉ fill r). { intros [_ Hin]%Hf. apply Hb. by rewrite <- Eb. }
        rewrite (bool_decide_eq_false_2 _ Hnr) in F. apply bool_decide_eq_false in F.
        split; [done|]. intros [H1 _]. exfalso. apply Hn. done.
    + split.
      * intro Hi. assert (Hir : i ∈ fill r).
        { destruct (decide (i ∈ fill r)); [done|]. rewrite (bool_decide_eq_false_2 _ n) in F. rewrite (bool_decide_eq_true_2 _ Hi) in F. done. }
        apply Hf in Hir as [H1 H2]. split; [done|by right].
      * intros [H1 [H2|H2]%elem_of_cons]; [done|].
        assert (Hir : i ∈ fill r) by (apply Hf; done).
        rewrite (bool_decide_eq_true_2 _ Hir) in F. by apply bool_decide_eq_true in F.
Qed.

From ColumnV Require Import Check.

Lemma restored_fresh s : restored_upto (fresh_of s) s [].
Proof.
  split; [|split].
  - intro c. unfold fresh_of; cbn [cols]. rewrite lookup_fmap. destruct (cols s !! c); done.
  - intros c i. unfold read, fresh_of; cbn [cols]. rewrite lookup_fmap.
    destruct (cols s !! c); cbn; [by rewrite lookup_empty|done].
  - intro i. unfold fresh_of; cbn [fill]. set_solver.
Qed.

Lemma restore_blocks r s bs dn :
  CastFixed s →
  NoDup (bs ++ dn) → restored_upto r s dn →
  restored_upto (foldl replay r (snapshot_block s <$> bs)) s (rev bs ++ dn).
Proof.
  intro HF. revert r dn. induction bs as [|b bs IH]; intros r dn ND H; [exact H|].
  cbn [fmap list_fmap foldl rev]. cbn in ND. apply NoDup_cons in ND as [Hb ND].
  rewrite <- app_assoc. cbn [app]. apply IH.
  - apply NoDup_app in ND as (N1 & N2 & N3). apply NoDup_app. split; [exact N1|]. split.
    + intros x Hx [->|Hx2]%elem_of_cons; [apply Hb, elem_of_app; by left|by eapply N2].
    + apply NoDup_cons. split; [|exact N3]. intro Hd. apply Hb, elem_of_app. by right.
  - apply restore_one_block; [exact HF| |exact H]. intro Hd. apply Hb, elem_of_app. by right.
Qed.

Lemma blk_mono i j : i <= j → blk i <= blk j.
Proof. intro H. unfold blk. apply N.div_le_mono; [done|exact H]. Qed.

Lemma last_in (l : list N) d : l ≠ [] → List.last l d ∈ l.
Proof.
  induction l as [|a l IH]; [done|]. intros _. destruct l as [|b l]; [cbn; by left|].
  change (List.last (a :: b :: l) d) with (List.last (b :: l) d). right. by apply IH.
Qed.

Lemma sorted_le_last_N (l : list N) : StronglySorted N.le l → ∀ x, x ∈ l → x <= List.last l 0.
Proof.
  induction 1 as [|a l S IH F]; intros x Hx; [by apply elem_of_nil in Hx|].
  destruct l as [|b l]; [apply elem_of_list_singleton in Hx; subst; cbn; lia|].
  change (List.last (a :: b :: l) 0) with (List.last (b :: l) 0).
  apply elem_of_cons in Hx as [->|Hx]; [|by apply IH].
  rewrite Forall_forall in F. apply F. by apply last_in.
Qed.

Lemma live_block_in_range s i : i ∈ fill s → (N.to_nat (blk i) < N.to_nat (nblocks s))%nat.
Proof.
  intro Hi. unfold nblocks.
  assert (S : StronglySorted N.le (sorted_elems (fill s))).
  { unfold sorted_elems. apply StronglySorted_merge_sort; [apply _|]. intros x y. lia. }
  apply elem_of_sorted_elems in Hi.
  pose proof (sorted_le_last_N _ S i Hi) as Hle.
  destruct (sorted_elems (fill s)) as [|x l] eqn:E; [by apply elem_of_nil in Hi|].
  pose proof (blk_mono _ _ Hle). lia.
Qed.

(* C07: restoring the snapshot of a collection into a fresh collection with the same schema
   reproduces every cell of every column at every offset, and the fill list (hence Count and the
   behaviour of later inserts: no restored row can be handed out again) *)
Theorem restore_snapshot s :
  CellsLive s → CastFixed s →
  let r := restore (fresh_of s) (snapshot s) in
  (∀ c i, read r c i = read s c i) ∧ fill r = fill s ∧ same_schema r s.
Proof.
  intros Live HF r. unfold r, restore, snapshot.
  set (bs := (λ b : nat, N.of_nat b) <$> seq 0 (N.to_nat (nblocks s))).
  assert (Hmap : ((λ b : nat, snapshot_block s (N.of_nat b)) <$> seq 0 (N.to_nat (nblocks s))) = snapshot_block s <$> bs).
  { unfold bs. by rewrite <- list_fmap_compose. }
  rewrite Hmap.
  assert (ND : NoDup (bs ++ [])).
  { rewrite app_nil_r. unfold bs. apply NoDup_fmap_2; [intros x y; lia|apply NoDup_seq]. }
  destruct (restore_blocks (fresh_of s) s bs [] HF ND (restored_fresh s)) as (Hs & Hr & Hf).
  rewrite app_nil_r in Hr, Hf.
  assert (Hin : ∀ i, i ∈ fill s → blk i ∈ rev bs).
  { intros i Hi. apply elem_of_list_In. apply -> in_rev. apply elem_of_list_In. unfold bs. apply elem_of_list_fmap. exists (N.to_nat (blk i)).
    split; [lia|]. apply elem_of_seq. pose proof (live_block_in_range s i Hi). lia. }
  split; [|split; [|exact Hs]].
  - intros c i. rewrite Hr. destruct (decide (blk i ∈ rev bs)); [done|].
    symmetry. apply free_offset_is_clean; [done|]. intro Hi. by apply n, Hin.
  - apply set_eq. intro i. rewrite Hf. split; [by intros [? _]|]. intro Hi. split; [done|by apply Hin].
Qed.

(* restored indexes and sorted indexes are exact because they are maintained by commits (C03,
   C16) and the restored cells equal the original ones *)
Corollary restore_index_membership s e rule bits e' bits' col col' :
  CellsLive s → CastFixed s → IdxOK s → IdxOK (restore (fresh_of s) (snapshot s)) →
  e ∈ comps s → xstate e = XIndex rule bits → cols s !! xtarget e = Some col → cast_invariant col rule →
  e' ∈ comps (restore (fresh_of s) (snapshot s)) → xstate e' = XIndex rule bits' → xtarget e' = xtarget e →
  cols (restore (fresh_of s) (snapshot s)) !! xtarget e' = Some col' →
  bits' = bits.
Proof.
  intros Live HF I1 I2 He Hx Hc Hci He' Hx' Ht Hc'. apply set_eq. intro i.
  destruct (restore_snapshot s Live HF) as (Hr & _ & Hsch).
  assert (Hci' : cast_invariant col' rule).
  { specialize (Hsch (xtarget e)). rewrite <- Ht, Hc', Ht, Hc in Hsch. destruct Hsch as (_ & _ & _ & Hk).
    intros j v. rewrite Hk. apply Hci. }
  rewrite (I1 e rule bits col He Hx Hc Hci i), (I2 e' rule bits' col' He' Hx' Hc' Hci' i).
  specialize (Hr (xtarget e) i).
  unfold read in Hr. rewrite <- Ht, Hc', Ht, Hc in Hr. by rewrite Hr.
Qed.

(* ------------------------------------------------------------------------------------- *)
(* C12: the key table is the inverse of the key column                                     *)

Definition KeyBij (cs : gmap N value) (keys : gmap bytes N) : Prop :=
  (∀ i v, cs !! i = Some v → ∃ k, v = VB k) ∧
  (∀ k i, keys !! k = Some i ↔ cs !! i = Some (VB k)).

(* the only condition: a put must not give a row a key that ANOTHER row holds (InsertKey /
   UpsertKey / SetKey check the table when they are issued; two issuing operations for one new
   key inside one transaction are finding K5, two concurrent upserts finding K6) *)
Definition key_op_ok (cs : gmap N value) (o : op) : Prop :=
  match ok o with
  | KPut => (∃ k, oval o = VB k) ∧ ∀ j, j ≠ ooff o → cs !! j ≠ Some (oval o)
  | _ => True
  end.

Lemma key_step_bij cs keys o :
  KeyBij cs keys → key_op_ok cs o → KeyBij (fst (key_step (cs, keys) o)) (snd (key_step (cs, keys) o)).
Proof.
  intros [Hvb Hb] Hok. unfold key_step, key_op_ok in *. destruct (ok o) eqn:K; try done.
  - (* delete *)
    cbn [fst snd]. set (off := ooff o) in *. split.
    { intros i v [_ H]%lookup_delete_Some. by eapply Hvb. }
    intros k i. unfold drop_key. destruct (cs !! off) as [v|] eqn:E.
    + destruct (Hvb off v E) as [ko ->]. cbn [vbytes_of].
      assert (Hko : keys !! ko = Some off) by (by apply Hb).
      rewrite decide_True by done.
      rewrite lookup_delete_Some, lookup_delete_Some, Hb. split.
      * intros [Hne H]. split; [|done]. intros ->. rewrite E in H. by simplify_eq.
      * intros [Hne H]. split; [|done]. intros ->. apply Hb in H. rewrite Hko in H. by simplify_eq.
    + rewrite lookup_delete_Some, Hb. split; [intros H; split; [intros ->; congruence|done]|by intros [_ H]].
  - (* put *)
    cbn [fst snd]. set (off := ooff o) in *. destruct Hok as [[kn Hkn] Hfree]. rewrite Hkn in *. cbn [vbytes_of].
    split.
    { intros i v [[_ <-]|[_ H]]%lookup_insert_Some; [by exists kn|by eapply Hvb]. }
    intros k i.
    destruct (decide (cs !! off = Some (VB kn))) as [Esame|Ediff].
    + (* the row keeps its key *)
      rewrite lookup_insert_Some, lookup_insert_Some, Hb. split.
      * intros [[-> <-]|[Hne H]]; [by left|]. right. split; [|done]. intros ->. rewrite Esame in H. by simplify_eq.
      * intros [[<- [= ->]]|[Hne H]]; [by left|]. destruct (decide (kn = k)) as [->|NE]; [|by right].
        exfalso. by apply (Hfree i).
    + unfold drop_key. destruct (cs !! off) as [v|] eqn:E.
      * destruct (Hvb off v E) as [ko ->]. cbn [vbytes_of].
        assert (Hko : keys !! ko = Some off) by (by apply Hb).
        assert (Hne : ko ≠ kn) by (intros ->; done).
        rewrite decide_True by done.
        rewrite lookup_insert_Some, lookup_insert_Some, lookup_delete_Some, Hb. split.
        -- intros [[-> <-]|[Hk [Hk2 H]]]; [by left|]. right. split; [|done]. intros ->. rewrite E in H. by simplify_eq.
        -- intros [[<- [= ->]]|[Hio H]]; [by left|].
           destruct (decide (kn = k)) as [->|NE]; [exfalso; by apply (Hfree i)|].
           right. split; [done|]. split; [|done]. intros ->. apply Hb in H. rewrite Hko in H. by simplify_eq.
      * rewrite lookup_insert_Some, lookup_insert_Some, Hb. split.
        -- intros [[-> <-]|[Hk H]]; [by left|]. right. split; [intros ->; congruence|done].
        -- intros [[<- [= ->]]|[Hio H]]; [by left|].
           destruct (decide (kn = k)) as [->|NE]; [exfalso; by apply (Hfree i)|]. by right.
Qed.

(* a whole buffer of key operations, each admissible in the state it meets *)
Fixpoint key_ops_ok (cs : gmap N value) (keys : gmap bytes N) (ops : list op) : Prop :=
  match ops with
  | [] => True
  | o :: r => key_op_ok cs o ∧ key_ops_ok (fst (key_step (cs, keys) o)) (snd (key_step (cs, keys) o)) r
  end.

Theorem key_apply_bij ops : ∀ cs keys,
  KeyBij cs keys → key_ops_ok cs keys ops →
  KeyBij (fst (foldl key_step (cs, keys) ops)) (key_apply cs keys ops).
Proof.
  unfold key_apply. induction ops as [|o r IH]; intros cs keys HB Hok; [done|].
  cbn [foldl]. destruct Hok as [Ho Hr].
  pose proof (key_step_bij cs keys o HB Ho) as HB'.
  destruct (key_step (cs, keys) o) as [cs' keys'] eqn:E. cbn [fst snd] in *. by apply IH.
Qed.

(* what the API relies on: with the bijection, "the key exists" is "some row holds it", the row a
   lookup reaches is the row whose key it is, and at most one row holds any key *)
Corollary key_lookup_sound cs keys k i : KeyBij cs keys → keys !! k = Some i → cs !! i = Some (VB k).
Proof. intros [_ H]. apply H. Qed.
Corollary key_lookup_complete cs keys k i : KeyBij cs keys → cs !! i = Some (VB k) → keys !! k = Some i.
Proof. intros [_ H]. apply H. Qed.
Corollary key_unique cs keys k i j : KeyBij cs keys → cs !! i = Some (VB k) → cs !! j = Some (VB k) → i = j.
Proof. intros [_ H] Hi Hj. apply H in Hi, Hj. congruence. Qed.
Corollary deleted_key_is_free cs keys o k :
  KeyBij cs keys → ok o = KDelete → cs !! ooff o = Some (VB k) →
  snd (key_step (cs, keys) o) !! k = None.
Proof.
  intros HB K Hc. pose proof (key_step_bij cs keys o HB) as H. unfold key_op_ok in H. rewrite K in H.
  destruct (H I) as [_ Hb]. destruct (snd (key_step (cs, keys) o) !! k) as [i|] eqn:E; [|done].
  apply Hb in E. unfold key_step in E. rewrite K in E. cbn in E. apply lookup_delete_Some in E as [Hne E].
  destruct HB as [_ HB]. apply HB in E, Hc. congruence.
Qed.
