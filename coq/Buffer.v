From Coq Require Import NArith List Lia ZArith Bool.
From Coq Require Import ZifyN ZifyNat ZifyBool.
From ColumnV Require Import GenConsts Bytes Ops.
Import ListNotations.
Local Open Scope N_scope.

Record header := mkh { hchunk : N; hstart : nat; hvalue : N }.
Record buffer := mkb { blast : N; bchunk : option N; bbytes : list N; bhdrs : list header }.
Definition empty := mkb 0 None [] [].
(* writeChunk: idx >> chunkShift, the shift regenerated from commit/commit.go *)
Definition chunk_of (i : N) := i / c_commit_commit_chunkSize.

Definition same_chunk (oc : option N) (c : N) : bool := match oc with Some c' => c' =? c | None => false end.
Definition put (b : buffer) (o : op) : buffer :=
  let c := chunk_of (ooff o) in
  let hs := if same_chunk (bchunk b) c then bhdrs b else bhdrs b ++ [mkh c (length (bbytes b)) (blast b)] in
  mkb (ooff o) (Some c) (bbytes b ++ enc (blast b) o) hs.

Fixpoint decode (fuel : nat) (l : list N) (off : N) : list op :=
  match fuel with
  | O => []
  | S f => match l with
           | [] => []
           | _ => match next l off with Some (o, r) => o :: decode f r (ooff o) | None => [] end
           end
  end.
Definition read_seg (l : list N) (off : N) := decode (length l) l off.
Definition slice {A} (start len : nat) (l : list A) := firstn len (skipn start l).

Fixpoint range_hdrs (hs : list header) (bytes : list N) (c : N) : list op :=
  match hs with
  | [] => []
  | h :: rest =>
    let stop := match rest with h' :: _ => hstart h' | [] => length bytes end in
    (if hchunk h =? c then read_seg (slice (hstart h) (stop - hstart h) bytes) (hvalue h) else [])
      ++ range_hdrs rest bytes c
  end.
Definition range (b : buffer) (c : N) := range_hdrs (bhdrs b) (bbytes b) c.

(* ---------- abstract representation: maximal runs ---------- *)
Definition run := (N * N * list op)%type.
Fixpoint enc_run (last : N) (ops : list op) : list N :=
  match ops with [] => [] | o :: r => enc last o ++ enc_run (ooff o) r end.
Definition run_bytes (r : run) : list N := let '(_, v, ops) := r in enc_run v ops.
Definition run_ops (r : run) : list op := let '(_, _, ops) := r in ops.
Definition run_chunk (r : run) : N := let '(c, _, _) := r in c.
Fixpoint render (rs : list run) (pos : nat) : list header :=
  match rs with
  | [] => []
  | r :: rest => mkh (run_chunk r) pos (let '(_, v, _) := r in v) :: render rest (pos + length (run_bytes r))
  end.
Definition last_off (v : N) (ops : list op) : N := match rev ops with o :: _ => ooff o | [] => v end.

Definition run_ok (r : run) : Prop :=
  let '(c, v, ops) := r in v < M32 /\ ops <> [] /\ Forall (fun o => wf_op o /\ chunk_of (ooff o) = c) ops.

Definition Rep (b : buffer) (rs : list run) : Prop :=
  bbytes b = concat (map run_bytes rs) /\
  bhdrs b = render rs 0 /\
  Forall run_ok rs /\
  match rev rs with
  | [] => bchunk b = None /\ blast b = 0
  | (c, v, ops) :: _ => bchunk b = Some c /\ blast b = last_off v ops
  end.

Lemma enc_nonempty last o : enc last o <> [].
Proof. unfold enc. destruct (delta last (ooff o) =? 1); discriminate. Qed.

Lemma enc_run_snoc v ops o : enc_run v (ops ++ [o]) = enc_run v ops ++ enc (last_off v ops) o.
Proof.
  revert v. induction ops as [|a ops IH]; intro v; cbn [enc_run app].
  - unfold last_off; cbn. rewrite app_nil_r. reflexivity.
  - rewrite IH. rewrite <- app_assoc. f_equal. f_equal.
    unfold last_off. cbn [rev]. destruct (rev ops) as [|x xs] eqn:E; cbn; reflexivity.
Qed.

Lemma last_off_lt v ops : v < M32 -> Forall (fun o => ooff o < M32) ops -> last_off v ops < M32.
Proof.
  intros Hv Hf. unfold last_off. destruct (rev ops) as [|x xs] eqn:E; [exact Hv|].
  assert (In x ops) by (apply in_rev; rewrite E; left; reflexivity).
  rewrite Forall_forall in Hf. auto.
Qed.

Lemma decode_enc_run fuel v ops :
  v < M32 -> Forall wf_op ops -> (length ops <= fuel)%nat -> decode fuel (enc_run v ops) v = ops.
Proof.
  revert v ops. induction fuel as [|f IH]; intros v ops Hv Hf Hl.
  - destruct ops; [reflexivity|cbn in Hl; lia].
  - destruct ops as [|o ops]; [reflexivity|].
    cbn [enc_run decode]. inversion Hf as [|? ? Ho Hf']; subst.
    destruct (enc v o ++ enc_run (ooff o) ops) as [|x xs] eqn:E.
    { apply app_eq_nil in E. destruct E as [E _]. exfalso; eapply enc_nonempty; exact E. }
    rewrite <- E. rewrite next_enc by assumption.
    f_equal. apply IH; [apply Ho|assumption|cbn in Hl; lia].
Qed.

Lemma enc_run_length_ge v ops : (length ops <= length (enc_run v ops))%nat.
Proof.
  revert v; induction ops as [|o ops IH]; intro v; cbn [enc_run length]; [lia|].
  rewrite app_length. specialize (IH (ooff o)).
  assert (0 < length (enc v o))%nat by (destruct (enc v o) eqn:E; [exfalso; eapply enc_nonempty; eauto|cbn; lia]).
  lia.
Qed.

Lemma read_seg_run c v ops : run_ok (c, v, ops) -> read_seg (enc_run v ops) v = ops.
Proof.
  intros (Hv & _ & Hf). unfold read_seg. apply decode_enc_run; [assumption| |apply enc_run_length_ge].
  eapply Forall_impl; [|exact Hf]. cbn; intros a [H _]; exact H.
Qed.

Lemma slice_app_mid {A} (p m s : list A) : slice (length p) (length m) (p ++ m ++ s) = m.
Proof.
  unfold slice. rewrite skipn_app, skipn_all, Nat.sub_diag. cbn [app skipn].
  rewrite firstn_app, firstn_all, Nat.sub_diag. cbn. apply app_nil_r.
Qed.

Lemma range_render rs pre c :
  Forall run_ok rs ->
  range_hdrs (render rs (length pre)) (pre ++ concat (map run_bytes rs)) c
  = concat (map run_ops (filter (fun r => run_chunk r =? c) rs)).
Proof.
  revert pre. induction rs as [|r rs IH]; intros pre Hok; [reflexivity|].
  inversion Hok as [|? ? Hr Hrs]; subst.
  cbn [render range_hdrs map concat filter hchunk hstart hvalue].
  (* the stop position *)
  assert (Hstop : (match render rs (length pre + length (run_bytes r)) with
                   | h' :: _ => hstart h' | [] => length (pre ++ run_bytes r ++ concat (map run_bytes rs)) end)
                  = (length pre + length (run_bytes r))%nat).
  { destruct rs as [|r2 rs2]; cbn [render hstart].
    - cbn. rewrite !app_length. cbn. lia.
    - reflexivity. }
  rewrite Hstop.
  replace (length pre + length (run_bytes r) - length pre)%nat with (length (run_bytes r)) by lia.
  rewrite slice_app_mid.
  assert (Hrest : range_hdrs (render rs (length pre + length (run_bytes r))) (pre ++ run_bytes r ++ concat (map run_bytes rs)) c
                  = concat (map run_ops (filter (fun r0 => run_chunk r0 =? c) rs))).
  { rewrite <- app_length. rewrite app_assoc. apply IH; assumption. }
  rewrite Hrest.
  destruct r as [[c0 v] ops]. cbn [run_chunk run_bytes run_ops].
  destruct (c0 =? c) eqn:E; cbn [map concat].
  - rewrite (read_seg_run c0 v ops Hr). reflexivity.
  - reflexivity.
Qed.

Lemma filter_const {A} (f : A -> bool) (l : list A) (v : bool) :
  (forall x, In x l -> f x = v) -> filter f l = if v then l else [].
Proof.
  induction l as [|x l IH]; intro H; [destruct v; reflexivity|].
  cbn [filter]. rewrite (H x (or_introl eq_refl)).
  rewrite IH by (intros y Hy; apply H; right; exact Hy). destruct v; reflexivity.
Qed.

Lemma concat_runs_filter rs c :
  Forall run_ok rs ->
  concat (map run_ops (filter (fun r => run_chunk r =? c) rs))
  = filter (fun o => chunk_of (ooff o) =? c) (concat (map run_ops rs)).
Proof.
  induction rs as [|r rs IH]; intro Hok; [reflexivity|].
  inversion Hok as [|? ? Hr Hrs]; subst. cbn [filter map concat].
  rewrite filter_app, <- IH by assumption.
  destruct r as [[c0 v] ops]. cbn [run_chunk run_ops]. destruct Hr as (_ & _ & Hf).
  rewrite Forall_forall in Hf.
  rewrite (filter_const _ ops (c0 =? c)).
  - destruct (c0 =? c); reflexivity.
  - intros o Ho. destruct (Hf o Ho) as [_ ->]. reflexivity.
Qed.

(* ---------- put preserves the representation ---------- *)
Definition add_op (rs : list run) (last : N) (o : op) : list run :=
  let c := chunk_of (ooff o) in
  match rev rs with
  | (c0, v, ops) :: rest => if c0 =? c then rev ((c0, v, ops ++ [o]) :: rest) else rs ++ [(c, last, [o])]
  | [] => [(c, last, [o])]
  end.

Lemma render_app rs1 rs2 pos :
  render (rs1 ++ rs2) pos = render rs1 pos ++ render rs2 (pos + length (concat (map run_bytes rs1))).
Proof.
  revert pos. induction rs1 as [|r rs1 IH]; intro pos; cbn [app render map concat length].
  - rewrite Nat.add_0_r. reflexivity.
  - rewrite IH. rewrite app_length. rewrite Nat.add_assoc. reflexivity.
Qed.

Lemma rep_empty : Rep empty [].
Proof. repeat split; constructor. Qed.

Lemma rep_put b rs o :
  Rep b rs -> wf_op o -> blast b < M32 -> Rep (put b o) (add_op rs (blast b) o) /\ blast (put b o) < M32.
Proof.
  intros (Hb & Hh & Hok & Hl) Ho Hlast. split; [|cbn; apply Ho].
  unfold add_op, put. destruct (rev rs) as [|[[c0 v] ops] rest] eqn:Erev.
  - (* first op *)
    assert (rs = []) by (apply (f_equal (@rev run)) in Erev; rewrite rev_involutive in Erev; exact Erev). subst rs.
    destruct Hl as [Hc Hl0]. rewrite Hc. cbn [same_chunk].
    cbn in Hb, Hh. rewrite Hb, Hh. cbn [app length].
    refine (conj _ (conj _ (conj _ _))); cbn.
    + rewrite !app_nil_r. reflexivity.
    + reflexivity.
    + constructor; [|constructor]. cbn. refine (conj Hlast (conj _ _)); [discriminate|]. constructor; [split; [exact Ho|reflexivity]|constructor].
    + split; [reflexivity|reflexivity].
  - assert (Hrs : rs = rev rest ++ [(c0, v, ops)]).
    { apply (f_equal (@rev run)) in Erev. rewrite rev_involutive in Erev. exact Erev. }
    destruct Hl as [Hc Hl0]. rewrite Hc. cbn [same_chunk].
    assert (Hok' : Forall run_ok (rev rest) /\ run_ok (c0, v, ops)).
    { rewrite Hrs in Hok. apply Forall_app in Hok. destruct Hok as [H1 H2]. inversion H2; subst. split; assumption. }
    destruct Hok' as [Hokr (Hv & Hne & Hf)].
    destruct (c0 =? chunk_of (ooff o)) eqn:E.
    + (* same run *)
      apply N.eqb_eq in E.
      cbn [rev]. refine (conj _ (conj _ (conj _ _))); cbn [bbytes bhdrs bchunk blast].
      * rewrite Hb, Hrs. rewrite !map_app, !concat_app. cbn [map concat run_bytes]. rewrite !app_nil_r.
        rewrite enc_run_snoc, <- Hl0. rewrite app_assoc. reflexivity.
      * rewrite Hh, Hrs. rewrite !render_app. cbn [render]. reflexivity.
      * apply Forall_app; split; [exact Hokr|]. constructor; [|constructor].
        cbn. refine (conj Hv (conj _ _)); [destruct ops; discriminate|].
        apply Forall_app; split; [exact Hf|]. constructor; [split; [exact Ho|symmetry; exact E]|constructor].
      * rewrite rev_app_distr. cbn [rev app]. split; [f_equal; symmetry; exact E|].
        unfold last_off. rewrite rev_app_distr. reflexivity.
    + (* new run *)
      refine (conj _ (conj _ (conj _ _))); cbn [bbytes bhdrs bchunk blast].
      * rewrite Hb. rewrite map_app, concat_app. cbn [map concat run_bytes enc_run]. rewrite !app_nil_r. reflexivity.
      * rewrite Hh. rewrite render_app. cbn [render run_chunk]. rewrite <- Hb. reflexivity.
      * apply Forall_app; split; [exact Hok|]. constructor; [|constructor].
        cbn. refine (conj Hlast (conj _ _)); [discriminate|]. constructor; [split; [exact Ho|reflexivity]|constructor].
      * rewrite rev_app_distr. cbn [rev app]. split; reflexivity.
Qed.

Lemma add_op_ops rs last o : concat (map run_ops (add_op rs last o)) = concat (map run_ops rs) ++ [o].
Proof.
  unfold add_op. destruct (rev rs) as [|[[c0 v] ops] rest] eqn:Erev.
  - assert (rs = []) by (apply (f_equal (@rev run)) in Erev; rewrite rev_involutive in Erev; exact Erev). subst. reflexivity.
  - assert (Hrs : rs = rev rest ++ [(c0, v, ops)]).
    { apply (f_equal (@rev run)) in Erev. rewrite rev_involutive in Erev. exact Erev. }
    destruct (c0 =? chunk_of (ooff o)).
    + cbn [rev]. rewrite Hrs, !map_app, !concat_app. cbn. rewrite !app_nil_r, app_assoc. reflexivity.
    + rewrite map_app, concat_app. cbn. reflexivity.
Qed.

Theorem range_put_all ops c :
  Forall wf_op ops ->
  range (fold_left put ops empty) c = filter (fun o => chunk_of (ooff o) =? c) ops.
Proof.
  intro Hwf.
  assert (H : exists rs, Rep (fold_left put ops empty) rs /\ concat (map run_ops rs) = ops /\ blast (fold_left put ops empty) < M32).
  { revert Hwf. induction ops as [|o ops IH] using rev_ind; intro Hwf.
    - exists []. split; [apply rep_empty|split; [reflexivity|cbn; unfold M32; lia]].
    - apply Forall_app in Hwf. destruct Hwf as [Hwf Ho]. inversion Ho; subst.
      destruct (IH Hwf) as (rs & HR & Hc & Hl). rewrite fold_left_app. cbn [fold_left].
      destruct (rep_put _ _ o HR) as [HR' Hl']; [assumption|assumption|].
      exists (add_op rs (blast (fold_left put ops empty)) o). split; [exact HR'|]. split; [|exact Hl'].
      rewrite add_op_ops, Hc. reflexivity. }
  destruct H as (rs & (Hb & Hh & Hok & _) & Hc & _).
  unfold range. rewrite Hb, Hh. pose proof (range_render rs [] c Hok) as HR. cbn [length app] in HR. rewrite HR. rewrite concat_runs_filter by assumption.
  rewrite Hc. reflexivity.
Qed.
