(* The casts of the int and uint columns (Check.col_int / col_uint: Reader.Int / Reader.Uint widen a
   2- or 4-byte entry written through SetAny / SetMany) meet the side conditions of the theorems:
   they are idempotent ([cast_idem], needed by CastFixed / C07), and the index rules the harness
   registers on those columns do not tell an entry from its widened form ([cast_invariant], needed
   by IdxOK / C03): a signed comparison on an int column, an unsigned one on a uint column. *)
From stdpp Require Import gmap.
From Coq Require Import ZifyN ZifyBool.
From ColumnV Require Import GenConsts Bytes Store StoreProofs StoreProofs3 Check.
Local Open Scope N_scope.

Lemma pow16 : 2 ^ 16 = 65536. Proof. reflexivity. Qed.
Lemma pow32 : 2 ^ 32 = 4294967296. Proof. reflexivity. Qed.
Lemma pow64 : 2 ^ 64 = 18446744073709551616. Proof. reflexivity. Qed.
Lemma pow15 : 2 ^ (16 - 1) = 32768. Proof. reflexivity. Qed.
Lemma pow31 : 2 ^ (32 - 1) = 2147483648. Proof. reflexivity. Qed.
Lemma pow63 : 2 ^ (64 - 1) = 9223372036854775808. Proof. reflexivity. Qed.
Lemma zpow64 : (2 ^ 64 = 18446744073709551616)%Z. Proof. reflexivity. Qed.

Lemma signed_view_widen v : signed_view (widen_signed v) = signed_view v.
Proof.
  destruct v as [|n|n|n|b]; try reflexivity.
  - unfold widen_signed. cbn [width_bits]. rewrite pow16. destruct (n <? 65536) eqn:E; [|reflexivity].
    unfold signed_view. cbn [width_bits raw]. rewrite pow16, pow15, pow64, pow63, zpow64.
    cbn [N.eqb Pos.eqb]. destruct (n <? 32768) eqn:E1.
    + rewrite Z.mod_small by lia. rewrite Z2N.id by lia.
      assert (H : (Z.to_N (Z.of_N n) <? 9223372036854775808) = true) by lia. rewrite H. lia.
    + assert (Hm : ((Z.of_N n - Z.of_N 65536) mod 18446744073709551616 = Z.of_N n - 65536 + 18446744073709551616)%Z).
      { symmetry. apply (Z.mod_unique_pos _ _ (-1)); lia. }
      rewrite Hm.
      assert (H : (Z.to_N (Z.of_N n - 65536 + 18446744073709551616) <? 9223372036854775808) = false) by lia.
      rewrite H. lia.
  - unfold widen_signed. cbn [width_bits]. rewrite pow32. destruct (n <? 4294967296) eqn:E; [|reflexivity].
    unfold signed_view. cbn [width_bits raw]. rewrite pow32, pow31, pow64, pow63, zpow64.
    cbn [N.eqb Pos.eqb]. destruct (n <? 2147483648) eqn:E1.
    + rewrite Z.mod_small by lia. rewrite Z2N.id by lia.
      assert (H : (Z.to_N (Z.of_N n) <? 9223372036854775808) = true) by lia. rewrite H. lia.
    + assert (Hm : ((Z.of_N n - Z.of_N 4294967296) mod 18446744073709551616 = Z.of_N n - 4294967296 + 18446744073709551616)%Z).
      { symmetry. apply (Z.mod_unique_pos _ _ (-1)); lia. }
      rewrite Hm.
      assert (H : (Z.to_N (Z.of_N n - 4294967296 + 18446744073709551616) <? 9223372036854775808) = false) by lia.
      rewrite H. lia.
Qed.

Lemma widen_signed_shape v : widen_signed v = v ∨ ∃ m, widen_signed v = V8 m.
Proof.
  destruct v as [|n|n|n|b]; try (by left); unfold widen_signed; destruct (n <? _); (by left) || (right; by eexists).
Qed.
Lemma widen_signed_idem v : widen_signed (widen_signed v) = widen_signed v.
Proof. destruct (widen_signed_shape v) as [H|[m H]]; rewrite H; [exact H|reflexivity]. Qed.

Lemma widen_unsigned_idem v : widen_unsigned (widen_unsigned v) = widen_unsigned v.
Proof. by destruct v. Qed.

Lemma raw_widen_unsigned v : raw (widen_unsigned v) = raw v.
Proof. by destruct v. Qed.

Theorem col_int_cast_idem m : cast_idem (col_int m).
Proof. intro v. apply widen_signed_idem. Qed.
Theorem col_uint_cast_idem m : cast_idem (col_uint m).
Proof. intro v. apply widen_unsigned_idem. Qed.
Theorem col_id_cast_idem c : ccast c = id → cast_idem c.
Proof. intros H v. by rewrite H. Qed.

(* index rules as the generated cases register them (Check.v, StIndex) *)
Theorem signed_rule_invariant m c k : cast_invariant (col_int m) (λ _ v, eval_pred (PSigned c k) v).
Proof. intros i v. cbn [eval_pred col_int ccast]. by rewrite signed_view_widen. Qed.
Theorem unsigned_rule_invariant m c k : cast_invariant (col_uint m) (λ _ v, eval_pred (PUnsigned c k) v).
Proof. intros i v. cbn [eval_pred col_uint ccast]. by rewrite raw_widen_unsigned. Qed.
Theorem id_rule_invariant col rule : ccast col = id → cast_invariant col rule.
Proof. intros H i v. by rewrite H. Qed.
Theorem id_keeps_bytes col : ccast col = id → cast_keeps_bytes col.
Proof. intros H v. by rewrite H. Qed.

(* the casts at work: int16(-5) handed to an int column is stored as the 64-bit -5; 65531 handed
   to a uint column as uint16 stays 65531 *)
Example widen_examples :
  widen_signed (V2 65531) = V8 18446744073709551611 ∧ widen_unsigned (V2 65531) = V8 65531 ∧
  widen_signed (V4 7) = V8 7 ∧ widen_signed (V8 9) = V8 9.
Proof. vm_compute. done. Qed.
