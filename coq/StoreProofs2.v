(* Theorems about transactions in flight: rollback leaves no trace (C02), Count equals the
   number of occupied offsets (C11), the change stream of a commit (C15). *)
From stdpp Require Import gmap sorting.
From ColumnV Require Import GenConsts Bytes Store StoreProofs.
Local Open Scope N_scope.

(* ------------------------------------------------------------------------------------- *)
(* statements never touch committed storage                                                *)

Definition same_store (a b : coll) : Prop :=
  cols a = cols b ∧ comps a = comps b ∧ pk a = pk b ∧ keys a = keys b ∧ nextid a = nextid b ∧ emitted a = emitted b.

Lemma same_store_refl a : same_store a a. Proof. done. Qed.
Lemma same_store_trans a b c : same_store a b → same_store b c → same_store a c.
Proof. intros (A1&A2&A3&A4&A5&A6) (B1&B2&B3&B4&B5&B6). unfold same_store. by rewrite A1, A2, A3, A4, A5, A6. Qed.

Lemma do_insert_store s t off ws fail : same_store (fst (do_insert s t off ws fail)) s.
Proof. unfold do_insert. destruct fail; done. Qed.

Lemma do_term_store s t tm : same_store (fst (fst (do_term s t tm))) s.
Proof. unfold do_term. destruct tm; try done; repeat case_match; done. Qed.

Lemma do_stmt_store s t st : same_store (fst (fst (do_stmt s t st))) s.
Proof.
  destruct st; cbn [do_stmt]; try done.
  - destruct (do_insert s t off ws fail) eqn:E. cbn. pose proof (do_insert_store s t off ws fail) as HS. by rewrite E in HS.
  - by case_match.
  - case_match; [done|]. destruct (do_insert s t off ws fail) eqn:E. cbn. pose proof (do_insert_store s t off ws fail) as HS. by rewrite E in HS.
  - case_match; [done|]. destruct (do_insert s t off ws fail) eqn:E. cbn. pose proof (do_insert_store s t off ws fail) as HS. by rewrite E in HS.
  - by case_match.
  - by case_match.
  - apply do_term_store.
Qed.

Lemma do_stmts_store s t l : same_store (fst (fst (do_stmts s t l))) s.
Proof.
  revert s t; induction l as [|st r IH]; intros s t; [done|].
  cbn [do_stmts]. destruct (do_stmt s t st) as [[s1 t1] x] eqn:E1.
  destruct (do_stmts s1 t1 r) as [[s2 t2] xs] eqn:E2. cbn.
  pose proof (do_stmt_store s t st) as H1. rewrite E1 in H1. cbn in H1.
  pose proof (IH s1 t1) as H2. rewrite E2 in H2. cbn in H2.
  by eapply same_store_trans.
Qed.

(* ------------------------------------------------------------------------------------- *)
(* C02 / C11: the fill list while a transaction is in flight                               *)

(* every insert of the run received an offset that was free at that moment *)
Definition fresh_res (r : res) : Prop := match r with RIns _ _ false => False | _ => True end.

(* relation between the state at the start of the transaction and the state in flight *)
Record inflight (s0 s : coll) (t : txn) : Prop := {
  if_fill : fill s = fill s0 ∪ list_to_set (tres t);
  if_disj : ∀ i, i ∈ tres t → i ∉ fill s0;
  if_nodup : NoDup (tres t);
  if_count : count s = N.of_nat (size (fill s));
}.

Lemma tres_do_writes s off t ws : tres (do_writes s off t ws) = tres t.
Proof.
  unfold do_writes. revert t. induction ws as [|w r IH]; intro t; [done|]. cbn [foldl]. rewrite IH.
  unfold do_write, push. destruct w; try done; repeat case_match; done.
Qed.

Lemma size_union_singleton (X : gset N) i : i ∉ X → size ({[i]} ∪ X) = S (size X).
Proof. intro H. rewrite size_union by set_solver. by rewrite size_singleton. Qed.

Lemma do_insert_inflight s0 s t off ws fail :
  inflight s0 s t → off ∉ fill s →
  inflight s0 (fst (do_insert s t off ws fail)) (snd (do_insert s t off ws fail)).
Proof.
  intros [F D ND C] Hfresh. unfold do_insert. rewrite ?sadd_union, ?sdel_diff. destruct fail; cbn [fst snd].
  - (* the failing insert gives its offset back at once *)
    constructor; cbn [fill count set_fill].
    + rewrite tres_do_writes. cbn [tres push_row]. rewrite F. set_solver.
    + rewrite tres_do_writes. exact D.
    + rewrite tres_do_writes. exact ND.
    + done.
  - constructor; cbn [fill count set_fill tres].
    + rewrite tres_do_writes. cbn [tres push_row]. rewrite F, list_to_set_app_L. set_solver.
    + rewrite tres_do_writes. cbn [tres push_row]. intros i [Hi|Hi]%elem_of_app; [by apply D|].
      apply elem_of_list_singleton in Hi. subst i. rewrite F in Hfresh. set_solver.
    + rewrite tres_do_writes. cbn [tres push_row]. apply NoDup_app. split; [exact ND|]. split; [|apply NoDup_singleton].
      intros i Hi Hi2. apply elem_of_list_singleton in Hi2. subst i. rewrite F in Hfresh. set_solver.
    + rewrite C, size_union_singleton by done. lia.
Qed.

Lemma tres_misc s t :
  tres (initialize s t) = tres t ∧ (∀ x, tres (set_sel t x) = tres t) ∧ (∀ o, tres (push_row t o) = tres t)
  ∧ (∀ c o, tres (push t c o) = tres t).
Proof. unfold initialize. repeat split; try done. by case_match. Qed.

Lemma do_term_inflight s0 s t tm :
  inflight s0 s t → inflight s0 (fst (fst (do_term s t tm))) (snd (fst (do_term s t tm))).
Proof.
  intros [F D ND C].
  assert (Hi : tres (initialize s t) = tres t) by apply tres_misc.
  assert (G : ∀ (l : list N) (f : txn → N → txn) t0, (∀ t1 i, tres (f t1 i) = tres t1) → tres (foldl f t0 l) = tres t0).
  { clear. intros l f. induction l as [|x l IH]; intros t0 Hf; [done|]. cbn. rewrite IH by done. apply Hf. }
  destruct tm; cbn [do_term fst snd]; try (constructor; rewrite ?Hi; done).
  all: try (repeat case_match; constructor; rewrite ?Hi; done).
  all: constructor; try done; rewrite G, ?Hi; try done.
  all: intros t1 i; destruct del; cbn [tres push_row]; by rewrite ?tres_do_writes.
Qed.

Lemma do_stmt_inflight s0 s t st :
  inflight s0 s t → fresh_res (snd (do_stmt s t st)) →
  inflight s0 (fst (fst (do_stmt s t st))) (snd (fst (do_stmt s t st))).
Proof.
  intros I Hf. pose proof I as [F D ND C].
  assert (Hi : tres (initialize s t) = tres t) by apply tres_misc.
  destruct st; cbn [do_stmt] in *.
  - destruct (do_insert s t off ws fail) as [s' t'] eqn:E. cbn [fst snd] in *.
    pose proof (do_insert_inflight s0 s t off ws fail I) as HI. rewrite E in HI. apply HI.
    destruct (decide (off ∉ fill s)); [done|]. rewrite bool_decide_eq_false_2 in Hf by done. done.
  - cbn. constructor; rewrite ?tres_do_writes; done.
  - done.
  - case_match; cbn; constructor; cbn [tres push_row]; rewrite ?Hi; done.
  - destruct (keys s !! k); [done|].
    destruct (do_insert s t off ws fail) as [s' t'] eqn:E. cbn [fst snd] in *.
    pose proof (do_insert_inflight s0 s t off ws fail I) as HI. rewrite E in HI. cbn in HI.
    assert (Hfr : off ∉ fill s).
    { destruct (decide (off ∉ fill s)); [done|]. rewrite bool_decide_eq_false_2 in Hf by done. done. }
    destruct (HI Hfr) as [F' D' N' C']. unfold put_key. case_match; constructor; done.
  - destruct (keys s !! k).
    + cbn. constructor; rewrite ?tres_do_writes; done.
    + destruct (do_insert s t off ws fail) as [s' t'] eqn:E. cbn [fst snd] in *.
      pose proof (do_insert_inflight s0 s t off ws fail I) as HI. rewrite E in HI. cbn in HI.
      assert (Hfr : off ∉ fill s).
      { destruct (decide (off ∉ fill s)); [done|]. rewrite bool_decide_eq_false_2 in Hf by done. done. }
      destruct (HI Hfr) as [F' D' N' C']. unfold put_key. case_match; constructor; done.
  - case_match; cbn; [constructor; rewrite ?tres_do_writes; done|done].
  - case_match; cbn; [constructor; done|done].
  - cbn. unfold do_fop. repeat case_match; constructor; cbn [tres set_sel]; rewrite ?Hi; done.
  - by apply do_term_inflight.
Qed.

Lemma do_stmts_inflight s0 s t l :
  inflight s0 s t → Forall fresh_res (snd (do_stmts s t l)) →
  inflight s0 (fst (fst (do_stmts s t l))) (snd (fst (do_stmts s t l))).
Proof.
  revert s t; induction l as [|st r IH]; intros s t I Hf; [done|].
  cbn [do_stmts] in *. destruct (do_stmt s t st) as [[s1 t1] x] eqn:E1.
  destruct (do_stmts s1 t1 r) as [[s2 t2] xs] eqn:E2. cbn [fst snd] in *.
  inversion Hf as [|? ? Hx Hxs]; subst.
  pose proof (do_stmt_inflight s0 s t st I) as H1. rewrite E1 in H1. cbn in H1.
  specialize (IH s1 t1 (H1 Hx)). rewrite E2 in IH. apply IH. exact Hxs.
Qed.

Lemma remove_all (X : gset N) (l : list N) : foldl (λ f i, sdel i f) X l = X ∖ list_to_set l.
Proof.
  revert X; induction l as [|i l IH]; intro X; cbn; [set_solver|]. rewrite IH, sdel_diff. set_solver.
Qed.

Definition Quiescent (s : coll) : Prop := count s = N.of_nat (size (fill s)).

(* C02: a transaction that rolls back leaves the collection EXACTLY as it was: same rows,
   values, indexes, key table, Count, change stream, id counter and fill list - hence the same
   behaviour of every later operation, inserts included *)
Theorem rollback_no_trace s body :
  Quiescent s →
  Forall fresh_res (snd (run_txn s body false)) →
  fst (run_txn s body false) = s.
Proof.
  intros Q Hf. unfold run_txn in *.
  destruct (do_stmts s txn0 body) as [[s1 t1] rs] eqn:E. cbn [fst snd] in *.
  assert (I0 : inflight s s txn0) by (constructor; cbn; [set_solver|set_solver|constructor|exact Q]).
  pose proof (do_stmts_inflight s s txn0 body I0) as I. rewrite E in I. cbn in I. destruct (I Hf) as [F D ND C].
  pose proof (do_stmts_store s txn0 body) as St. rewrite E in St. cbn in St.
  destruct St as (A1&A2&A3&A4&A5&A6).
  unfold rollback, set_fill. rewrite remove_all, F.
  assert (Hfill : (fill s ∪ list_to_set (tres t1)) ∖ list_to_set (tres t1) = fill s).
  { apply set_eq. intro i. rewrite elem_of_difference, elem_of_union, elem_of_list_to_set.
    split; [intros [[?|?] ?]; done|]. intro Hi. split; [by left|]. intro Hi2. by apply (D i). }
  rewrite Hfill, A1, A2, A3, A4, A5, A6, <- Q. by destruct s.
Qed.

(* C02, second sentence: while the transaction is in flight nothing of it is in committed
   storage: every read of values, indexes and keys returns what it returned before *)
Theorem inflight_invisible s body :
  same_store (fst (fst (do_stmts s txn0 body))) s.
Proof. apply do_stmts_store. Qed.

(* C11: Count equals the number of occupied offsets at every statement boundary *)
Theorem inflight_count s body :
  Quiescent s → Forall fresh_res (snd (do_stmts s txn0 body)) → Quiescent (fst (fst (do_stmts s txn0 body))).
Proof.
  intros Q Hf.
  assert (I0 : inflight s s txn0) by (constructor; cbn; [set_solver|set_solver|constructor|exact Q]).
  by destruct (do_stmts_inflight s s txn0 body I0 Hf).
Qed.

(* C11: distinct inserts of one transaction receive distinct offsets, none of them occupied *)
Theorem inserts_distinct s body :
  Quiescent s → Forall fresh_res (snd (do_stmts s txn0 body)) →
  NoDup (tres (snd (fst (do_stmts s txn0 body)))) ∧ ∀ i, i ∈ tres (snd (fst (do_stmts s txn0 body))) → i ∉ fill s.
Proof.
  intros Q Hf.
  assert (I0 : inflight s s txn0) by (constructor; cbn; [set_solver|set_solver|constructor|exact Q]).
  by destruct (do_stmts_inflight s s txn0 body I0 Hf).
Qed.

(* ------------------------------------------------------------------------------------- *)
(* C11: Count after a commit                                                               *)

Lemma commit_block_quiescent s t b : Quiescent s → Quiescent (commit_block s t b).
Proof.
  unfold Quiescent, commit_block; cbn [count fill]. intro Q.
  destruct (trow t) as [|o r] eqn:E; [|done]. rewrite filter_nil. cbn. exact Q.
Qed.

Theorem commit_quiescent s t : Quiescent s → Quiescent (commit s t).
Proof.
  unfold commit. generalize (dirty_blocks t). intro bs. revert s.
  induction bs as [|b bs IH]; intros s Q; [done|]. cbn. apply IH. by apply commit_block_quiescent.
Qed.

(* ------------------------------------------------------------------------------------- *)
(* C15: the change stream of one commit                                                    *)

Definition emits (s : coll) (t : txn) : bool := negb (bool_decide (trow t = [])) || has_updates s t.

Lemma commit_block_dom s t b : dom (cols (commit_block s t b)) = dom (cols s).
Proof.
  unfold commit_block; cbn [cols]. apply set_eq. intro c.
  rewrite !elem_of_dom, !lookup_fmap, map_lookup_imap. destruct (cols s !! c); cbn; split; intros [? ?]; eauto.
Qed.

Lemma commit_block_emits s t b : emits (commit_block s t b) t = emits s t.
Proof.
  unfold emits, has_updates. f_equal. apply bool_decide_ext. by setoid_rewrite commit_block_dom.
Qed.

Lemma commit_block_stream s t b :
  nextid (commit_block s t b) = nextid s + 1 ∧
  ∃ recs, emitted (commit_block s t b) = emitted s ++ recs ∧
          (if emits s t then rblk <$> recs = [b] ∧ rid <$> recs = [nextid s] else recs = []).
Proof.
  unfold commit_block; cbn [nextid emitted]. split; [done|]. fold (emits s t).
  destruct (emits s t).
  - eexists [_]. split; [done|]. done.
  - exists []. split; [by rewrite app_nil_r|done].
Qed.

Theorem commit_blocks_stream s t bs :
  nextid (commit_blocks s t bs) = nextid s + N.of_nat (length bs) ∧
  ∃ recs, emitted (commit_blocks s t bs) = emitted s ++ recs ∧
          (if emits s t
           then rblk <$> recs = bs ∧ rid <$> recs = (λ k, nextid s + N.of_nat k) <$> seq 0 (length bs)
           else recs = []).
Proof.
  revert s. induction bs as [|b bs IH]; intro s.
  - cbn. split; [lia|]. exists []. split; [by rewrite app_nil_r|]. by destruct (emits s t).
  - cbn [commit_blocks foldl]. fold (commit_blocks (commit_block s t b) t bs).
    destruct (commit_block_stream s t b) as (N1 & r1 & E1 & R1).
    destruct (IH (commit_block s t b)) as (N2 & r2 & E2 & R2).
    rewrite commit_block_emits in R2. split; [rewrite N2, N1; cbn [length]; lia|].
    exists (r1 ++ r2). split; [by rewrite E2, E1, app_assoc|].
    destruct (emits s t).
    + destruct R1 as [B1 I1], R2 as [B2 I2]. rewrite !fmap_app, B1, B2, I1, I2. split; [done|].
      cbn [length seq fmap list_fmap app]. f_equal; [f_equal; lia|].
      rewrite <- seq_shift, <- list_fmap_compose. apply list_fmap_ext. intros _ k _. cbn [compose]. rewrite N1. lia.
    + by rewrite R1, R2.
Qed.

Lemma dirty_blocks_sorted t : StronglySorted N.lt (dirty_blocks t).
Proof.
  destruct (dirty_blocks_spec t) as [ND _].
  assert (S : StronglySorted N.le (dirty_blocks t)).
  { unfold dirty_blocks. apply StronglySorted_merge_sort; [apply _|]. intros x y. lia. }
  revert ND S. generalize (dirty_blocks t). induction l as [|x l IH]; intros ND S; [constructor|].
  apply NoDup_cons in ND as [Hx ND]. inversion S as [|? ? S' F]; subst. constructor; [by apply IH|].
  rewrite Forall_forall in *. intros y Hy. specialize (F y Hy). assert (x ≠ y) by (intros ->; done). lia.
Qed.

(* C15: a committed transaction emits exactly one commit per block it touched, in ascending
   block order, with consecutive, hence distinct and increasing, ids - or nothing at all when it
   queued nothing; a rolled back transaction emits nothing (rollback_no_trace) *)
Theorem commit_stream s t :
  ∃ recs, emitted (commit s t) = emitted s ++ recs ∧
          (if emits s t
           then rblk <$> recs = dirty_blocks t ∧
                rid <$> recs = (λ k, nextid s + N.of_nat k) <$> seq 0 (length (dirty_blocks t))
           else recs = []) ∧
          StronglySorted N.lt (dirty_blocks t).
Proof.
  destruct (commit_blocks_stream s t (dirty_blocks t)) as (_ & recs & E & R).
  exists recs. split; [exact E|]. split; [exact R|apply dirty_blocks_sorted].
Qed.

(* a transaction that queued nothing emits nothing and draws no id *)
Theorem empty_txn_silent s t : all_ops t = [] → commit s t = s.
Proof.
  intro H. unfold commit, dirty_blocks. rewrite H. done.
Qed.
