(* L2: executable sequential model of Collection / Txn (collection.go, txn.go, txn_lock.go,
   column_*.go, snapshot.go) at the level of op lists.  Buffers are the op lists that L0's
   [range_put_all] licenses ("reading block b of a buffer = the ops written for block b, in
   write order").  The model follows the code's processing order (per dirty block ascending:
   column updates with merge rewriting, computed columns on the rewritten ops, then row
   markers), so that the theorems in StoreProofs.v connect this operational order to the
   declarative per-cell / per-set reading a user has.  No proofs in this file. *)
From stdpp Require Import gmap mapset sorting.
From ColumnV Require Import GenConsts Bytes.
Local Open Scope N_scope.

Definition bytes := list N.

Global Instance kind_eq_dec : EqDecision kind. Proof. solve_decision. Defined.
Global Instance value_eq_dec : EqDecision value. Proof. solve_decision. Defined.
Global Instance op_eq_dec : EqDecision op. Proof. solve_decision. Defined.

(* single-element set operations in O(log n) (the generic union / difference of gset walk the
   whole set); StoreProofs.v shows sadd i X = {[i]} ∪ X and sdel i X = X ∖ {[i]} *)
Definition sadd (i : N) (X : gset N) : gset N := let (m) := X in Mapset (<[i := ()]> m).
Definition sdel (i : N) (X : gset N) : gset N := let (m) := X in Mapset (delete i m).

(* block ("chunk") of an offset; the size is regenerated from txn_lock.go *)
Definition blk (i : N) : N := i / c_txn_lock_chunkSize.
Definition in_blk (b : N) (o : op) : bool := blk (ooff o) =? b.

(* ------------------------------------------------------------------------------------- *)
(* Columns                                                                                 *)

Record column := mkcol {
  cmerges : bool;                        (* does Apply handle Merge (numeric, string, record) *)
  cmrg : value -> value -> value;        (* merge function: stored value, delta -> new value *)
  czero : value;                         (* what a merge onto an absent cell starts from *)
  ccast : value -> value;                (* how Apply reads a put value: the identity, except for the
                                            int / uint columns, whose Reader.Int / Reader.Uint widen a
                                            2- or 4-byte entry (written through SetAny / SetMany) *)
  cells : gmap N value                   (* offset -> stored value; absent = no value *)
}.

Definition set_cells (c : column) (m : gmap N value) : column :=
  mkcol (cmerges c) (cmrg c) (czero c) (ccast c) m.

(* one op on one cell: the reading a user has.  [cast] is applied to whatever is stored; a merge
   result is already of the column's width (Reader.Swap* writes it at that width), so the cast
   only matters for puts *)
Definition cell_step (mrg : value -> value -> value) (zero : value) (merges : bool)
    (cast : value -> value) (v : option value) (o : op) : option value :=
  match ok o with
  | KPut => Some (cast (oval o))
  | KMerge => if merges then Some (cast (mrg (default zero v) (oval o))) else v
  | KDelete => None
  | _ => v
  end.

(* what the op looks like after the column consumed it (Reader.Swap*: a merge becomes a put
   of the merged result) *)
Definition rewrite_op (mrg : value -> value -> value) (zero : value) (merges : bool)
    (v : option value) (o : op) : op :=
  match ok o with
  | KMerge => if merges then mkop KPut (ooff o) (mrg (default zero v) (oval o)) else o
  | _ => o
  end.

Definition col_step (c : column) (o : op) : column * op :=
  let old := cells c !! ooff o in
  (set_cells c (match cell_step (cmrg c) (czero c) (cmerges c) (ccast c) old o with
                | Some v => <[ooff o := v]> (cells c)
                | None => delete (ooff o) (cells c) end),
   rewrite_op (cmrg c) (czero c) (cmerges c) old o).

Fixpoint col_apply (c : column) (ops : list op) : column * list op :=
  match ops with
  | [] => (c, [])
  | o :: r => let '(c1, o') := col_step c o in
              let '(c2, r') := col_apply c1 r in (c2, o' :: r')
  end.

(* the primary-key lookup table follows the key column (columnKey.Apply) *)
Definition vbytes_of (v : value) : bytes := match v with VB b => b | _ => [] end.
Definition drop_key (keys : gmap bytes N) (old : option value) (off : N) : gmap bytes N :=
  match old with
  | Some v => if decide (keys !! vbytes_of v = Some off) then delete (vbytes_of v) keys else keys
  | None => keys
  end.
Definition key_step (st : gmap N value * gmap bytes N) (o : op) : gmap N value * gmap bytes N :=
  let '(cs, keys) := st in
  match ok o with
  | KPut =>
      let keys1 := if decide (cs !! ooff o = Some (oval o)) then keys else drop_key keys (cs !! ooff o) (ooff o) in
      (<[ooff o := oval o]> cs, <[vbytes_of (oval o) := ooff o]> keys1)
  | KDelete => (delete (ooff o) cs, drop_key keys (cs !! ooff o) (ooff o))
  | _ => st
  end.
Definition key_apply (cs : gmap N value) (keys : gmap bytes N) (ops : list op) : gmap bytes N :=
  snd (foldl key_step (cs, keys) ops).

(* ------------------------------------------------------------------------------------- *)
(* Computed columns (column_index.go)                                                      *)

Inductive tevent := TStored (off : N) (v : value) | TDeleted (off : N).
Global Instance tevent_eq_dec : EqDecision tevent. Proof. solve_decision. Defined.

Inductive computed :=
| XIndex (rule : N -> value -> bool) (bits : gset N)
| XTrigger (log : list tevent)
| XSorted (tree : gmap N bytes).

Definition comp_step (x : computed) (o : op) : computed :=
  match x, ok o with
  | XIndex rule bits, KPut =>
      XIndex rule (if rule (ooff o) (oval o) then sadd (ooff o) bits else sdel (ooff o) bits)
  | XIndex rule bits, KDelete => XIndex rule (sdel (ooff o) bits)
  | XTrigger log, KPut => XTrigger (log ++ [TStored (ooff o) (oval o)])
  | XTrigger log, KDelete => XTrigger (log ++ [TDeleted (ooff o)])
  | XSorted tree, KPut => XSorted (<[ooff o := vbytes_of (oval o)]> tree)
  | XSorted tree, KDelete => XSorted (delete (ooff o) tree)
  | _, _ => x
  end.
Definition comp_apply (x : computed) (ops : list op) : computed := foldl comp_step x ops.

Record centry := mkcent { xid : N; xtarget : N; xstate : computed }.

(* ------------------------------------------------------------------------------------- *)
(* Collection and transaction                                                              *)

Record crec := mkcrec { rid : N; rblk : N; rrow : list op; rcols : list (N * list op) }.

Record coll := mkcoll {
  fill : gset N;                  (* occupied offsets: committed rows and reserved inserts *)
  count : N;                      (* the counter behind Count() *)
  cols : gmap N column;           (* value columns by id *)
  comps : list centry;            (* computed columns in registration order *)
  pk : option N;                  (* id of the key column *)
  keys : gmap bytes N;            (* key -> offset *)
  nextid : N;                     (* commit id counter *)
  emitted : list crec             (* change stream, oldest first *)
}.

Record txn := mktxn {
  tsel : option (gset N);         (* selection, once initialized *)
  tbufs : gmap N (list op);       (* per value column: queued ops in issue order *)
  trow : list op;                 (* row markers in issue order *)
  tres : list N                   (* offsets reserved by successful inserts *)
}.
Definition txn0 : txn := mktxn None ∅ [] [].

Definition set_fill (s : coll) (f : gset N) (n : N) : coll :=
  mkcoll f n (cols s) (comps s) (pk s) (keys s) (nextid s) (emitted s).

Definition buf (t : txn) (c : N) : list op := default [] (tbufs t !! c).
Definition push (t : txn) (c : N) (o : op) : txn :=
  mktxn (tsel t) (<[c := buf t c ++ [o]]> (tbufs t)) (trow t) (tres t).
Definition push_row (t : txn) (o : op) : txn :=
  mktxn (tsel t) (tbufs t) (trow t ++ [o]) (tres t).
Definition initialize (s : coll) (t : txn) : txn :=
  match tsel t with Some _ => t | None => mktxn (Some (fill s)) (tbufs t) (trow t) (tres t) end.
Definition sel_of (s : coll) (t : txn) : gset N := default (fill s) (tsel t).
Definition set_sel (t : txn) (x : gset N) : txn := mktxn (Some x) (tbufs t) (trow t) (tres t).

(* ---- writes issued through a row cursor ---- *)
Inductive write :=
| WPut (c : N) (v : value)
| WMerge (c : N) (v : value)
| WBool (c : N) (b : bool)
| WSetKey (k : bytes).

Definition do_write (s : coll) (off : N) (t : txn) (w : write) : txn :=
  match w with
  | WPut c v => push t c (mkop KPut off v)
  | WMerge c v => push t c (mkop KMerge off v)
  | WBool c true => push t c (mkop KPut off V0)
  | WBool c false => push t c (mkop KDelete off V0)
  | WSetKey k =>
      match pk s with
      | Some p => if decide (keys s !! k = None) then push t p (mkop KPut off (VB k)) else t
      | None => t
      end
  end.
Definition do_writes (s : coll) (off : N) (t : txn) (ws : list write) : txn :=
  foldl (do_write s off) t ws.

(* ---- reads ---- *)
Definition read (s : coll) (c i : N) : option value :=
  match cols s !! c with Some col => cells col !! i | None => None end.

(* ---- selection algebra (txn.go With/Without/Union/WithUnion/With<T>) ---- *)
Inductive cmp := CLt | CGe | CEq.
Inductive vpred :=
| PSigned (c : cmp) (k : Z)       (* two's-complement view at the value's own width *)
| PUnsigned (c : cmp) (k : N)
| PStrEq (s : bytes)
| PLenGt (n : nat)
| PFloat (c : cmp) (k : Z)        (* the value read as a float (Reader.Float / WithFloat), integral values only *)
| PTrue.

Definition width_bits (v : value) : N := match v with V2 _ => 16 | V4 _ => 32 | V8 _ => 64 | _ => 0 end.
Definition raw (v : value) : N := match v with V2 n | V4 n | V8 n => n | _ => 0 end.
Definition signed_view (v : value) : Z :=
  let w := width_bits v in let n := raw v in
  if (w =? 0) then 0%Z else
  if n <? 2 ^ (w - 1) then Z.of_N n else (Z.of_N n - Z.of_N (2 ^ w))%Z.
(* IEEE-754 binary64 / binary32 bit patterns of INTEGERS (|z| < 2^53 resp. 2^24): the float
   columns are exercised with integral values, on which Go's float addition, comparison and
   conversion are exact; every other bit pattern (fractions, NaN, infinities, -0 apart) decodes to
   None and is only ever put and read back *)
Definition fenc_gen (mbits ebias : N) (z : Z) : N :=
  if (z =? 0)%Z then 0 else
  let m := Z.to_N (Z.abs z) in
  let e := N.log2 m in
  let mant := m * 2 ^ (mbits - e) - 2 ^ mbits in
  (if (z <? 0)%Z then 2 ^ (mbits + (if mbits =? 52 then 11 else 8)) else 0) + (e + ebias) * 2 ^ mbits + mant.
Definition fdec_gen (mbits ebias : N) (n : N) : option Z :=
  let ebits := if mbits =? 52 then 11 else 8 in
  let sign := n / 2 ^ (mbits + ebits) in
  let ef := (n / 2 ^ mbits) mod 2 ^ ebits in
  let mant := n mod 2 ^ mbits in
  if (ef =? 0) && (mant =? 0) then Some 0%Z else
  if (ef <? ebias) || (ebias + mbits <? ef) then None else
  let sh := mbits - (ef - ebias) in
  let m := 2 ^ mbits + mant in
  if m mod 2 ^ sh =? 0 then
    let a := Z.of_N (m / 2 ^ sh) in Some (if sign =? 0 then a else (- a)%Z)
  else None.
Definition fenc64 := fenc_gen 52 1023.
Definition fenc32 := fenc_gen 23 127.
Definition fdec (v : value) : option Z :=
  match v with V8 n => fdec_gen 52 1023 n | V4 n => fdec_gen 23 127 n | _ => None end.
Definition fenc_like (v : value) (z : Z) : value :=
  match v with V4 _ => V4 (fenc32 z) | _ => V8 (fenc64 z) end.

Definition cmpZ (c : cmp) (a b : Z) : bool :=
  match c with CLt => (a <? b)%Z | CGe => (b <=? a)%Z | CEq => (a =? b)%Z end.
Definition cmpN (c : cmp) (a b : N) : bool :=
  match c with CLt => a <? b | CGe => b <=? a | CEq => a =? b end.
Definition eval_pred (p : vpred) (v : value) : bool :=
  match p with
  | PSigned c k => cmpZ c (signed_view v) k
  | PUnsigned c k => cmpN c (raw v) k
  | PStrEq s => bool_decide (vbytes_of v = s)
  | PLenGt n => Nat.ltb n (length (vbytes_of v))
  | PFloat c k => match fdec v with Some z => cmpZ c z k | None => false end
  | PTrue => true
  end.

Definition find_comp (s : coll) (id : N) : option centry :=
  list_find (λ e, xid e = id) (comps s) ≫= λ p, Some (snd p).

(* the bitmap a name stands for in a filter: presence of a value column, bits of an index *)
Definition index_set (s : coll) (c : N) : option (gset N) :=
  match cols s !! c with
  | Some col => Some (dom (cells col))
  | None => match find_comp s c with
            | Some e => match xstate e with XIndex _ bits => Some bits | _ => Some ∅ end
            | None => None
            end
  end.

Inductive fop :=
| FWith (c : N) | FWithout (c : N) | FUnion (c : N) | FWithUnion (cs : list N)
| FPred (c : N) (p : vpred)
| FEmpty.                       (* a typed filter on a column of the wrong kind empties the selection *)

Definition pred_set (s : coll) (c : N) (p : vpred) : option (gset N) :=
  match cols s !! c with
  | Some col => Some (dom (filter (λ kv, eval_pred p (snd kv) = true) (cells col)))
  | None => None
  end.

Definition union_sets (s : coll) (cs : list N) : gset N :=
  foldr (λ c acc, default ∅ (index_set s c) ∪ acc) ∅ cs.

Definition do_fop (s : coll) (t : txn) (f : fop) : txn :=
  let first := bool_decide (tsel t = None) in
  let t := initialize s t in
  let x := sel_of s t in
  match f with
  | FWith c => set_sel t (match index_set s c with Some y => x ∩ y | None => ∅ end)
  | FWithout c => set_sel t (match index_set s c with Some y => x ∖ y | None => x end)
  | FUnion c => set_sel t (match index_set s c with
                           | Some y => if first then x ∩ y else x ∪ y | None => x end)
  | FWithUnion cs =>
      match cs with
      | [c] => set_sel t (match index_set s c with
                          | Some y => if first then x ∩ y else x ∪ y | None => x end)
      | _ => if first
             then (* Union(cs...): first existing-or-not column ANDs, the rest OR *)
               set_sel t (match cs with
                          | [] => x
                          | c :: r => (match index_set s c with Some y => x ∩ y | None => x end)
                                      ∪ union_sets s r end)
             else set_sel t (x ∩ union_sets s cs)
      end
  | FPred c p => set_sel t (match pred_set s c p with Some y => x ∩ y | None => ∅ end)
  | FEmpty => set_sel t ∅
  end.

(* ---- aggregates (column_numeric.go Sum/Min/Max over selection ∩ presence) ---- *)
Definition sorted_elems (x : gset N) : list N := merge_sort N.le (elements x).

Definition sel_values (s : coll) (t : txn) (c : N) : list value :=
  omap (λ i, read s c i) (sorted_elems (sel_of s t)).

Definition wrap_sum (l : list value) : N :=
  match l with
  | [] => 0
  | v :: _ => (foldr (λ v acc, raw v + acc) 0 l) mod 2 ^ (width_bits v)
  end.
Definition min_by (le : value -> value -> bool) (l : list value) : option value :=
  match l with [] => None | v :: r => Some (foldl (λ m x, if le x m then x else m) v r) end.

(* ---- statements ---- *)
Inductive terminal :=
| TCount
| TRange (ws : list write) (del : bool)
| TDeleteAll
| TSum (c : N)
| TMin (c : N) (signed : bool)
| TMax (c : N) (signed : bool)
| TFSum (c : N)                     (* float columns holding integral values: the result as float bits *)
| TFMin (c : N)
| TFMax (c : N)
| TAscend (x : N).

Inductive stmt :=
| SInsert (off : N) (ws : list write) (fail : bool)
| SAt (off : N) (ws : list write)
| SRead (off c : N)
| SDelete (off : N)
| SInsertKey (k : bytes) (off : N) (ws : list write) (fail : bool)
| SUpsertKey (k : bytes) (off : N) (ws : list write) (fail : bool)
| SQueryKey (k : bytes) (ws : list write)
| SDeleteKey (k : bytes)
| SFilter (f : fop)
| STerm (tm : terminal).

Inductive res :=
| RNone
| RIns (off : N) (err : bool) (fresh : bool)     (* fresh: the offset was free when handed out *)
| RBool (b : bool)
| RErr (e : bool)
| RCount (n : N)
| RList (l : list N)
| RVal (v : option value)
| RNum (n : N) (okk : bool).
Global Instance res_eq_dec : EqDecision res. Proof. solve_decision. Defined.

(* insert at the offset the allocator handed out (txn.go insert; collection.go next / free) *)
Definition do_insert (s : coll) (t : txn) (off : N) (ws : list write) (fail : bool) : coll * txn :=
  let s1 := set_fill s (sadd off (fill s)) (count s + 1) in
  let t1 := do_writes s1 off (push_row t (mkop KInsert off V0)) ws in
  if fail then
    let f2 := sdel off (fill s1) in (set_fill s1 f2 (N.of_nat (size f2)), t1)
  else (s1, mktxn (tsel t1) (tbufs t1) (trow t1) (tres t1 ++ [off])).

Definition put_key (s : coll) (t : txn) (off : N) (k : bytes) : txn :=
  match pk s with Some p => push t p (mkop KPut off (VB k)) | None => t end.

Definition sle (a b : value) : bool := (signed_view a <=? signed_view b)%Z.
Definition ule (a b : value) : bool := raw a <=? raw b.
Definition fle (a b : value) : bool :=
  match fdec a, fdec b with Some x, Some y => (x <=? y)%Z | _, _ => false end.

(* Go string order: bytewise lexicographic; ties broken by offset (the sorted index's comparator) *)
Fixpoint bytes_cmp (a b : bytes) : comparison :=
  match a, b with
  | [], [] => Eq
  | [], _ :: _ => Lt
  | _ :: _, [] => Gt
  | x :: a', y :: b' => match x ?= y with Eq => bytes_cmp a' b' | c => c end
  end.
Definition item_le (a b : bytes * N) : Prop :=
  match bytes_cmp (fst a) (fst b) with Lt => True | Gt => False | Eq => snd a <= snd b end.
Global Instance item_le_dec a b : Decision (item_le a b).
Proof. unfold item_le. destruct (bytes_cmp (fst a) (fst b)); apply _. Defined.

Definition ascend_list (s : coll) (t : txn) (x : N) : list N :=
  match find_comp s x with
  | Some e => match xstate e with
              | XSorted tree =>
                  let items := merge_sort item_le
                                          ((λ kv : N * bytes, (snd kv, fst kv)) <$> map_to_list tree) in
                  snd <$> filter (λ it : bytes * N, snd it ∈ sel_of s t) items
              | _ => []
              end
  | None => []
  end.

Definition do_term (s : coll) (t : txn) (tm : terminal) : coll * txn * res :=
  let t := initialize s t in
  let x := sel_of s t in
  match tm with
  | TCount => (s, t, RCount (N.of_nat (size x)))
  | TRange ws del =>
      let offs := sorted_elems x in
      let t' := foldl (λ t i, let t1 := do_writes s i t ws in
                               if del then push_row t1 (mkop KDelete i V0) else t1) t offs in
      (s, t', RList offs)
  | TDeleteAll => (s, foldl (λ t i, push_row t (mkop KDelete i V0)) t (sorted_elems x), RNone)
  | TSum c => (s, t, RNum (wrap_sum (sel_values s t c)) true)
  | TMin c sg => (s, t, match min_by (if sg then sle else ule) (sel_values s t c) with
                        | Some v => RNum (raw v) true | None => RNum 0 false end)
  | TMax c sg => (s, t, match min_by (λ a b, if sg then sle b a else ule b a) (sel_values s t c) with
                        | Some v => RNum (raw v) true | None => RNum 0 false end)
  | TFSum c => (s, t, let vs := sel_values s t c in
                      match vs, mapM fdec vs with
                      | v :: _, Some zs => RNum (raw (fenc_like v (foldr Z.add 0%Z zs))) true
                      | [], _ => RNum 0 true
                      | _, None => RNum 0 false
                      end)
  | TFMin c => (s, t, match min_by fle (sel_values s t c) with
                      | Some v => RNum (raw v) true | None => RNum 0 false end)
  | TFMax c => (s, t, match min_by (λ a b, fle b a) (sel_values s t c) with
                      | Some v => RNum (raw v) true | None => RNum 0 false end)
  | TAscend xi => (s, t, RList (ascend_list s t xi))
  end.

Definition do_stmt (s : coll) (t : txn) (st : stmt) : coll * txn * res :=
  match st with
  | SInsert off ws fail =>
      let '(s', t') := do_insert s t off ws fail in
      (s', t', RIns off fail (bool_decide (off ∉ fill s)))
  | SAt off ws => (s, do_writes s off t ws, RNone)
  | SRead off c => (s, t, RVal (read s c off))
  | SDelete off =>
      let t := initialize s t in
      if decide (off ∈ sel_of s t) then (s, push_row t (mkop KDelete off V0), RBool true)
      else (s, t, RBool false)
  | SInsertKey k off ws fail =>
      match keys s !! k with
      | Some _ => (s, t, RErr true)
      | None => let '(s', t') := do_insert s t off ws fail in
                (s', put_key s t' off k, RIns off fail (bool_decide (off ∉ fill s)))
      end
  | SUpsertKey k off ws fail =>
      match keys s !! k with
      | Some i => (s, do_writes s i t ws, RErr fail)
      | None => let '(s', t') := do_insert s t off ws fail in
                (s', put_key s t' off k, RIns off fail (bool_decide (off ∉ fill s)))
      end
  | SQueryKey k ws =>
      match keys s !! k with
      | Some i => (s, do_writes s i t ws, RErr false)
      | None => (s, t, RErr true)
      end
  | SDeleteKey k =>
      match keys s !! k with
      | Some i => (s, push_row t (mkop KDelete i V0), RErr false)
      | None => (s, t, RErr true)
      end
  | SFilter f => (s, do_fop s t f, RNone)
  | STerm tm => do_term s t tm
  end.

Fixpoint do_stmts (s : coll) (t : txn) (l : list stmt) : coll * txn * list res :=
  match l with
  | [] => (s, t, [])
  | st :: r => let '(s1, t1, x) := do_stmt s t st in
               let '(s2, t2, xs) := do_stmts s1 t1 r in (s2, t2, x :: xs)
  end.

(* ------------------------------------------------------------------------------------- *)
(* Commit and rollback (txn.go:500-617 with the block loop of txn_lock.go:78)              *)

Definition mark_step (f : gset N) (o : op) : gset N :=
  match ok o with KInsert => sadd (ooff o) f | KDelete => sdel (ooff o) f | _ => f end.

Definition all_ops (t : txn) : list op := trow t ++ concat (snd <$> map_to_list (tbufs t)).
Definition dirty_blocks (t : txn) : list N :=
  merge_sort N.le (elements (list_to_set ((λ o, blk (ooff o)) <$> all_ops t) : gset N)).

(* is there a non-empty buffer for a column that exists (commitUpdates' [updated]) *)
Definition has_updates (s : coll) (t : txn) : bool :=
  bool_decide (∃ c, c ∈ dom (cols s) ∧ buf t c ≠ []).

Definition commit_block (s : coll) (t : txn) (b : N) : coll :=
  (* 1. column updates, each column rewriting its merges; computed columns see the rewrite *)
  let upd : gmap N (column * list op) :=
    map_imap (λ c col, Some (col_apply col (filter (λ o, in_blk b o = true) (buf t c)))) (cols s) in
  let cols1 := fst <$> upd in
  let rw (c : N) : list op := default [] (snd <$> upd !! c) in
  let comps1 := (λ e, mkcent (xid e) (xtarget e) (comp_apply (xstate e) (rw (xtarget e)))) <$> comps s in
  let keys1 := match pk s with
               | Some p => match cols s !! p with
                           | Some col => key_apply (cells col) (keys s) (filter (λ o, in_blk b o = true) (buf t p))
                           | None => keys s end
               | None => keys s end in
  (* 2. row markers: fill list, then the deletes reach every column *)
  let mops := filter (λ o, in_blk b o = true) (trow t) in
  let fill2 := foldl mark_step (fill s) mops in
  let count2 := match trow t with [] => count s | _ => N.of_nat (size fill2) end in
  let keys2 := match pk s with
               | Some p => match cols1 !! p with
                           | Some col => key_apply (cells col) keys1 mops
                           | None => keys1 end
               | None => keys1 end in
  let cols2 := (λ col, fst (col_apply col mops)) <$> cols1 in
  let comps2 := (λ e, mkcent (xid e) (xtarget e) (comp_apply (xstate e) mops)) <$> comps1 in
  (* 3. emission *)
  let emit := negb (bool_decide (trow t = [])) || has_updates s t in
  let rec := mkcrec (nextid s) b mops
                    (filter (λ p, snd p ≠ []) ((λ c, (c, rw c)) <$> merge_sort N.le (elements (dom (cols s))))) in
  mkcoll fill2 count2 cols2 comps2 (pk s) keys2 (nextid s + 1)
         (if emit then emitted s ++ [rec] else emitted s).

Definition commit_blocks (s : coll) (t : txn) (bs : list N) : coll := foldl (λ s b, commit_block s t b) s bs.
Definition commit (s : coll) (t : txn) : coll := commit_blocks s t (dirty_blocks t).

Definition rollback (s : coll) (t : txn) : coll :=
  let f := foldl (λ f i, sdel i f) (fill s) (tres t) in
  set_fill s f (N.of_nat (size f)).

Definition run_txn (s : coll) (body : list stmt) (commitp : bool) : coll * list res :=
  let '(s1, t1, rs) := do_stmts s txn0 body in
  ((if commitp then commit s1 t1 else rollback s1 t1), rs).

(* ------------------------------------------------------------------------------------- *)
(* Schema changes                                                                          *)

Definition coll0 : coll := mkcoll ∅ 0 ∅ [] None ∅ 1 [].

Definition create_column (s : coll) (id : N) (col : column) (is_key : bool) : coll :=
  match cols s !! id with
  | Some _ => s
  | None => mkcoll (fill s) (count s) (<[id := col]> (cols s)) (comps s)
                   (if is_key then match pk s with None => Some id | p => p end else pk s)
                   (keys s) (nextid s) (emitted s)
  end.

(* Collection.DropColumn: the column leaves the registry (collection.go:208, columns.DeleteColumn);
   exercised on columns no index, trigger or sorted index hangs off and that are not the key *)
Definition drop_column (s : coll) (id : N) : coll :=
  mkcoll (fill s) (count s) (delete id (cols s)) (comps s) (pk s) (keys s) (nextid s) (emitted s).

Definition build_computed (s : coll) (target : N) (x : computed) : computed :=
  let cs := match cols s !! target with Some col => cells col | None => ∅ end in
  match x with
  | XIndex rule _ => XIndex rule (dom (filter (λ kv, rule (fst kv) (snd kv) = true) cs))
  | XTrigger log => XTrigger log
  | XSorted _ => XSorted (vbytes_of <$> cs)
  end.

Definition create_computed (s : coll) (id target : N) (x : computed) : coll :=
  match cols s !! target with
  | None => s
  | Some _ =>
      mkcoll (fill s) (count s) (cols s) (comps s ++ [mkcent id target (build_computed s target x)])
             (pk s) (keys s) (nextid s) (emitted s)
  end.

Definition drop_computed (s : coll) (id : N) : coll :=
  mkcoll (fill s) (count s) (cols s) (filter (λ e, xid e ≠ id) (comps s))
         (pk s) (keys s) (nextid s) (emitted s).

(* ------------------------------------------------------------------------------------- *)
(* Replay of a logged commit (snapshot.go Replay) and snapshot / restore of the state       *)

Definition txn_of_rec (r : crec) : txn :=
  mktxn None (list_to_map (rcols r)) (rrow r) [].
Definition replay (s : coll) (r : crec) : coll := commit_blocks s (txn_of_rec r) [rblk r].

(* per block: the Insert markers of the fill list and one Put per present value *)
Definition snapshot_block (s : coll) (b : N) : crec :=
  mkcrec 0 b ((λ i, mkop KInsert i V0) <$> filter (λ i, blk i = b) (sorted_elems (fill s)))
         ((λ c, (c, match cols s !! c with
                    | Some col => (λ i, mkop KPut i (default V0 (cells col !! i)))
                                    <$> filter (λ i, blk i = b) (sorted_elems (dom (cells col)))
                    | None => [] end)) <$> merge_sort N.le (elements (dom (cols s)))).
(* Collection.chunks(): up to the block of the last live row; a collection whose rows were all
   deleted still writes its first block (fill.Max() of an all-zero fill list is 0), which matters
   only for values left on rows that are not live (a write to a row another transaction deleted) *)
Definition nblocks (s : coll) : N :=
  match sorted_elems (fill s) with [] => 1 | l => blk (List.last l 0) + 1 end.
Definition snapshot (s : coll) : list crec :=
  (λ b, snapshot_block s (N.of_nat b)) <$> seq 0 (N.to_nat (nblocks s)).
Definition restore (fresh : coll) (snap : list crec) : coll := foldl replay fresh snap.

(* ------------------------------------------------------------------------------------- *)
(* What an observer can see                                                                *)

Definition col_ids (s : coll) : list N := merge_sort N.le (elements (dom (cols s))).
Definition row_with (s : coll) (ids : list N) (i : N) : list (N * value) :=
  omap (λ c, (λ v, (c, v)) <$> read s c i) ids.
Definition row_of (s : coll) (i : N) : list (N * value) := row_with s (col_ids s) i.
Definition idx_of (s : coll) (i : N) : list N :=
  omap (λ e, match xstate e with
             | XIndex _ bits => if decide (i ∈ bits) then Some (xid e) else None
             | _ => None end) (comps s).
Definition dump (s : coll) : list (N * (list (N * value) * list N)) :=
  let ids := col_ids s in
  (λ i, (i, (row_with s ids i, idx_of s i))) <$> sorted_elems (fill s).
Definition trig_log (s : coll) (id : N) : list tevent :=
  match find_comp s id with Some e => match xstate e with XTrigger l => l | _ => [] end | None => [] end.

(* ------------------------------------------------------------------------------------- *)
(* The side conditions under which the invariant theorems (StoreProofs6.v) speak about a
   transaction, as booleans, so that Check.v can evaluate them on every recorded history:
   every insert got a free offset, the marker buffer holds only inserts and deletes, every
   put / merge goes to an occupied offset. *)
Definition is_marker (o : op) : bool := match ok o with KInsert | KDelete => true | _ => false end.
Definition writes_in_fill (s : coll) (t : txn) : bool :=
  bool_decide (map_Forall (λ _ ops, Forall (λ o, (ok o = KPut ∨ ok o = KMerge) → ooff o ∈ fill s) ops) (tbufs t)).
Definition res_fresh (r : res) : bool := match r with RIns _ _ false => false | _ => true end.
Definition txn_wf (s : coll) (body : list stmt) : bool :=
  let '(s1, t1, rs) := do_stmts s txn0 body in
  forallb res_fresh rs && forallb is_marker (trow t1) && writes_in_fill s1 t1.

(* admissibility of the key operations (C12): a put must not hand a row a key another row holds,
   judged in the state each operation - and each block's commit - meets *)
Definition key_op_okb (cs : gmap N value) (o : op) : bool :=
  match ok o with
  | KPut => match oval o with VB _ => true | _ => false end &&
            bool_decide (map_Forall (λ j v, j = ooff o ∨ v ≠ oval o) cs)
  | _ => true
  end.

Fixpoint key_ops_okb (cs : gmap N value) (keys : gmap bytes N) (ops : list op) : bool :=
  match ops with
  | [] => true
  | o :: r => key_op_okb cs o && key_ops_okb (fst (key_step (cs, keys) o)) (snd (key_step (cs, keys) o)) r
  end.

(* the key operations of every dirty block, each judged in the state its block's commit meets *)
Definition block_keys_okb (s : coll) (t : txn) (b : N) : bool :=
  match pk s with
  | Some p => match cols s !! p with
              | Some col => key_ops_okb (cells col) (keys s) (filter (λ o, in_blk b o = true) (buf t p))
              | None => true end
  | None => true end.

Fixpoint blocks_keys_okb (s : coll) (t : txn) (bs : list N) : bool :=
  match bs with
  | [] => true
  | b :: r => block_keys_okb s t b && blocks_keys_okb (commit_block s t b) t r
  end.

Definition txn_keys_ok (s : coll) (body : list stmt) : bool :=
  let '(s1, t1, _) := do_stmts s txn0 body in blocks_keys_okb s1 t1 (dirty_blocks t1).


